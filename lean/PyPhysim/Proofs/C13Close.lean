import PyPhysim.Proofs.C13Inverse

/-! # C13 — R15 (close but distinct values) and R16 (argument buffers) on the model (α = ℝ)

R15: the model is a function of the EXACT value.  The zero test of the negative-loss
policy has no dead zone, the deterministic loss is strictly monotone (hence injective)
in the distance and in the carrier frequency, the Okumura–Hata guards and the
large-city switch compare exactly.  R16: the caller machine of `Model/C13.lean`. -/
set_option linter.unnecessarySeqFocus false
set_option linter.unusedTactic false
set_option linter.unreachableTactic false
namespace PyPhysim.C13
open PyPhysim.Proto

theorem log10_strictMono {x y : ℝ} (hx : 0 < x) (h : x < y) : Real.logb 10 x < Real.logb 10 y :=
  Real.logb_lt_logb (by norm_num) hx h

theorem log10_ne {x y : ℝ} (hx : 0 < x) (hy : 0 < y) (h : x ≠ y) : Real.logb 10 x ≠ Real.logb 10 y := by
  rcases lt_or_gt_of_ne h with h | h
  · exact (log10_strictMono hx h).ne
  · exact (log10_strictMono hy h).ne'

/-! ## the zero test -/

/-- a reported `0` dB means the deterministic loss was `≤ 0`: a positive loss, however small, is never snapped to 0 -/
theorem scalarDb_zero_imp {small : Bool} {f : ℝ → ℝ} {d : ℝ} (h : scalarDb small f d = .ok 0) : f d ≤ 0 := by
  obtain ⟨_, ex, _⟩ := scalarDb_ok h
  by_contra hp
  rw [clamp_of_nonneg (le_of_lt (not_le.1 hp))] at ex
  exact hp (le_of_eq ex.symm)

/-- the policy identifies no two non-negative losses -/
theorem scalarDb_inj {small : Bool} {f : ℝ → ℝ} {d₁ d₂ : ℝ} (h₁ : 0 < d₁) (h₂ : 0 < d₂)
    (p₁ : 0 ≤ f d₁) (p₂ : 0 ≤ f d₂) (h : scalarDb small f d₁ = scalarDb small f d₂) : f d₁ = f d₂ := by
  rw [scalarDb_real, scalarDb_real, if_pos h₁, if_pos h₂, (policyScalar_spec small _).1 p₁,
    (policyScalar_spec small _).1 p₂] at h
  exact Except.ok.inj h

/-! ## strictly monotone in the distance -/

theorem ps7_detDb_strictMono (s : Ps7State ℝ) (nw : Nat) {d₁ d₂ : ℝ} (h₁ : 0 < d₁) (h : d₁ < d₂) :
    s.detDb nw d₁ < s.detDb nw d₂ := by
  have := log10_strictMono h₁ h
  unfold Ps7State.detDb
  split_ifs
  · rw [ps7LosDb_real, ps7LosDb_real]; nlinarith
  · rw [ps7NlosDb_real, ps7NlosDb_real]; nlinarith

theorem oh_detDb_strictMono {s : OhState ℝ} (hs : OhInv s) (a K : ℝ) {d₁ d₂ : ℝ} (h₁ : 0 < d₁) (h : d₁ < d₂) :
    s.detDb a K d₁ < s.detDb a K d₂ := by
  unfold OhState.detDb
  rw [ohDb_real, ohDb_real]
  have := log10_strictMono h₁ h
  have sl := oh_slope_pos hs.hbs_lo hs.hbs_hi
  nlinarith

theorem generalDb_inj {n C d₁ d₂ : ℝ} (hn : n ≠ 0) (h₁ : 0 < d₁) (h₂ : 0 < d₂) (h : d₁ ≠ d₂) :
    Gen.generalDb n C d₁ ≠ Gen.generalDb n C d₂ := by
  rw [generalDb_real, generalDb_real]
  intro e
  have : 10 * n * (Real.logb 10 d₁ - Real.logb 10 d₂) = 0 := by linarith
  rcases mul_eq_zero.1 this with h0 | h0
  · exact hn (by linarith)
  · exact log10_ne h₁ h₂ h (by linarith)

/-! ## strictly monotone in the carrier frequency -/

theorem fs_detDb_fc_ne {n fc₁ fc₂ : ℝ} (hn : n ≠ 0) (h₁ : 0 < fc₁) (h₂ : 0 < fc₂) (h : fc₁ ≠ fc₂) (d : ℝ) :
    (fsInit n fc₁).detDb d ≠ (fsInit n fc₂).detDb d := by
  simp only [GenState.detDb, fsInit, generalDb_real, fsCalcC_real]
  intro e
  have hm : Real.logb 10 (fc₁ * 1000000) ≠ Real.logb 10 (fc₂ * 1000000) :=
    log10_ne (by positivity) (by positivity) (fun q => h (by nlinarith))
  have : 10 * n * (Real.logb 10 (fc₁ * 1000000) - Real.logb 10 (fc₂ * 1000000)) = 0 := by linarith
  rcases mul_eq_zero.1 this with h0 | h0
  · exact hn (by linarith)
  · exact hm (by linarith)

theorem ps7_detDb_fc_ne (s : Ps7State ℝ) {fc₁ fc₂ : ℝ} (h₁ : 0 < fc₁) (h₂ : 0 < fc₂) (h : fc₁ ≠ fc₂) (nw : Nat) (d : ℝ) :
    ({ s with fc := fc₁ } : Ps7State ℝ).detDb nw d ≠ ({ s with fc := fc₂ } : Ps7State ℝ).detDb nw d := by
  have hm : Real.logb 10 (fc₁ / 1000 / 5) ≠ Real.logb 10 (fc₂ / 1000 / 5) :=
    log10_ne (by positivity) (by positivity) (fun q => h (by field_simp at q; linarith))
  unfold Ps7State.detDb
  split_ifs
  · rw [ps7LosDb_real, ps7LosDb_real]; intro e; exact hm (by linarith)
  · rw [ps7NlosDb_real, ps7NlosDb_real]; intro e; exact hm (by linarith)

/-! ## the setters store the value they are given -/

theorem fsStep_setFc_fresh {s : GenState ℝ} (h : FsInv s) (v : ℝ) :
    fsStep s (.setFc v) = { fsInit s.n v with small := s.small, shadow := s.shadow } := by
  cases s; simp [fsStep, fsInit]

theorem fsStep_setN_fresh {s : GenState ℝ} (h : FsInv s) (v : ℝ) :
    fsStep s (.setN v) = { fsInit v s.fc with small := s.small, shadow := s.shadow } := by
  cases s; simp [fsStep, fsInit]

theorem ohStep_setFc_fc (s : OhState ℝ) (v : ℝ) :
    (ohStep s (.setFc v)).1.fc = if 150 ≤ v ∧ v ≤ 1500 then v else s.fc := by
  simp only [ohStep]
  by_cases h : Gen.ohFcAccepted v = true
  · rw [if_pos h, if_pos ((ohFcAccepted_iff v).1 h)]
  · rw [if_neg h, if_neg (fun q => h ((ohFcAccepted_iff v).2 q))]

theorem ohStep_setHbs_hbs (s : OhState ℝ) (v : ℝ) :
    (ohStep s (.setHbs v)).1.hbs = if 30 ≤ v ∧ v ≤ 200 then v else s.hbs := by
  simp only [ohStep]
  by_cases h : Gen.ohHbsAccepted v = true
  · rw [if_pos h, if_pos ((ohHbsAccepted_iff v).1 h)]
  · rw [if_neg h, if_neg (fun q => h ((ohHbsAccepted_iff v).2 q))]

theorem ohStep_setHms_hms (s : OhState ℝ) (v : ℝ) :
    (ohStep s (.setHms v)).1.hms = if 1 ≤ v ∧ v ≤ 10 then v else s.hms := by
  simp only [ohStep]
  by_cases h : Gen.ohHmsAccepted v = true
  · rw [if_pos h, if_pos ((ohHmsAccepted_iff v).1 h)]
  · rw [if_neg h, if_neg (fun q => h ((ohHmsAccepted_iff v).2 q))]

/-- the large-city correction switches formula at `fc = 300` exactly -/
theorem ohA_large_city (fc hms : ℝ) :
    Gen.ohA "large city" fc hms =
      .ok (if 300 < fc then 3.2 * (Real.logb 10 (11.75 * hms)) ^ 2 - 4.97
           else 8.29 * (Real.logb 10 (1.54 * hms)) ^ 2 - 1.1) := by
  have e1 : (["open", "suburban", "medium city"].contains "large city") = false := by decide
  have e2 : ("large city" == "large city") = true := by decide
  unfold Gen.ohA
  rw [e1, e2]
  simp only [Bool.false_eq_true, if_false, if_true, sq, log10_real, gt_iff_lt, decide_eq_true_eq, Nat.cast_ofNat]
  by_cases h : (300 : ℝ) < fc
  · rw [if_pos h, if_pos h]; congr 1; ring
  · rw [if_neg h, if_neg h]; congr 1; ring

/-! ## R16: the caller machine -/

theorem callerRun_outs_prefix (c : CallerState ℝ) (ops : List (CallerOp ℝ)) :
    ∃ t, (callerRun c ops).outs = c.outs ++ t := by
  induction ops generalizing c with
  | nil => exact ⟨[], by simp [callerRun]⟩
  | cons o rest ih =>
    obtain ⟨t, ht⟩ := ih (callerStep c o)
    cases o with
    | refill vs => exact ⟨t, by simpa [callerRun, callerStep] using ht⟩
    | set o => exact ⟨t, by simpa [callerRun, callerStep] using ht⟩
    | callDb => exact ⟨_ :: t, by simpa [callerRun, callerStep] using ht⟩
    | callLin => exact ⟨_ :: t, by simpa [callerRun, callerStep] using ht⟩
    | callWhich => exact ⟨_ :: t, by simpa [callerRun, callerStep] using ht⟩

theorem callerRun_append (c : CallerState ℝ) (a b : List (CallerOp ℝ)) :
    callerRun c (a ++ b) = callerRun (callerRun c a) b := by
  simp [callerRun, List.foldl_append]

/-- the object seen by a caller history is the object after its setter calls alone:
    refills and queries do not touch it -/
theorem callerRun_obj (c : CallerState ℝ) (ops : List (CallerOp ℝ)) :
    (callerRun c ops).obj = fsRun c.obj (ops.filterMap CallerOp.setter?) := by
  induction ops generalizing c with
  | nil => rfl
  | cons o rest ih =>
    have := ih (callerStep c o)
    cases o <;> simpa [callerRun, callerStep, CallerOp.setter?, fsRun, List.filterMap_cons] using this

end PyPhysim.C13
