import Mathlib.Algebra.Field.GeomSum
import Mathlib.Algebra.BigOperators.Fin
import Mathlib.Algebra.Order.Ring.Rat
import Mathlib.Data.Rat.Cast.CharZero
import Mathlib.Tactic.Ring
import Mathlib.Tactic.FieldSimp
import Mathlib.Tactic.Linarith
import PyPhysim.Model.C18

/-!
C18 — the laws of `cis` / `conj` the proofs rely on (`CisLaws`), their
consequences, and geometric sums of roots of unity.
`Proofs/C18Complex.lean` shows that `ℂ` with `cis q = exp(2πi q)` satisfies them.
-/
namespace PyPhysim.C18P
open PyPhysim.Cazac Finset

/-- What the theorems use about `cis q = exp(2πi·q)` and conjugation. -/
structure CisLaws (F : Type) [Field F] [CisOps F] : Prop where
  cis_zero : (CisOps.cis 0 : F) = 1
  cis_add : ∀ a b : ℚ, (CisOps.cis (a + b) : F) = CisOps.cis a * CisOps.cis b
  cis_eq_one : ∀ a : ℚ, (CisOps.cis a : F) = 1 ↔ ∃ z : ℤ, a = z
  conj_cis : ∀ a : ℚ, CisOps.conj (CisOps.cis a : F) = CisOps.cis (-a)
  conj_hom : ∃ σ : F →+* F, ∀ x : F, CisOps.conj x = σ x

variable {F : Type} [Field F] [CisOps F]

local notation "cis" => (CisOps.cis : ℚ → F)
local notation "conj" => (CisOps.conj : F → F)

namespace CisLaws
variable (L : CisLaws F)
include L

theorem cis_int (z : ℤ) : cis (z : ℚ) = 1 := (L.cis_eq_one _).mpr ⟨z, rfl⟩

theorem cis_nat (n : ℕ) : cis (n : ℚ) = 1 := (L.cis_eq_one _).mpr ⟨n, by simp⟩

theorem cis_mul_neg (a : ℚ) : cis a * cis (-a) = 1 := by
  rw [← L.cis_add, add_neg_cancel, L.cis_zero]

theorem cis_ne_zero (a : ℚ) : cis a ≠ 0 := by
  intro h
  have := L.cis_mul_neg a
  rw [h, zero_mul] at this
  exact zero_ne_one this

theorem cis_neg (a : ℚ) : cis (-a) = (cis a)⁻¹ :=
  eq_inv_of_mul_eq_one_right (L.cis_mul_neg a)

theorem cis_sub (a b : ℚ) : cis (a - b) = cis a / cis b := by
  rw [sub_eq_add_neg, L.cis_add, L.cis_neg, div_eq_mul_inv]

theorem cis_congr {a b : ℚ} (h : ∃ z : ℤ, a - b = z) : cis a = cis b := by
  obtain ⟨z, hz⟩ := h
  have : a = b + z := by linarith
  rw [this, L.cis_add, L.cis_int, mul_one]

theorem cis_nat_mul (n : ℕ) (a : ℚ) : cis (n * a) = cis a ^ n := by
  induction n with
  | zero => simp [L.cis_zero]
  | succ n ih =>
    have : ((n + 1 : ℕ) : ℚ) * a = n * a + a := by push_cast; ring
    rw [this, L.cis_add, ih, pow_succ]

theorem cis_mul_conj (a : ℚ) : cis a * conj (cis a) = 1 := by
  rw [L.conj_cis, L.cis_mul_neg]

theorem conj_mul (x y : F) : conj (x * y) = conj x * conj y := by
  obtain ⟨σ, h⟩ := L.conj_hom
  simp only [h, map_mul]

theorem conj_add (x y : F) : conj (x + y) = conj x + conj y := by
  obtain ⟨σ, h⟩ := L.conj_hom
  simp only [h, map_add]

theorem conj_zero : conj 0 = 0 := by
  obtain ⟨σ, h⟩ := L.conj_hom
  simp only [h, map_zero]

theorem conj_one : conj 1 = 1 := by
  obtain ⟨σ, h⟩ := L.conj_hom
  simp only [h, map_one]

theorem conj_natCast (n : ℕ) : conj (n : F) = n := by
  obtain ⟨σ, h⟩ := L.conj_hom
  simp only [h, map_natCast]

theorem conj_div (x y : F) : conj (x / y) = conj x / conj y := by
  obtain ⟨σ, h⟩ := L.conj_hom
  simp only [h, map_div₀]

theorem conj_sum {ι : Type} (s : Finset ι) (f : ι → F) :
    conj (∑ i ∈ s, f i) = ∑ i ∈ s, conj (f i) := by
  obtain ⟨σ, h⟩ := L.conj_hom
  simp only [h, map_sum]

/-- geometric sum of a non-trivial root of unity vanishes -/
theorem sum_cis_nat_mul_eq_zero (N : ℕ) (q : ℚ) (hN : ∃ z : ℤ, (N : ℚ) * q = z)
    (hq : ¬ ∃ z : ℤ, q = z) : ∑ n ∈ range N, cis ((n : ℚ) * q) = 0 := by
  have h1 : cis q ≠ 1 := fun h => hq ((L.cis_eq_one q).mp h)
  have hpow : cis q ^ N = 1 := by
    rw [← L.cis_nat_mul]
    exact (L.cis_eq_one _).mpr hN
  calc ∑ n ∈ range N, cis ((n : ℚ) * q) = ∑ n ∈ range N, cis q ^ n :=
        Finset.sum_congr rfl (fun n _ => L.cis_nat_mul n q)
    _ = (cis q ^ N - 1) / (cis q - 1) := geom_sum_eq h1 N
    _ = 0 := by rw [hpow, sub_self, zero_div]

theorem sum_cis_nat_mul_eq_card (N : ℕ) (q : ℚ) (hq : ∃ z : ℤ, q = z) :
    ∑ n ∈ range N, cis ((n : ℚ) * q) = N := by
  obtain ⟨z, rfl⟩ := hq
  have : ∀ n ∈ range N, cis ((n : ℚ) * (z : ℚ)) = 1 := by
    intro n _
    have : ((n : ℚ) * (z : ℚ)) = ((n * z : ℤ) : ℚ) := by push_cast; ring
    rw [this, L.cis_int]
  rw [Finset.sum_congr rfl this]
  simp

/-- orthogonality of the characters of `ℤ/N`: `Σ_{n<N} cis(n·j/N) = N` if `N ∣ j`, else `0` -/
theorem sum_cis_div (N : ℕ) (hN : 0 < N) (j : ℤ) :
    ∑ n ∈ range N, cis ((n : ℚ) * ((j : ℚ) / (N : ℚ))) = if (N : ℤ) ∣ j then (N : F) else 0 := by
  have hN' : (N : ℚ) ≠ 0 := by exact_mod_cast (Nat.ne_of_gt hN)
  split_ifs with hd
  · apply L.sum_cis_nat_mul_eq_card
    obtain ⟨c, rfl⟩ := hd
    exact ⟨c, by push_cast; field_simp⟩
  · apply L.sum_cis_nat_mul_eq_zero
    · exact ⟨j, by field_simp⟩
    · rintro ⟨z, hz⟩
      apply hd
      refine ⟨z, ?_⟩
      have : (j : ℚ) = (N : ℚ) * z := by
        field_simp at hz
        linarith
      exact_mod_cast this

end CisLaws
end PyPhysim.C18P
