import PyPhysim.Proofs.C07Resume

/-! Helper lemmas for C07: the whole `simulate()` (variations + final results file),
crash followed by restart, refusal of foreign partial results, reachable disks. -/
namespace PyPhysim.C07

open PyPhysim.C05 (Outcome VarState Keep Stored Saved guard after stateOf freshState IsVarRun RunsSpec logOf
  oks skips)

variable {R T : Type}

/-- the events of saving the final results file -/
def finEvs (cfg : Cfg R T) (results : List (Stored R)) (reps : List Nat) : List (Ev R T) :=
  (saveOps cfg.mode (⟨results, reps⟩ : Full R)).map Ev.fin

theorem partOps_map_fin (i : Nat) (ops : List (SlotOp (Full R))) :
    partOps i (ops.map Ev.fin : List (Ev R T)) = [] := by
  induction ops with
  | nil => rfl
  | cons op ops ih => simp [partOps, ih]

theorem finOps_map_fin (ops : List (SlotOp (Full R))) :
    finOps (ops.map Ev.fin : List (Ev R T)) = ops := by
  induction ops with
  | nil => rfl
  | cons op ops ih => simp [finOps, ih]

theorem partOps_prefix_map_fin (i : Nat) (ops : List (SlotOp (Full R))) (q : List (Ev R T))
    (hq : q <+: ops.map Ev.fin) : partOps i q = [] := by
  have := partOps_prefix i hq
  rw [partOps_map_fin] at this
  exact List.prefix_nil.mp this

section
variable [DecidableEq T]

theorem simC_fields (cfg : Cfg R T) (d : Disk R T) (c : Clock) (outs : List (Outcome R)) :
    (simC cfg d c outs).results = (simVarsC cfg (List.range cfg.nvar) d c outs).results ∧
    (simC cfg d c outs).reps = (simVarsC cfg (List.range cfg.nvar) d c outs).reps ∧
    (simC cfg d c outs).rest = (simVarsC cfg (List.range cfg.nvar) d c outs).rest ∧
    (simC cfg d c outs).status = (simVarsC cfg (List.range cfg.nvar) d c outs).status ∧
    (simC cfg d c outs).trace = (simVarsC cfg (List.range cfg.nvar) d c outs).trace ++
      (match (simVarsC cfg (List.range cfg.nvar) d c outs).status with
       | none => finEvs cfg (simVarsC cfg (List.range cfg.nvar) d c outs).results
                  (simVarsC cfg (List.range cfg.nvar) d c outs).reps
       | some _ => []) := by
  unfold simC
  generalize simVarsC cfg (List.range cfg.nvar) d c outs = t
  obtain ⟨tr, res, reps, rest, clk, st⟩ := t
  cases st <;> simp [finEvs]

theorem simC_callLog (cfg : Cfg R T) (d : Disk R T) (c : Clock) (outs : List (Outcome R)) :
    callLog (simC cfg d c outs).trace = callLog (simVarsC cfg (List.range cfg.nvar) d c outs).trace := by
  rw [(simC_fields cfg d c outs).2.2.2.2, callLog_append]
  cases (simVarsC cfg (List.range cfg.nvar) d c outs).status with
  | none => simp [finEvs, callLog_map_fin]
  | some e => simp [callLog]

theorem simC_allAtomic (cfg : Cfg R T) (d : Disk R T) (c : Clock) (outs : List (Outcome R))
    (hm : cfg.mode = .atomic) : AllAtomic (simC cfg d c outs).trace := by
  rw [(simC_fields cfg d c outs).2.2.2.2]
  obtain ⟨_, _, _, h4⟩ := simVarsC_spec cfg (List.range cfg.nvar) d c outs List.nodup_range
  refine (h4 hm).append ?_
  cases (simVarsC cfg (List.range cfg.nvar) d c outs).status with
  | none => simp only [finEvs]; rw [hm]; exact allAtomic_map_fin _
  | some e => exact AllAtomic.nil

/-- **The disk after any crash point of `simulate()`**: the partial-results files
    are described by `CrashSpec`; files of indices that are not variations are untouched. -/
theorem simC_crash (cfg : Cfg R T) (d : Disk R T) (c : Clock) (outs : List (Outcome R))
    (pre : List (Ev R T)) (hp : pre <+: (simC cfg d c outs).trace) :
    (∃ segs, segs.flatten <+: outs ∧
      CrashSpec cfg (startOf cfg d) (fun j => (d.part j).main)
        (fun j => ((d.applyAll pre).part j).main) (List.range cfg.nvar) segs) ∧
    ∀ j, j ∉ List.range cfg.nvar → ((d.applyAll pre).part j).main = (d.part j).main := by
  rw [(simC_fields cfg d c outs).2.2.2.2] at hp
  obtain ⟨_, _, o3, _⟩ := simVarsC_spec cfg (List.range cfg.nvar) d c outs List.nodup_range
  rcases prefix_append_cases hp with hp | ⟨q, rfl, hq⟩
  · exact ⟨simVarsC_crash cfg _ d c outs List.nodup_range pre hp,
      fun j hj => by rw [(o3.prefix hp).part_notMem hj]⟩
  · have hq0 : ∀ j, partOps j q = [] := by
      intro j
      cases hst : (simVarsC cfg (List.range cfg.nvar) d c outs).status with
      | none => rw [hst] at hq; exact partOps_prefix_map_fin j _ q hq
      | some e => rw [hst] at hq; rw [List.prefix_nil.mp hq]; rfl
    have hsame : ∀ j, (d.applyAll ((simVarsC cfg (List.range cfg.nvar) d c outs).trace ++ q)).part j
        = (d.applyAll (simVarsC cfg (List.range cfg.nvar) d c outs).trace).part j := by
      intro j
      rw [Disk.applyAll_append, Disk.applyAll_part _ q, hq0 j]; rfl
    obtain ⟨segs, g1, g2⟩ := simVarsC_crash cfg _ d c outs List.nodup_range
      (simVarsC cfg (List.range cfg.nvar) d c outs).trace (List.prefix_refl _)
    refine ⟨⟨segs, g1, CrashSpec.congr cfg _ _ _ _ _ _ _ segs ?_ g2⟩, ?_⟩
    · intro j _; exact ⟨rfl, rfl, by rw [hsame j]⟩
    · intro j hj; rw [hsame j, o3.part_notMem hj]

/-- **Crash (atomic discipline) followed by a restart**, in raw form: the restart
    never raises; when it returns normally it is a C05 run per variation from the
    starts `Resumed` relates to the crashed run. -/
theorem simC_resume (cfg cfg2 : Cfg R T) (hmode : cfg.mode = .atomic)
    (htag : ∀ i, cfg2.tag i = cfg.tag i) (hn : cfg2.nvar = cfg.nvar)
    (d0 : Disk R T) (hclean : ∀ i, i < cfg.nvar → LoadsOk cfg d0 i)
    (c1 : Clock) (outs1 : List (Outcome R)) (pre : List (Ev R T))
    (hp : pre <+: (simC cfg d0 c1 outs1).trace) (c2 : Clock) (outs2 : List (Outcome R)) :
    ((simC cfg2 (d0.applyAll pre) c2 outs2).status = none ∨
      (simC cfg2 (d0.applyAll pre) c2 outs2).status = some .Exhausted) ∧
    ((simC cfg2 (d0.applyAll pre) c2 outs2).status = none →
      ∃ segs1 segs2 sts, segs1.flatten <+: outs1 ∧
        outs2 = segs2.flatten ++ (simC cfg2 (d0.applyAll pre) c2 outs2).rest ∧
        (simC cfg2 (d0.applyAll pre) c2 outs2).results = sts.map VarState.stored ∧
        (simC cfg2 (d0.applyAll pre) c2 outs2).reps = sts.map (·.rep) ∧
        callLog (simC cfg2 (d0.applyAll pre) c2 outs2).trace = logOf (List.range cfg.nvar) segs2 ∧
        RunsSpec cfg2.base (startOf cfg2 (d0.applyAll pre)) (List.range cfg.nvar) segs2 sts ∧
        Resumed cfg (startOf cfg d0) (startOf cfg2 (d0.applyAll pre)) (List.range cfg.nvar) segs1) := by
  obtain ⟨⟨segs1, g1, g2⟩, _⟩ := simC_crash cfg d0 c1 outs1 pre hp
  obtain ⟨r1, r2⟩ := CrashSpec.resumed cfg cfg2 hmode htag d0 (d0.applyAll pre) (List.range cfg.nvar) segs1
    (fun i hi => hclean i (List.mem_range.mp hi)) g2
  obtain ⟨f1, f2, f3, f4, _⟩ := simC_fields cfg2 (d0.applyAll pre) c2 outs2
  obtain ⟨s1, s2, _, _⟩ := simVarsC_spec cfg2 (List.range cfg2.nvar) (d0.applyAll pre) c2 outs2 List.nodup_range
  rw [hn] at s1 s2
  rw [f4, f1, f2, f3, simC_callLog, hn]
  refine ⟨s1 r2, ?_⟩
  intro hst
  obtain ⟨segs2, sts, t1, t2, t3, t4, t5, _⟩ := s2 hst
  exact ⟨segs1, segs2, sts, g1, t2, t3, t4, t5, t1, r1⟩

/-! ### exactly the requested number of repetitions -/

/-- with the default `_keep_going` a complete run ends exactly at the limit, when
    it did not start beyond it -/
theorem isVarRun_rep_eq (merge : R → R → R) (repMax : Nat) (keep : Keep R)
    (start : Option (R × Nat)) (seg : List (Outcome R)) (st : VarState R)
    (h : IsVarRun merge repMax keep start seg st) (hkeep : ∀ a k r, keep a k r = true)
    (hstart : ∀ a n, start = some (a, n) → n ≤ repMax) (hmax : 1 ≤ repMax) : st.rep = repMax := by
  have hle := rep_le_of_running merge repMax keep start seg st h.2.2 h.1 hstart hmax
  have hg := h.2.1
  simp only [C05.guard, hkeep, Bool.true_and, decide_eq_false_iff_not] at hg
  omega

theorem ResumedFrom.start_le {merge : R → R → R} {start0 start1 : Option (R × Nat)} {p : List (Outcome R)}
    (h : ResumedFrom merge start0 p start1) (repMax : Nat) (keep : Keep R)
    (hrun : Running merge repMax keep start0 p)
    (hstart : ∀ a n, start0 = some (a, n) → n ≤ repMax) (hmax : 1 ≤ repMax) :
    ∀ a n, start1 = some (a, n) → n ≤ repMax := by
  intro a n h1
  rcases h with ⟨_, rfl⟩ | ⟨s, hs, rfl⟩
  · exact hstart a n h1
  · simp only [Option.some.injEq, Prod.mk.injEq] at h1
    rw [← h1.2]
    exact rep_le_of_running merge repMax keep start0 p s hrun hs hstart hmax

omit [DecidableEq T] in
theorem Resumed.reps_exact (cfg cfg2 : Cfg R T) (hmerge : cfg2.merge = cfg.merge)
    (hkeep : ∀ i a k r, cfg2.keep i a k r = true) (hmax : 1 ≤ cfg.repMax) (hle : cfg.repMax ≤ cfg2.repMax)
    (start0 start1 : Nat → Option (R × Nat)) :
    ∀ (is : List Nat) (segs1 segs2 : List (List (Outcome R))) (sts : List (VarState R)),
      (∀ i ∈ is, ∀ a n, start0 i = some (a, n) → n ≤ cfg.repMax) →
      Resumed cfg start0 start1 is segs1 → RunsSpec cfg2.base start1 is segs2 sts →
      sts.map (·.rep) = is.map (fun _ => cfg2.repMax)
  | [], [], [], [], _, _, _ => rfl
  | i :: is, seg1 :: segs1, seg2 :: segs2, st :: sts, h0, h1, h2 => by
    rw [Resumed] at h1
    simp only [RunsSpec] at h2
    obtain ⟨⟨p, _, hres, hrun⟩, h1'⟩ := h1
    obtain ⟨hvr, h2'⟩ := h2
    have ih := Resumed.reps_exact cfg cfg2 hmerge hkeep hmax hle start0 start1 is segs1 segs2 sts
      (fun j hj => h0 j (by simp [hj])) h1' h2'
    have hs1 : ∀ a n, start1 i = some (a, n) → n ≤ cfg2.repMax := by
      intro a n h
      have := hres.start_le cfg.repMax (cfg.keep i) hrun (h0 i (by simp)) hmax a n h
      omega
    have := isVarRun_rep_eq cfg2.base.merge cfg2.base.repMax (cfg2.base.keep i) (start1 i) seg2 st hvr
      (hkeep i) hs1 (by simp only [Cfg.base]; omega)
    simp only [List.map_cons, ih, List.cons.injEq, and_true]
    exact this
  | [], [], [], _ :: _, _, _, h => by simp [RunsSpec] at h
  | [], [], _ :: _, _, _, _, h => by simp [RunsSpec] at h
  | [], _ :: _, _, _, _, h, _ => by simp [Resumed] at h
  | _ :: _, [], _, _, _, h, _ => by simp [Resumed] at h
  | _ :: _, _ :: _, [], _, _, _, h => by simp [RunsSpec] at h
  | _ :: _, _ :: _, _ :: _, [], _, _, h => by simp [RunsSpec] at h

/-- a resumed variation that had already reached the limit gets no further repetition -/
theorem isVarRun_at_limit (merge : R → R → R) (repMax : Nat) (keep : Keep R) (a : R) (n : Nat)
    (seg : List (Outcome R)) (st : VarState R) (hn : repMax ≤ n)
    (h : IsVarRun merge repMax keep (some (a, n)) seg st) : seg = [] := by
  refine Classical.byContradiction (fun hne => ?_)
  have := h.2.2 [] List.nil_prefix (fun h => hne h.symm) ⟨a, n, 0, 0⟩ (by simp [stateOf, C05.after_nil])
  simp only [C05.guard, Bool.and_eq_true, decide_eq_true_eq] at this
  omega

omit [DecidableEq T] in
/-- a variation whose saved state had reached the limit is not run again -/
theorem Resumed.completed_not_rerun (cfg cfg2 : Cfg R T) (start0 start1 : Nat → Option (R × Nat)) :
    ∀ (is : List Nat) (segs2 : List (List (Outcome R))) (sts : List (VarState R)),
      RunsSpec cfg2.base start1 is segs2 sts →
      ∀ i seg2, (i, seg2) ∈ is.zip segs2 → ∀ a n, start1 i = some (a, n) → cfg2.repMax ≤ n → seg2 = []
  | [], [], [], _, i, seg2, hm => by simp at hm
  | j :: is, s2 :: segs2, st :: sts, h, i, seg2, hm => by
    simp only [RunsSpec] at h
    simp only [List.zip_cons_cons, List.mem_cons, Prod.mk.injEq] at hm
    intro a n hs hn
    rcases hm with ⟨rfl, rfl⟩ | hm
    · have hv := h.1
      rw [hs] at hv
      exact isVarRun_at_limit cfg2.base.merge cfg2.base.repMax (cfg2.base.keep i) a n seg2 st hn hv
    · exact Resumed.completed_not_rerun cfg cfg2 start0 start1 is segs2 sts h.2 i seg2 hm a n hs hn
  | [], _ :: _, _, h, _, _, _ => by simp [RunsSpec] at h
  | [], [], _ :: _, h, _, _, _ => by simp [RunsSpec] at h
  | _ :: _, [], _, h, _, _, _ => by simp [RunsSpec] at h
  | _ :: _, _ :: _, [], h, _, _, _ => by simp [RunsSpec] at h

/-! ### partial results saved for other parameters / unreadable files -/

/-- **A file that cannot be used is never merged and never overwritten.**  If the
    load of variation `j` raises (foreign parameters: `ValueError`; unreadable:
    `LoadError`), the run does not return normally, makes no call for `j`, performs
    no file-system step on `j`'s file; and whatever it raises is `Exhausted` or the
    load error of some variation. -/
theorem simVarsC_refused (cfg : Cfg R T) :
    ∀ (is : List Nat) (d : Disk R T) (c : Clock) (outs : List (Outcome R)), is.Nodup →
      ∀ j e0, j ∈ is → loadPart cfg d j = .error e0 →
        (simVarsC cfg is d c outs).status ≠ none ∧
        partOps j (simVarsC cfg is d c outs).trace = [] ∧
        Ev.call j ∉ (simVarsC cfg is d c outs).trace ∧
        (∀ e, (simVarsC cfg is d c outs).status = some e →
          e = .Exhausted ∨ ∃ k ∈ is, loadPart cfg d k = .error e)
  | [], d, c, outs, _, j, e0, hj, _ => by simp at hj
  | i :: is, d, c, outs, hnd, j, e0, hj, hbad => by
    have hnd' : is.Nodup := (List.nodup_cons.mp hnd).2
    have hi : i ∉ is := (List.nodup_cons.mp hnd).1
    rcases runVarC_cases cfg i d c outs with ⟨e, hld, hrun⟩ | ⟨hl, used, hs, _⟩
    · have hres : (runVarC cfg i d c outs).res = .error e := by rw [hrun]
      rw [simVarsC_cons_error cfg i is d c outs e hres, hrun]
      refine ⟨by simp, rfl, by simp, ?_⟩
      intro e' he'
      simp only [Option.some.injEq] at he'
      subst he'
      exact Or.inr ⟨i, by simp, hld⟩
    · have hji : j ≠ i := by
        intro h; subst h; exact hl e0 hbad
      have hjis : j ∈ is := by
        rcases List.mem_cons.mp hj with h | h
        · exact absurd h hji
        · exact h
      have hnocall : Ev.call j ∉ (runVarC cfg i d c outs).trace := by
        intro hmem
        rcases hs.only _ hmem with h | ⟨op, h⟩
        · cases h; exact hji rfl
        · cases h
      cases hres : (runVarC cfg i d c outs).res with
      | error e =>
        obtain ⟨he, _⟩ := hs.failed e hres
        rw [simVarsC_cons_error cfg i is d c outs e hres]
        refine ⟨by simp, hs.only.partOps_ne hji, hnocall, ?_⟩
        intro e' he'
        simp only [Option.some.injEq] at he'
        left; rw [← he', he]
      | ok st =>
        rw [simVarsC_cons_ok cfg i is d c outs st hres]
        have hbad' : loadPart cfg (d.applyAll (runVarC cfg i d c outs).trace) j = .error e0 := by
          rw [loadPart_congr cfg d _ j (by rw [hs.only.part_ne hji])]; exact hbad
        obtain ⟨a1, a2, a3, a4⟩ := simVarsC_refused cfg is (d.applyAll (runVarC cfg i d c outs).trace)
          (runVarC cfg i d c outs).clock (runVarC cfg i d c outs).rest hnd' j e0 hjis hbad'
        refine ⟨a1, ?_, ?_, ?_⟩
        · rw [partOps_append, hs.only.partOps_ne hji, a2]; rfl
        · intro hmem
          rcases List.mem_append.mp hmem with h | h
          · exact hnocall h
          · exact a3 h
        · intro e' he'
          rcases a4 e' he' with h | ⟨k, hk, hk'⟩
          · left; exact h
          · right
            refine ⟨k, by simp [hk], ?_⟩
            have hki : k ≠ i := fun h => hi (h ▸ hk)
            rw [← loadPart_congr cfg d _ k (by rw [hs.only.part_ne hki])]; exact hk'


/-! ### the call log -/

omit [DecidableEq T] in
theorem mem_callLog (t : List (Ev R T)) (i : Nat) : i ∈ callLog t ↔ Ev.call i ∈ t := by
  induction t with
  | nil => simp [callLog]
  | cons ev t ih =>
    cases ev with
    | call j => simp [callLog, ih]
    | part j op => simp [callLog, ih]
    | fin op => simp [callLog, ih]

/-- a variation appears in the log only through a non-empty segment of its own -/
theorem mem_logOf_zip : ∀ (is : List Nat) (segs : List (List (Outcome R))) (x : Nat),
    x ∈ logOf is segs → ∃ seg, (x, seg) ∈ is.zip segs ∧ seg ≠ []
  | [], _, x, h => by simp [logOf] at h
  | _ :: _, [], x, h => by simp [logOf] at h
  | i :: is, seg :: segs, x, h => by
    simp only [logOf, List.mem_append, List.mem_replicate] at h
    rcases h with ⟨hne, rfl⟩ | h
    · exact ⟨seg, by simp, fun h0 => hne (by simp [h0])⟩
    · obtain ⟨s, hs, hne⟩ := mem_logOf_zip is segs x h
      exact ⟨s, by simp [hs], hne⟩

/-! ### temp files and the final results file never influence a run -/

theorem runVarC_mainEq (cfg : Cfg R T) (i : Nat) (d d' : Disk R T) (c : Clock) (outs : List (Outcome R))
    (h : (d.part i).main = (d'.part i).main) : runVarC cfg i d c outs = runVarC cfg i d' c outs := by
  unfold runVarC; rw [loadPart_congr cfg d' d i h]

theorem simVarsC_mainEq (cfg : Cfg R T) :
    ∀ (is : List Nat) (d d' : Disk R T) (c : Clock) (outs : List (Outcome R)), MainEq d d' →
      simVarsC cfg is d c outs = simVarsC cfg is d' c outs
  | [], d, d', c, outs, _ => rfl
  | i :: is, d, d', c, outs, h => by
    rw [simVarsC, simVarsC, runVarC_mainEq cfg i d d' c outs (h i)]
    cases (runVarC cfg i d' c outs).res with
    | error e => rfl
    | ok st =>
      simp only
      rw [simVarsC_mainEq cfg is (d.applyAll (runVarC cfg i d' c outs).trace)
        (d'.applyAll (runVarC cfg i d' c outs).trace) _ _ (h.applyAll _)]

theorem simC_mainEq (cfg : Cfg R T) (d d' : Disk R T) (c : Clock) (outs : List (Outcome R))
    (h : MainEq d d') : simC cfg d c outs = simC cfg d' c outs := by
  unfold simC; rw [simVarsC_mainEq cfg _ d d' c outs h]

/-- a run that stops with `Exhausted` consumed the whole scripted stream -/
theorem simVarsC_exhausted (cfg : Cfg R T) :
    ∀ (is : List Nat) (d : Disk R T) (c : Clock) (outs : List (Outcome R)),
      (simVarsC cfg is d c outs).status = some .Exhausted → (simVarsC cfg is d c outs).rest = []
  | [], d, c, outs, h => by simp [simVarsC_nil] at h
  | i :: is, d, c, outs, h => by
    rcases runVarC_cases cfg i d c outs with ⟨e, hld, hrun⟩ | ⟨hl, used, hs, _⟩
    · have hres : (runVarC cfg i d c outs).res = .error e := by rw [hrun]
      rw [simVarsC_cons_error cfg i is d c outs e hres] at h
      simp only [Option.some.injEq] at h
      subst h
      unfold loadPart at hld
      split at hld
      · cases hld
      · cases hld
      · split at hld <;> cases hld
    · cases hres : (runVarC cfg i d c outs).res with
      | error e =>
        rw [simVarsC_cons_error cfg i is d c outs e hres]
        exact (hs.failed e hres).2
      | ok st =>
        rw [simVarsC_cons_ok cfg i is d c outs st hres] at h ⊢
        exact simVarsC_exhausted cfg is _ _ _ h

/-! ### disks reachable by any number of interrupted runs -/

/-- the disks that any sequence of `simulate()` runs, each killed at an arbitrary
    point (or left to finish), can leave behind, starting from an empty folder -/
inductive Reach (cfg : Cfg R T) : Disk R T → Prop
  | empty : Reach cfg Disk.empty
  | crash (d : Disk R T) (h : Reach cfg d) (c : Clock) (outs : List (Outcome R)) (pre : List (Ev R T))
      (hp : pre <+: (simC cfg d c outs).trace) : Reach cfg (d.applyAll pre)

/-- a partial-results file that is missing, or holds the merge and the count of the
    successful outcomes of some sequence of `_run_simulation` calls, tagged with the
    parameters of its variation -/
def Durable (cfg : Cfg R T) (i : Nat) (f : File (Part R T)) : Prop :=
  f = .absent ∨ ∃ (p : List (Outcome R)) (s : VarState R) (k : Nat),
    freshState cfg.merge p = some s ∧ f = .valid ⟨⟨s.acc, k, s.rep⟩, cfg.tag i⟩

theorem Durable.loadsOk {cfg : Cfg R T} {d : Disk R T} {i : Nat} (h : Durable cfg i (d.part i).main) :
    LoadsOk cfg d i := by
  intro e
  rcases h with h | ⟨p, s, k, _, h⟩ <;> simp [loadPart, h]

omit [DecidableEq T] in
/-- pointwise reading of a crash spec -/
theorem CrashSpec.pointwise (cfg : Cfg R T) (start : Nat → Option (R × Nat)) (old m : Nat → File (Part R T)) :
    ∀ (is : List Nat) (segs : List (List (Outcome R))), CrashSpec cfg start old m is segs →
      ∀ i ∈ is, m i = old i ∨ (cfg.mode = .inPlace ∧ m i = .torn) ∨
        ∃ p s, stateOf cfg.merge (start i) p = some s ∧ m i = .valid (partOf cfg i s)
  | [], [], _, i, hi => by simp at hi
  | j :: is, seg :: segs, h, i, hi => by
    rw [CrashSpec] at h
    rcases h with ⟨st, h1, h2, h3⟩ | ⟨h1, h2, _⟩
    · rcases List.mem_cons.mp hi with rfl | hi
      · right; right; exact ⟨seg, st, h1.1, h2⟩
      · exact CrashSpec.pointwise cfg start old m is segs h3 i hi
    · rcases List.mem_cons.mp hi with rfl | hi
      · rcases h1 with h1 | h1 | ⟨p, s, _, hs, hm, _⟩
        · left; exact h1
        · right; left; exact h1
        · right; right; exact ⟨p, s, hs, hm⟩
      · left; exact h2 i hi
  | [], _ :: _, h, _, _ => by simp [CrashSpec] at h
  | _ :: _, [], h, _, _ => by simp [CrashSpec] at h

/-- **Invariant of the atomic discipline over any number of interrupted runs.** -/
theorem Reach.durable (cfg : Cfg R T) (hmode : cfg.mode = .atomic) (d : Disk R T) (h : Reach cfg d) :
    ∀ i, Durable cfg i (d.part i).main := by
  induction h with
  | empty => intro i; left; rfl
  | crash d _ c outs pre hp ih =>
    intro i
    obtain ⟨⟨segs, _, g2⟩, g3⟩ := simC_crash cfg d c outs pre hp
    by_cases hi : i ∈ List.range cfg.nvar
    · rcases CrashSpec.pointwise cfg _ _ _ _ segs g2 i hi with h | ⟨hm, _⟩ | ⟨p, s, hs, hmain⟩
      · rw [h]; exact ih i
      · rw [hmode] at hm; cases hm
      · rw [hmain]
        right
        rcases ih i with h0 | ⟨p0, s0, k0, hs0, h0⟩
        · have : startOf cfg d i = none := by simp [startOf, loadPart, h0]
          rw [this] at hs
          exact ⟨p, s, s.skipped, by simpa [stateOf] using hs, rfl⟩
        · have : startOf cfg d i = some (s0.acc, s0.rep) := by simp [startOf, loadPart, h0]
          rw [this] at hs
          obtain ⟨s', e1, e2, e3⟩ := stateOf_resume cfg.merge none p0 p s0 (by simpa [stateOf] using hs0)
          simp only [stateOf, Option.some.injEq] at hs
          refine ⟨p0 ++ p, s', s.skipped, by simpa [stateOf] using e1, ?_⟩
          rw [e2, e3, hs]; rfl
    · rw [g3 i hi]; exact ih i

end

end PyPhysim.C07
