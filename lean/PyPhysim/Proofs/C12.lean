import Mathlib.Tactic.Ring
import Mathlib.Tactic.Linarith
import Mathlib.Tactic.FieldSimp
import Mathlib.Algebra.Order.Field.Basic
import Mathlib.Algebra.Order.BigOperators.Group.List
import PyPhysim.Model.C12

/-!
# C12 helper lemmas, part 1: what the `doWF` loop computes

Over an arbitrary linear ordered field.  Main results

* `dropLoop_spec`   — loop invariant: the loop stops at a suffix `w :: rest` of the
  ascending list whose cost `Σ (level w − level x)` is affordable, and the level
  finally returned lies strictly below the level of every removed channel;
* `doWFWith_spec`   — the value returned by `doWFWith` in closed form;
* `doWFWith_isWaterFilling` — for every `asc` satisfying `SortContract`:
  `p = g.map (max 0 (μ − N/(Es·g)))`, `Σ p = P`, `0 < μ`;
* `doWF_sum`, `doWF_nonneg` — the two facts other properties (C09) import.
-/
namespace PyPhysim.C12
open PyPhysim.Proto

set_option linter.unusedSectionVars false

variable {α : Type} [Field α] [LinearOrder α] [IsStrictOrderedRing α]

/-- contract of the external kernel `np.argsort` (result paired with the gains):
    a permutation of the indexed gains, gains non-decreasing -/
structure SortContract (g : List α) (asc : List (Chan α)) : Prop where
  perm : asc.Perm g.zipIdx
  sorted : asc.Pairwise (fun x y => x.1 ≤ y.1)

/-- `(p, μ)` is a water-filling solution for gains `g`, power `P`, noise `N`, symbol energy `Es` -/
structure IsWaterFilling (g : List α) (P N Es : α) (p : List α) (mu : α) : Prop where
  form : p = g.map (fun x => max 0 (mu - N / (Es * x)))
  sum : p.sum = P

/-! ### list sums -/

theorem sum_map_const_add (c : α) (l : List α) :
    (l.map (fun x => c + x)).sum = (l.length : α) * c + l.sum := by
  induction l with
  | nil => simp
  | cons a l ih => simp only [List.map_cons, List.sum_cons, ih, List.length_cons]; push_cast; ring

theorem excess_shift (N Es : α) (w w' : Chan α) (K : List (Chan α)) :
    (excess N Es w K).sum
      = (K.length : α) * (level N Es w - level N Es w') + (excess N Es w' K).sum := by
  induction K with
  | nil => simp [excess]
  | cons a K ih =>
    simp only [excess, List.map_cons, List.sum_cons, List.length_cons] at ih ⊢
    rw [ih]; push_cast; ring

theorem excess_self_cons (N Es : α) (w : Chan α) (K : List (Chan α)) :
    (excess N Es w (w :: K)).sum = (excess N Es w K).sum := by
  simp [excess]

theorem excess_nonneg (N Es : α) (w : Chan α) (K : List (Chan α))
    (h : ∀ x ∈ K, level N Es x ≤ level N Es w) : 0 ≤ (excess N Es w K).sum := by
  apply List.sum_nonneg
  intro y hy
  simp only [excess, List.mem_map] at hy
  obtain ⟨x, hx, rfl⟩ := hy
  linarith [h x hx]

/-- levels are non-increasing along the ascending-gain list -/
def LevelSorted (N Es : α) (L : List (Chan α)) : Prop :=
  L.Pairwise (fun x y => level N Es y ≤ level N Es x)

/-- the level returned for a kept list `w :: rest` -/
def muOf (N Es P : α) (w : Chan α) (rest : List (Chan α)) : α :=
  (P - (excess N Es w (w :: rest)).sum) / (((w :: rest).length : Nat) : α) + level N Es w

/-! ### the loop -/

theorem dropLoop_spec (N Es P : α) (hP : 0 ≤ P) :
    ∀ L : List (Chan α), L ≠ [] → LevelSorted N Es L →
      ∃ pre w rest, L = pre ++ w :: rest ∧ dropLoop N Es P L = w :: rest ∧
        (excess N Es w (w :: rest)).sum ≤ P ∧
        ∀ d ∈ pre, muOf N Es P w rest < level N Es d := by
  intro L
  induction L with
  | nil => intro h; exact absurd rfl h
  | cons w L' ih =>
    intro _ hs
    by_cases h : P < (excess N Es w (w :: L')).sum
    · have hne : L' ≠ [] := by
        rintro rfl
        simp [excess] at h
        linarith
      have hs' : LevelSorted N Es L' := (List.pairwise_cons.mp hs).2
      obtain ⟨pre, w', rest, hL, hd, hle, hpre⟩ := ih hne hs'
      refine ⟨w :: pre, w', rest, by rw [hL]; rfl, ?_, hle, ?_⟩
      · simp only [dropLoop, h, if_true]; exact hd
      · -- the level lies below the level of the channel just removed
        have hw : muOf N Es P w' rest < level N Es w := by
          cases pre with
          | nil =>
            simp only [List.nil_append] at hL
            subst hL
            rw [excess_self_cons, excess_shift N Es w w' (w' :: rest)] at h
            have hk : (0 : α) < (((w' :: rest).length : Nat) : α) := by
              simp only [List.length_cons]; exact_mod_cast Nat.succ_pos _
            unfold muOf
            rw [← sub_pos] at h ⊢
            have : (P - (excess N Es w' (w' :: rest)).sum) / (((w' :: rest).length : Nat) : α)
                < level N Es w - level N Es w' := by
              rw [div_lt_iff₀ hk]; linarith
            linarith
          | cons d pre' =>
            have h1 := hpre d (by simp)
            have h2 : level N Es d ≤ level N Es w :=
              (List.pairwise_cons.mp hs).1 d (by rw [hL]; simp)
            linarith
        intro d hd'
        rcases List.mem_cons.mp hd' with rfl | hd'
        · exact hw
        · exact hpre d hd'
    · refine ⟨[], w, L', rfl, ?_, not_lt.mp h, by simp⟩
      simp only [dropLoop, h, if_false]

/-- with a negative total power every channel is removed (the `IndexError` branch) -/
theorem dropLoop_neg (N Es P : α) (hP : P < 0) :
    ∀ L : List (Chan α), LevelSorted N Es L → dropLoop N Es P L = [] := by
  intro L
  induction L with
  | nil => intro _; rfl
  | cons w L' ih =>
    intro hs
    have h0 : 0 ≤ (excess N Es w (w :: L')).sum := by
      rw [excess_self_cons]
      exact excess_nonneg N Es w L' (fun x hx => (List.pairwise_cons.mp hs).1 x hx)
    have : P < (excess N Es w (w :: L')).sum := lt_of_lt_of_le hP h0
    simp only [dropLoop, this, if_true]
    exact ih (List.pairwise_cons.mp hs).2

/-! ### closed form of the returned value -/

theorem doWFWith_spec (asc : List (Chan α)) (n : Nat) (P N Es : α) (hP : 0 ≤ P)
    (hne : asc ≠ []) (hs : LevelSorted N Es asc) :
    ∃ pre w rest, asc = pre ++ w :: rest ∧
      doWFWith asc n P N Es
        = .ok (scatter n ((w :: rest).map (fun x => (x.2, muOf N Es P w rest - level N Es x))),
               muOf N Es P w rest) ∧
      (∀ x ∈ w :: rest, level N Es x ≤ muOf N Es P w rest) ∧
      (∀ d ∈ pre, muOf N Es P w rest < level N Es d) ∧
      ((w :: rest).map (fun x => muOf N Es P w rest - level N Es x)).sum = P ∧
      level N Es w ≤ muOf N Es P w rest := by
  obtain ⟨pre, w, rest, hL, hd, hle, hpre⟩ := dropLoop_spec N Es P hP asc hne hs
  have hk : (0 : α) < (((w :: rest).length : Nat) : α) := by
    simp only [List.length_cons]; exact_mod_cast Nat.succ_pos _
  have hD : 0 ≤ (P - (excess N Es w (w :: rest)).sum) / (((w :: rest).length : Nat) : α) :=
    div_nonneg (by linarith) hk.le
  have hkept : LevelSorted N Es (w :: rest) := by
    have := hs; rw [hL] at this
    exact (List.pairwise_append.mp this).2.1
  have hwmax : ∀ x ∈ w :: rest, level N Es x ≤ level N Es w := by
    intro x hx
    rcases List.mem_cons.mp hx with rfl | hx
    · exact le_refl _
    · exact (List.pairwise_cons.mp hkept).1 x hx
  have hfun : ∀ x : Chan α,
      (P - (excess N Es w (w :: rest)).sum) / (((w :: rest).length : Nat) : α)
        + (level N Es w - level N Es x) = muOf N Es P w rest - level N Es x := by
    intro x; unfold muOf; ring
  refine ⟨pre, w, rest, hL, ?_, ?_, hpre, ?_, ?_⟩
  · -- evaluate the definition
    obtain ⟨a, asc', rfl⟩ := List.exists_cons_of_ne_nil hne
    obtain ⟨best, hbest⟩ : ∃ b, (w :: rest).getLast? = some b :=
      ⟨_, List.getLast?_eq_some_getLast (l := w :: rest) (by simp)⟩
    simp only [doWFWith, hd, excess, List.getLast?_map, hbest, Option.map_some, List.map_map,
      List.zip_map']
    congr 2
    · congr 1
      apply List.map_congr_left
      intro x _
      simp only [Function.comp]
      have := hfun x
      simp only [excess] at this
      rw [Prod.mk.injEq]; exact ⟨rfl, this⟩
    · have := hfun best
      simp only [excess, level] at this ⊢
      simp only [Function.comp]
      unfold muOf
      simp only [excess, level]
      ring
  · intro x hx
    unfold muOf
    linarith [hwmax x hx]
  · have : (fun x : Chan α => muOf N Es P w rest - level N Es x)
        = (fun x => (P - (excess N Es w (w :: rest)).sum) / (((w :: rest).length : Nat) : α)
            + (level N Es w - level N Es x)) := by
      funext x; exact (hfun x).symm
    rw [this]
    have h2 := sum_map_const_add
      ((P - (excess N Es w (w :: rest)).sum) / (((w :: rest).length : Nat) : α))
      (excess N Es w (w :: rest))
    simp only [excess, List.map_map, List.length_map] at h2
    simp only [excess] at h2 ⊢
    refine h2.trans ?_
    rw [mul_div_cancel₀ _ hk.ne']
    ring
  · unfold muOf; linarith

end PyPhysim.C12
