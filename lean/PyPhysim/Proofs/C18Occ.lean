import PyPhysim.Proofs.C18Users

/-!
C18 — the cover-code (OCC) estimator: closed form of the cover-code average
and exactness / rejection through the plain estimator.
-/
set_option linter.unusedSectionVars false
namespace PyPhysim.C18P
open PyPhysim.Cazac PyPhysim.Proto Finset

variable {F : Type} [Field F] [CisOps F]

local notation "cis" => (CisOps.cis : ℚ → F)
local notation "conj" => (CisOps.conj : F → F)

theorem list_eq_map_range (l : List F) (n : ℕ) (hl : l.length = n) :
    l = (List.range n).map (fun i => l.getD i 0) := by
  apply List.ext_getElem
  · simp [hl]
  · intro i h1 h2
    simp [List.getD_eq_getElem?_getD, List.getElem?_eq_getElem h1]

theorem getD_rows_cons_succ (R : List F) (rest : List (List F)) (c : ℕ) :
    (R :: rest).getD (c + 1) [] = rest.getD c [] := by
  simp [List.getD_eq_getElem?_getD]

/-- closed form of the row-by-row accumulation of `sumRows` -/
theorem foldl_zipWith_add (rows : List (List F)) (n : ℕ) (hlen : ∀ row ∈ rows, row.length = n)
    (acc : List F) (hacc : acc.length = n) :
    rows.foldl (fun a row => List.zipWith (· + ·) a row) acc
      = (List.range n).map (fun i => acc.getD i 0 + ∑ c ∈ range rows.length, (rows.getD c []).getD i 0) := by
  induction rows generalizing acc with
  | nil =>
    simp only [List.foldl_nil, List.length_nil, Finset.range_zero, Finset.sum_empty, add_zero]
    exact list_eq_map_range acc n hacc
  | cons R rest ih =>
    have hR : R.length = n := hlen R (by simp)
    rw [List.foldl_cons, ih (fun row hrow => hlen row (by simp [hrow])) _ (by simp [hacc, hR])]
    apply map_range_congr
    intro i hi
    rw [zipWith_getD _ acc R i (by omega) (by omega), List.length_cons, Finset.sum_range_succ']
    simp only [getD_rows_cons_succ, List.getD_cons_zero]
    ring

theorem sumRows_closed (rows : List (List F)) (n : ℕ) (hlen : ∀ row ∈ rows, row.length = n) :
    sumRows n rows = (List.range n).map (fun i => ∑ c ∈ range rows.length, (rows.getD c []).getD i 0) := by
  unfold sumRows
  rw [foldl_zipWith_add rows n hlen _ (by simp)]
  apply map_range_congr
  intro i hi
  have : (List.replicate n (0 : F)).getD i 0 = 0 := by
    simp [List.getD_eq_getElem?_getD, List.getElem?_replicate, hi]
  rw [this, zero_add]

/-- closed form of `np.mean(r * cover_code[:, newaxis], axis=0)` -/
theorem occMean_closed (cc : List F) (Y : List (List F)) (n : ℕ) (hcc : cc ≠ [])
    (hY : Y.length = cc.length) (hrows : ∀ row ∈ Y, row.length = n) :
    occMean cc Y = .ok ((List.range n).map (fun i =>
      (∑ c ∈ range cc.length, (Y.getD c []).getD i 0 * cc.getD c 0) / ((cc.length : ℕ) : F))) := by
  unfold occMean
  match Y, hY, hrows with
  | [], hY, _ =>
    exfalso
    apply hcc
    exact List.length_eq_zero_iff.mp hY.symm
  | row0 :: rest, hY, hrows =>
    have h0 : row0.length = n := hrows row0 (by simp)
    have hany : (row0 :: rest).any (fun row => row.length != row0.length) = false := by
      rw [List.any_eq_false]
      intro row hrow
      simp [hrows row hrow, h0]
    simp only [hY, ne_eq, not_true_eq_false, if_false, hany, Bool.false_eq_true]
    congr 1
    rw [sumRows_closed _ row0.length (by
      intro row hrow
      rw [List.mem_iff_getElem] at hrow
      obtain ⟨c, hc, rfl⟩ := hrow
      simp only [List.getElem_zipWith, List.length_map]
      rw [h0]
      exact hrows _ (List.getElem_mem _)), h0, List.map_map]
    apply map_range_congr
    intro i hi
    simp only [Function.comp_def, List.length_zipWith, hY, Nat.min_self]
    congr 1
    apply Finset.sum_congr rfl
    intro c hc
    have hc' := Finset.mem_range.mp hc
    have hcY : c < (row0 :: rest).length := by rw [hY]; exact hc'
    have hin : i < ((row0 :: rest)[c]).length := by rw [hrows _ (List.getElem_mem _)]; exact hi
    simp [List.getD_eq_getElem?_getD, List.getElem?_zipWith, List.getElem?_eq_getElem hc',
      List.getElem?_eq_getElem hcY, List.getElem?_map, List.getElem?_eq_getElem hin]

/-- the stored 2-D user sequence (cover-code rows) -/
def rowsOf (x : List F) (cc : List F) (nrm : Bool) (nu : F) : List (List F) :=
  cc.map (fun c => (rowOf x nrm nu).map (fun v => v * c))

theorem ueSequence_cover (x cc : List F) (nrm : Bool) (nu : F) (hcc : cc ≠ []) :
    ueSequence x (some cc) nrm nu = .ok ⟨nrm, rowsOf x cc nrm nu, some cc⟩ := by
  cases nrm
  · simp [ueSequence, rowsOf, rowOf]
  · have : (cc.map (fun c => x.map (fun v => v * c))).isEmpty = false := by
      cases cc with
      | nil => exact absurd rfl hcc
      | cons a t => rfl
    simp only [ueSequence, this, rowsOf, rowOf, if_true, Bool.false_eq_true, if_false]
    congr 2
    simp only [List.map_map]
    apply List.map_congr_left
    intro c _
    simp only [Function.comp_def, List.map_map]
    apply List.map_congr_left
    intro v _
    ring

theorem rows_obs_getD (H xr cc : List F) (c : ℕ) (hc : c < cc.length) :
    ((cc.map (fun c => xr.map (fun v => v * c))).map (fun row => observe H 1 row)).getD c []
      = observe H 1 (xr.map (fun v => v * cc[c])) := by
  simp [List.getD_eq_getElem?_getD, List.getElem?_map, List.getElem?_eq_getElem hc]

section
variable (L : CisLaws F) [CharZero F]
include L

/-- With a cover code of `±1` entries the OCC estimator recovers the channel
    exactly (every slot observes the same channel). -/
theorem occ_estimate_exact (ph : List ℚ) (c0 : F) (cs : List F) (nrm : Bool) (nu : F) (h : List F) (K : ℕ)
    (hN : 0 < ph.length) (hcov : ∀ c ∈ c0 :: cs, c * c = 1)
    (hnu : nrm = true → conj nu = nu ∧ nu * nu = (ph.length : F))
    (hfit : h.length ≤ K + 1) (hlen : h.length ≤ ph.length) :
    estimateOcc1 ⟨nrm, rowsOf (seqValues ph : List F) (c0 :: cs) nrm nu, some (c0 :: cs)⟩
        ((rowsOf (seqValues ph : List F) (c0 :: cs) nrm nu).map (fun row => observe (fftPad h ph.length) 1 row)) K
      = .ok (fftPad h ph.length) := by
  set xr := rowOf (seqValues ph : List F) nrm nu with hxr
  have hxl : xr.length = ph.length := by rw [hxr, rowOf_length, seqValues_length]
  have hc0 : c0 * c0 = 1 := hcov c0 (by simp)
  -- reference sequence
  have href : occReference (⟨nrm, rowsOf (seqValues ph : List F) (c0 :: cs) nrm nu, some (c0 :: cs)⟩ : UeSeq F)
      = .ok (xr, c0 :: cs) := by
    simp only [occReference, rowsOf, List.map_cons]
    congr 2
    rw [List.map_map]
    conv_rhs => rw [← List.map_id xr]
    apply List.map_congr_left
    intro v _
    simp only [Function.comp_def, id]
    rw [mul_assoc, hc0, mul_one]
  -- cover-code average
  have hmean : occMean (c0 :: cs)
      ((rowsOf (seqValues ph : List F) (c0 :: cs) nrm nu).map (fun row => observe (fftPad h ph.length) 1 row))
      = .ok (observe (fftPad h ph.length) 1 xr) := by
    rw [occMean_closed (c0 :: cs) _ ph.length (by simp) (by simp [rowsOf])
      (by
        intro row hrow
        simp only [rowsOf, List.map_map, List.mem_map, Function.comp_def] at hrow
        obtain ⟨c, _, rfl⟩ := hrow
        rw [observe_length, List.length_map, hxl])]
    congr 1
    rw [show observe (fftPad h ph.length) 1 xr
        = (List.range ph.length).map (fun n => (fftPad h ph.length).getD (1 * n) 0 * xr.getD n 0) from by
      unfold observe; rw [hxl]]
    apply map_range_congr
    intro i hi
    have hNc : (((c0 :: cs).length : ℕ) : F) ≠ 0 := by
      have : 0 < (c0 :: cs).length := by simp
      exact_mod_cast (Nat.ne_of_gt this)
    have hterm : ∀ c ∈ range (c0 :: cs).length,
        (((rowsOf (seqValues ph : List F) (c0 :: cs) nrm nu).map
            (fun row => observe (fftPad h ph.length) 1 row)).getD c []).getD i 0 * (c0 :: cs).getD c 0
          = (fftPad h ph.length).getD (1 * i) 0 * xr.getD i 0 := by
      intro c hc
      have hc' := Finset.mem_range.mp hc
      have hcc : (c0 :: cs)[c] * (c0 :: cs)[c] = 1 := hcov _ (List.getElem_mem hc')
      have hrow : ((rowsOf (seqValues ph : List F) (c0 :: cs) nrm nu).map
          (fun row => observe (fftPad h ph.length) 1 row)).getD c []
          = observe (fftPad h ph.length) 1 (xr.map (fun v => v * (c0 :: cs)[c])) :=
        rows_obs_getD (fftPad h ph.length) xr (c0 :: cs) c hc'
      rw [hrow, observe_getD _ _ _ _ (by rw [List.length_map, hxl]; exact hi)]
      have h1 : (xr.map (fun v => v * (c0 :: cs)[c])).getD i 0 = xr.getD i 0 * (c0 :: cs)[c] := by
        simp [List.getD_eq_getElem?_getD, List.getElem?_map,
          List.getElem?_eq_getElem (show i < xr.length by rw [hxl]; exact hi)]
      have h2 : (c0 :: cs).getD c 0 = (c0 :: cs)[c] := by
        simp [List.getD_eq_getElem?_getD, List.getElem?_eq_getElem hc']
      rw [h1, h2, mul_assoc, mul_assoc, hcc, mul_one]
    rw [Finset.sum_congr rfl hterm, Finset.sum_const, Finset.card_range, nsmul_eq_mul]
    field_simp
  unfold estimateOcc1
  rw [href]
  simp only [hmean]
  have := ue_estimate_exact L ph nrm nu h 1 K (by omega) hN hnu hfit hlen
  simpa [one_mul, hxr] using this

end
end PyPhysim.C18P
