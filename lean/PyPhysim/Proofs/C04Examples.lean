import PyPhysim.Proofs.C04Filters

/-!
Concrete non-trivial values satisfying the hypotheses of the C04 theorems
(non-vacuity witnesses): a 2×1 channel `[1, j]ᵀ` with its pseudo-inverse, and a
2×1 channel `[2, 0]ᵀ` with its SVD and GMD factors.
-/
set_option linter.unusedSectionVars false
namespace PyPhysim.C04.Ex
open PyPhysim.C04 Matrix

/-- the channel `[1, j]ᵀ` -/
noncomputable def H : Mat ℂ 2 1 := fun i _ => if i.val = 0 then 1 else Complex.I
/-- its Moore–Penrose inverse `[1/2, −j/2]` -/
noncomputable def G : Mat ℂ 1 2 := fun _ j => if j.val = 0 then 1 / 2 else -Complex.I / 2

theorem pinv_contract : FullColRank H ∧ IsPinv H G := by
  have hGH : toM G * toM H = 1 := by
    ext i j
    fin_cases i; fin_cases j
    simp [Matrix.mul_apply, Fin.sum_univ_two, H, G]
    ring_nf
    simp
    norm_num
  have hHG : (toM H * toM G)ᴴ = toM H * toM G := by
    ext i j
    fin_cases i <;> fin_cases j <;>
      simp [Matrix.mul_apply, conjTranspose_apply, H, G] <;> ring
  refine ⟨?_, ⟨?_, ?_, ?_, ?_⟩⟩
  · unfold FullColRank
    refine ⟨⟨(toM H)ᴴ * toM H, (1/2 : ℂ) • 1, ?_, ?_⟩, rfl⟩ <;>
    · ext i j
      fin_cases i; fin_cases j
      simp [Matrix.mul_apply, Fin.sum_univ_two, conjTranspose_apply, H]
      norm_num
  · c04_matrix; rw [Matrix.mul_assoc, hGH, Matrix.mul_one]
  · c04_matrix; rw [hGH, Matrix.one_mul]
  · c04_matrix; exact hHG
  · c04_matrix; rw [hGH, conjTranspose_one]

/-- the channel `[2, 0]ᵀ` -/
def H2 : Mat ℂ 2 1 := fun i _ => if i.val = 0 then 2 else 0
/-- thin left singular vectors / singular value / right singular vectors of `H2` -/
def U2 : Mat ℂ 2 1 := fun i _ => if i.val = 0 then 1 else 0
def S2 : Vec ℂ 1 := fun _ => 2
def VH2 : Mat ℂ 1 1 := fun _ _ => 1
/-- GMD factors of `H2`: `Q = 1`, `R = H2`, `P = 1` -/
def Q2 : Mat ℂ 2 2 := fun i j => if i = j then 1 else 0
def P2 : Mat ℂ 1 1 := fun _ _ => 1

theorem H2_fullColRank : FullColRank H2 := by
  unfold FullColRank
  refine ⟨⟨(toM H2)ᴴ * toM H2, (1/4 : ℂ) • 1, ?_, ?_⟩, rfl⟩ <;>
  · ext i j
    fin_cases i; fin_cases j
    simp [Matrix.mul_apply, conjTranspose_apply, H2]
    have h2 : (starRingEnd ℂ) 2 = 2 := map_ofNat _ 2
    rw [h2]
    norm_num

theorem svd_contract :
    matMul (matMul U2 (diagM S2)) VH2 = H2 ∧ matMul (cT U2) U2 = eye ∧ matMul VH2 (cT VH2) = eye := by
  refine ⟨?_, ?_, ?_⟩
  · funext i j
    fin_cases i <;> fin_cases j <;> simp [matMul, sumFin, diagM, U2, S2, VH2, H2]
  · funext i j
    fin_cases i; fin_cases j
    simp [matMul, sumFin, cT, conj_def, U2, eye]
  · funext i j
    fin_cases i; fin_cases j
    simp [matMul, sumFin, cT, conj_def, VH2, eye]

theorem gmd_contract :
    matMul (matMul Q2 H2) (cT P2) = H2 ∧ matMul (cT P2) P2 = eye := by
  refine ⟨?_, ?_⟩
  · funext i j
    fin_cases i <;> fin_cases j <;> simp [matMul, sumFin, cT, conj_def, Q2, P2, H2]
  · funext i j
    fin_cases i; fin_cases j
    simp [matMul, sumFin, cT, conj_def, P2, eye]

end PyPhysim.C04.Ex
