import PyPhysim.Proofs.C19Trig
import PyPhysim.Model.C19Spec
import Mathlib.Tactic.Positivity

set_option linter.unusedSectionVars false
set_option linter.unusedTactic false
set_option linter.unreachableTactic false

/-! C19 — the hexagon of `Hexagon._get_vertex_positions` and the ring layout of
`Cluster._calc_cell_positions_hexagon`, exactly, over ℝ. -/
namespace PyPhysim.C19
open Real

theorem cisDeg_mul60 (k : ℕ) : (Circ.cisDeg (((60 * k : ℕ)) : ℝ) : Pt ℝ) = E (2 * k) := by
  rw [← cisDeg_mul30]
  congr 2
  ring

theorem sq3 : Real.sqrt 3 ^ 2 = 3 := Real.sq_sqrt (by norm_num)
theorem sqrt3_pos : 0 < Real.sqrt 3 := Real.sqrt_pos.mpr (by norm_num)

/-- the regular hexagon with circumradius `R`, first vertex at `-120°` -/
noncomputable def hexExplicit (R : ℝ) : List (Pt ℝ) :=
  [(-(R / 2), -(R * Real.sqrt 3 / 2)), (R / 2, -(R * Real.sqrt 3 / 2)), (R, 0),
   (R / 2, R * Real.sqrt 3 / 2), (-(R / 2), R * Real.sqrt 3 / 2), (-R, 0)]

theorem hexVerts_eq (R : ℝ) : hexVerts R = hexExplicit R := by
  simp only [hexVerts, hexStep, cisDeg_mul60, E_eq, hexHeight, hexExplicit, Circ.sqrt]
  simp only [e30, emb, padd, smul, Nat.cast_ofNat]
  simp only [List.cons.injEq, Prod.mk.injEq, and_true]
  norm_num
  refine ⟨?_, ?_, ?_, ?_, ?_⟩ <;> (try constructor) <;> ring

/-- the vertices are `R·exp(j(-120° + 60°k))` -/
theorem hexExplicit_eq (R : ℝ) :
    hexExplicit R = [smul R (E 8), smul R (E 10), smul R (E 0), smul R (E 2), smul R (E 4), smul R (E 6)] := by
  simp only [E_eq, e30, emb, smul, hexExplicit]
  simp only [List.cons.injEq, Prod.mk.injEq, and_true]
  norm_num
  constructor <;> ring

theorem hex_norm2 (R : ℝ) : ∀ v ∈ hexExplicit R, norm2 v = R * R := by
  intro v hv
  simp only [hexExplicit, List.mem_cons, List.not_mem_nil, or_false] at hv
  rcases hv with rfl | rfl | rfl | rfl | rfl | rfl <;> simp only [norm2] <;>
    first | ring1 | linear_combination (R * R / 4) * s3

theorem hex_cyc (R : ℝ) : ∀ e ∈ cyc (hexExplicit R),
    dist2 e.1 e.2 = R * R ∧ cross e.1 e.2 = R * R * (Real.sqrt 3 / 2) := by
  intro e he
  simp only [hexExplicit, cyc, List.cons_append, List.nil_append, adjPairs, List.mem_cons, List.not_mem_nil,
    or_false] at he
  rcases he with rfl | rfl | rfl | rfl | rfl | rfl <;> simp only [dist2, norm2, psub, cross] <;>
    constructor <;> first | ring1 | linear_combination (R * R / 4) * s3

theorem hex_star (R : ℝ) (hR : 0 < R) : StarCCW (hexVerts R) := by
  rw [hexVerts_eq]
  intro e he
  rw [(hex_cyc R e he).2]
  simp only [Nat.cast_zero]
  have := sqrt3_pos
  positivity

/-- the apothem: every vertex is within `height` of the centre in the three edge-normal directions -/
theorem hex_support (R : ℝ) (hR : 0 ≤ R) (k : ℕ) : ∀ v ∈ hexExplicit R,
    dot (E (2 * k + 1)) v ≤ R * Real.sqrt 3 / 2 ∧ -(R * Real.sqrt 3 / 2) ≤ dot (E (2 * k + 1)) v := by
  intro v hv
  have h3 := sqrt3_pos
  have hq := s3
  have hr : 0 ≤ R * Real.sqrt 3 := by positivity
  -- reduce k modulo 6
  obtain ⟨m, r, hr6, rfl⟩ : ∃ m r, r < 6 ∧ k = 6 * m + r := ⟨k / 6, k % 6, Nat.mod_lt _ (by norm_num), by omega⟩
  have hper : ∀ m r : ℕ, E (2 * (6 * m + r) + 1) = E (2 * r + 1) := by
    intro m
    induction m with
    | zero => intro r; simp
    | succ n ih =>
      intro r
      have : 2 * (6 * (n + 1) + r) + 1 = (2 * (6 * n + r) + 1) + 12 := by ring
      rw [this, E_period, ih]
  rw [hper]
  simp only [hexExplicit, List.mem_cons, List.not_mem_nil, or_false] at hv
  rcases hv with rfl | rfl | rfl | rfl | rfl | rfl <;> interval_cases r <;>
    norm_num [E_eq, e30, emb, dot] <;> (try constructor) <;> nlinarith [hq, hr, h3, hR]

/-! ### ring layout -/

/-- hexagonal lattice coordinates of the nineteen normalised cell centres, in units of
    (half a radius, one apothem) -/
def lat : ℕ → ℤ × ℤ
  | 0 => (0, 0)
  | 1 => (3, 1) | 2 => (0, 2) | 3 => (-3, 1) | 4 => (-3, -1) | 5 => (0, -2) | 6 => (3, -1)
  | 7 => (6, 0) | 8 => (6, 2) | 9 => (3, 3) | 10 => (0, 4) | 11 => (-3, 3) | 12 => (-6, 2)
  | 13 => (-6, 0) | 14 => (-6, -2) | 15 => (-3, -3) | 16 => (0, -4) | 17 => (3, -3) | 18 => (6, -2)
  | _ => (0, 0)

noncomputable def latPt (p : ℤ × ℤ) : Pt ℝ := ((p.1 : ℝ) / 2, (p.2 : ℝ) * (Real.sqrt 3 / 2))

theorem rectDeg_30 (d : ℝ) (k : ℕ) : rectDeg d (30 * k) = smul d (emb (e30 k)) := by
  simp only [rectDeg, cisDeg_mul30, E_eq]

theorem hexNorm_ring1 (i : ℕ) (h1 : 1 ≤ i) (h2 : i < 7) : hexNorm (α := ℝ) i = latPt (lat i) := by
  have e : 30 + 60 * (i - 1) = 30 * (2 * i - 1) := by omega
  have : hexNorm (α := ℝ) i = smul (((2:ℕ):ℝ) * hexHeight ((1:ℕ):ℝ)) (emb (e30 (2 * i - 1))) := by
    simp only [hexNorm, if_neg (show ¬ i = 0 by omega), if_pos h2, e, rectDeg_30]
  rw [this]
  interval_cases i <;> norm_num [e30, lat, latPt, emb, smul, hexHeight, Circ.sqrt] <;>
    (try constructor) <;> ring_nf <;> (try rw [sq3]) <;> (try ring1)

theorem hexNorm_ring2 (i : ℕ) (h1 : 7 ≤ i) (h2 : i < 19) : hexNorm (α := ℝ) i = latPt (lat i) := by
  have : hexNorm (α := ℝ) i = smul (if (i - 7) % 2 = 0 then ((3 : ℕ) : ℝ) * ((1 : ℕ) : ℝ)
      else ((4 : ℕ) : ℝ) * hexHeight ((1:ℕ):ℝ)) (emb (e30 (i - 7))) := by
    simp only [hexNorm, if_neg (show ¬ i = 0 by omega), if_neg (show ¬ i < 7 by omega), if_pos h2, rectDeg_30]
  rw [this]
  interval_cases i <;> norm_num [e30, lat, latPt, emb, smul, hexHeight, Circ.sqrt] <;>
    (try constructor) <;> ring_nf <;> (try rw [sq3]) <;> (try ring1)

/-- the normalised position of every cell is a point of the hexagonal lattice -/
theorem hexNorm_eq (i : ℕ) : hexNorm (α := ℝ) i = latPt (lat i) := by
  rcases Nat.eq_zero_or_pos i with rfl | hpos
  · simp [hexNorm, lat, latPt]
  · by_cases h7 : i < 7
    · exact hexNorm_ring1 i hpos h7
    · by_cases h19 : i < 19
      · exact hexNorm_ring2 i (by omega) h19
      · have h1 : ¬ i = 0 := by omega
        have : lat i = (0, 0) := by
          unfold lat
          split <;> first | rfl | omega
        simp [hexNorm, h1, h7, h19, this, latPt]

/-- squared lattice distance in units of `radius²/4` -/
def latD (p q : ℤ × ℤ) : ℤ := (p.1 - q.1) * (p.1 - q.1) + 3 * ((p.2 - q.2) * (p.2 - q.2))

theorem dist2_lat (R : ℝ) (p q : ℤ × ℤ) :
    dist2 (smul R (latPt p)) (smul R (latPt q)) = R * R / 4 * (latD p q : ℝ) := by
  simp only [dist2, norm2, psub, smul, latPt, latD]
  push_cast
  linear_combination (R * R * ((p.2 : ℝ) - q.2) * ((p.2 : ℝ) - q.2) / 4) * s3

end PyPhysim.C19
