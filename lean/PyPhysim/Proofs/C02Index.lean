import PyPhysim.Proofs.C02List

/-!
C02 — the parameter guard and the subcarrier index map.  Core Lean only.
-/
namespace PyPhysim.C02
open PyPhysim.Proto

/-! ### `set_parameters` -/

/-- the guard on Python ints -/
def ValidInt (fft cp u : Int) : Prop := 0 ≤ cp ∧ cp ≤ fft ∧ u ≤ fft ∧ u % 2 = 0 ∧ 2 ≤ u

theorem setParameters_ok (fft cp : Int) (used : Option Int)
    (h : ValidInt fft cp (used.getD fft)) :
    setParameters fft cp used = .ok ⟨fft.toNat, cp.toNat, (used.getD fft).toNat⟩ := by
  obtain ⟨h1, h2, h3, h4, h5⟩ := h
  unfold setParameters
  cases used with
  | none =>
    simp only [Option.getD_none] at *
    rw [if_neg (by omega)]
    rw [if_neg (by omega), if_neg (by omega)]
  | some u =>
    simp only [Option.getD_some] at *
    rw [if_neg (by omega)]
    rw [if_neg (by omega), if_neg (by omega)]

theorem setParameters_error (fft cp : Int) (used : Option Int)
    (h : ¬ ValidInt fft cp (used.getD fft)) :
    setParameters fft cp used = .error .ValueError := by
  unfold ValidInt at h
  unfold setParameters
  cases used with
  | none =>
    simp only [Option.getD_none] at *
    by_cases h1 : cp < 0 ∨ cp > fft
    · rw [if_pos h1]
    · rw [if_neg h1]
      by_cases h2 : fft > fft
      · rw [if_pos h2]
      · rw [if_neg h2]
        rw [if_pos (by omega)]
  | some u =>
    simp only [Option.getD_some] at *
    by_cases h1 : cp < 0 ∨ cp > fft
    · rw [if_pos h1]
    · rw [if_neg h1]
      by_cases h2 : u > fft
      · rw [if_pos h2]
      · rw [if_neg h2]
        rw [if_pos (by omega)]

/-- whatever `set_parameters` accepts is a valid configuration -/
theorem setParameters_valid (fft cp : Int) (used : Option Int) (p : Params)
    (h : setParameters fft cp used = .ok p) : p.Valid := by
  by_cases hv : ValidInt fft cp (used.getD fft)
  · rw [setParameters_ok _ _ _ hv] at h
    cases h
    obtain ⟨h1, h2, h3, h4, h5⟩ := hv
    unfold Params.Valid
    simp only
    refine ⟨by omega, by omega, by omega, by omega⟩
  · rw [setParameters_error _ _ _ hv] at h
    cases h

/-- every valid configuration is accepted (and stored unchanged) -/
theorem setParameters_of_valid (p : Params) (h : p.Valid) :
    setParameters p.fft p.cp (some p.used) = .ok p := by
  obtain ⟨h1, h2, h3, h4⟩ := h
  rw [setParameters_ok]
  · simp
  · unfold ValidInt
    simp only [Option.getD_some]
    omega

theorem step_valid (s : Params) (hs : s.Valid) (op : Int × Int × Option Int) : (step s op).1.Valid := by
  unfold step
  cases h : setParameters op.1 op.2.1 op.2.2 with
  | error e => exact hs
  | ok p => exact setParameters_valid _ _ _ _ h

theorem run_valid (s : Params) (hs : s.Valid) (ops : List (Int × Int × Option Int)) : (run s ops).Valid := by
  induction ops generalizing s with
  | nil => exact hs
  | cons op ops ih => exact ih _ (step_valid s hs op)

/-- a rejected call leaves the object unchanged; an accepted one stores exactly its arguments -/
theorem step_spec (s : Params) (op : Int × Int × Option Int) :
    (ValidInt op.1 op.2.1 (op.2.2.getD op.1) ∧
      step s op = (⟨op.1.toNat, op.2.1.toNat, (op.2.2.getD op.1).toNat⟩, none)) ∨
    (¬ ValidInt op.1 op.2.1 (op.2.2.getD op.1) ∧ step s op = (s, some .ValueError)) := by
  by_cases hv : ValidInt op.1 op.2.1 (op.2.2.getD op.1)
  · left; refine ⟨hv, ?_⟩; unfold step; rw [setParameters_ok _ _ _ hv]
  · right; refine ⟨hv, ?_⟩; unfold step; rw [setParameters_error _ _ _ hv]

/-! ### zero padding -/

theorem ceilDiv_mul_ge (n d : Nat) (hd : 0 < d) : n ≤ d * ceilDiv n d := by
  unfold ceilDiv
  have h1 := Nat.div_add_mod (n + d - 1) d
  have h2 := Nat.mod_lt (n + d - 1) hd
  have : d * ((n + d - 1) / d) = (n + d - 1) - (n + d - 1) % d := by omega
  omega

theorem ceilDiv_mul_lt (n d : Nat) (hd : 0 < d) : d * ceilDiv n d < n + d := by
  unfold ceilDiv
  have h1 := Nat.div_add_mod (n + d - 1) d
  omega

/-- the padded length is the least multiple of `used` that holds `n` symbols -/
theorem zeropad_spec (p : Params) (hp : p.Valid) (n : Nat) :
    n + zeropad p n = p.used * numSymbols p n ∧ zeropad p n < p.used := by
  obtain ⟨_, _, _, h2⟩ := hp
  have hd : 0 < p.used := by omega
  have h1 := ceilDiv_mul_ge n p.used hd
  have h3 := ceilDiv_mul_lt n p.used hd
  unfold zeropad numSymbols
  omega

/-! ### the index map -/

theorem usedIdx_length (fft used : Nat) (h : used % 2 = 0) : (usedIdx fft used).length = used := by
  simp [usedIdx]; omega

theorem mem_usedIdx (fft used j : Nat) :
    j ∈ usedIdx fft used ↔
      (fft - used / 2 ≤ j ∧ j < fft - used / 2 + used / 2) ∨
      ((if used = fft then 0 else 1) ≤ j ∧ j < (if used = fft then 0 else 1) + used / 2) := by
  simp [usedIdx, List.mem_range'_1]

/-- every used index is a valid position of an FFT row -/
theorem usedIdx_lt (p : Params) (hp : p.Valid) : ∀ i ∈ usedIdx p.fft p.used, i < p.fft := by
  obtain ⟨_, h2, h3, h4⟩ := hp
  intro i hi
  rw [mem_usedIdx] at hi
  split at hi <;> omega

/-- the used indexes are pairwise distinct -/
theorem usedIdx_nodup (p : Params) (hp : p.Valid) : (usedIdx p.fft p.used).Nodup := by
  obtain ⟨_, h2, h3, h4⟩ := hp
  unfold usedIdx
  rw [List.nodup_append]
  refine ⟨List.nodup_range' 1, List.nodup_range' 1, ?_⟩
  intro a ha b hb
  rw [List.mem_range'_1] at ha hb
  split at hb <;> omega

/-- with fewer used subcarriers than the FFT size, exactly DC and the outer band are unused:
    `j` is used iff its signed subcarrier number is in `{-h,…,-1} ∪ {1,…,h}`, `h = used/2` -/
theorem mem_usedIdx_of_lt (p : Params) (hp : p.Valid) (hlt : p.used < p.fft) (j : Nat) :
    j ∈ usedIdx p.fft p.used ↔ (1 ≤ j ∧ j ≤ p.used / 2) ∨ (p.fft - p.used / 2 ≤ j ∧ j < p.fft) := by
  obtain ⟨_, h2, h3, h4⟩ := hp
  rw [mem_usedIdx, if_neg (by omega)]
  omega

/-- … in particular DC is never used -/
theorem zero_not_mem_usedIdx (p : Params) (hp : p.Valid) (hlt : p.used < p.fft) :
    0 ∉ usedIdx p.fft p.used := by
  rw [mem_usedIdx_of_lt p hp hlt]
  obtain ⟨_, h2, h3, h4⟩ := hp
  omega

/-- with all subcarriers used the index map is a permutation of all positions -/
theorem mem_usedIdx_of_eq (p : Params) (hp : p.Valid) (heq : p.used = p.fft) (j : Nat) :
    j ∈ usedIdx p.fft p.used ↔ j < p.fft := by
  obtain ⟨_, h2, h3, h4⟩ := hp
  rw [mem_usedIdx, if_pos heq]
  omega

end PyPhysim.C02
