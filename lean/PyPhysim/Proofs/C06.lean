import Mathlib.Tactic.Ring
import PyPhysim.Model.C06

/-! Helper lemmas for C06, Result level: `update` is an action that commutes
with `merge`; merge is associative; merge trees. -/
namespace PyPhysim.C06M
open PyPhysim.Proto

/-- same constructor arguments (name, type, accumulate flag, number of choices) -/
structure Compat (a b : Res) : Prop where
  name : a.name = b.name
  ty : a.ty = b.ty
  acc : a.acc = b.acc
  len : a.counts.length = b.counts.length

/-- only CHOICE results carry an array -/
def Shaped (r : Res) : Prop := r.ty ≠ .choice → r.counts = []

theorem Compat.refl (a : Res) : Compat a a := ⟨rfl, rfl, rfl, rfl⟩
theorem Compat.symm {a b : Res} (h : Compat a b) : Compat b a :=
  ⟨h.name.symm, h.ty.symm, h.acc.symm, h.len.symm⟩
theorem Compat.trans {a b c : Res} (h : Compat a b) (h' : Compat b c) : Compat a c :=
  ⟨h.name.trans h'.name, h.ty.trans h'.ty, h.acc.trans h'.acc, h.len.trans h'.len⟩

/-- what `Result.merge` really asserts: same name and type, equal array lengths, and the
    merged-in object accumulates values whenever `self` does -/
structure CompatL (a b : Res) : Prop where
  name : a.name = b.name
  ty : a.ty = b.ty
  acc : a.acc = true → b.acc = true
  len : a.counts.length = b.counts.length

theorem Compat.toL {a b : Res} (h : Compat a b) : CompatL a b :=
  ⟨h.name, h.ty, fun e => by rw [← h.acc]; exact e, h.len⟩

/-! ### list lemmas -/

theorem incr_length (l : List Nat) (i : Nat) : (incr l i).length = l.length := by
  induction l generalizing i with
  | nil => rfl
  | cons x xs ih => cases i <;> simp [incr, ih]

theorem incr_zipWith (a b : List Nat) (i : Nat) :
    incr (List.zipWith (· + ·) a b) i = List.zipWith (· + ·) a (incr b i) := by
  induction a generalizing b i with
  | nil => simp [incr]
  | cons x xs ih =>
    cases b with
    | nil => simp [incr]
    | cons y ys =>
      cases i with
      | zero => simp [incr]; omega
      | succ i => simp [incr, ih]

theorem zipWith_add_zeros (l : List Nat) :
    List.zipWith (· + ·) l (List.replicate l.length 0) = l := by
  induction l with
  | nil => rfl
  | cons x xs ih => simp [List.replicate_succ, ih]

theorem zipWith_add_assoc (a b c : List Nat) :
    List.zipWith (· + ·) (List.zipWith (· + ·) a b) c
      = List.zipWith (· + ·) a (List.zipWith (· + ·) b c) := by
  induction a generalizing b c with
  | nil => simp
  | cons x xs ih =>
    cases b with
    | nil => simp
    | cons y ys =>
      cases c with
      | nil => simp
      | cons z zs => simp [ih, Nat.add_assoc]

/-! ### `update` keeps the constructor arguments -/

theorem update_name (r : Res) (o : Obs) : (update r o).1.name = r.name := by
  unfold update; cases r.ty <;> simp only [] <;> repeat' split
  all_goals rfl

theorem update_ty (r : Res) (o : Obs) : (update r o).1.ty = r.ty := by
  unfold update; cases hty : r.ty <;> simp only [] <;> repeat' split
  all_goals first | rfl | exact hty

theorem update_acc (r : Res) (o : Obs) : (update r o).1.acc = r.acc := by
  unfold update; cases r.ty <;> simp only [] <;> repeat' split
  all_goals rfl

theorem update_counts_length (r : Res) (o : Obs) :
    (update r o).1.counts.length = r.counts.length := by
  unfold update; cases r.ty <;> simp only [] <;> repeat' split
  all_goals first | rfl | simp [incr_length]

/-- **a rejected `update` changes nothing** -/
theorem update_err_unchanged (r : Res) (o : Obs) (h : (update r o).2 ≠ none) : (update r o).1 = r := by
  unfold update at h ⊢
  cases hty : r.ty <;> simp only [hty] at h ⊢
  · exact absurd rfl h
  · cases hot : o.t with
    | none => rfl
    | some t =>
      by_cases h0 : t = 0
      · simp [h0]
      · simp [hot, h0] at h
  · exact absurd rfl h
  · by_cases hd : o.v.den = 1
    · cases hi : pyIndex r.counts.length o.v.num with
      | none => simp [hd]
      | some i => simp [hd, hi] at h
    · simp [hd]

theorem update_counts_of_ne_choice (r : Res) (o : Obs) (h : r.ty ≠ .choice) :
    (update r o).1.counts = r.counts := by
  unfold update
  cases hty : r.ty <;> simp only [] <;> repeat' split
  all_goals first | rfl | exact absurd hty h

theorem compatL_update {a b : Res} (o : Obs) (h : CompatL a b) : CompatL a (update b o).1 :=
  ⟨by rw [update_name]; exact h.name, by rw [update_ty]; exact h.ty,
   by rw [update_acc]; exact h.acc, by rw [update_counts_length]; exact h.len⟩

theorem compat_update {a b : Res} (o : Obs) (h : Compat a b) : Compat a (update b o).1 :=
  ⟨by rw [update_name]; exact h.name, by rw [update_ty]; exact h.ty,
   by rw [update_acc]; exact h.acc, by rw [update_counts_length]; exact h.len⟩

theorem shaped_update {r : Res} (o : Obs) (h : Shaped r) : Shaped (update r o).1 := by
  intro hne
  rw [update_ty] at hne
  rw [update_counts_of_ne_choice r o hne]
  exact h hne

theorem foldUpd_nil (r : Res) : foldUpd r [] = r := rfl
theorem foldUpd_cons (r : Res) (o : Obs) (xs : List Obs) :
    foldUpd r (o :: xs) = foldUpd (update r o).1 xs := rfl
theorem foldUpd_append (r : Res) (xs ys : List Obs) :
    foldUpd r (xs ++ ys) = foldUpd (foldUpd r xs) ys := by
  simp [foldUpd, List.foldl_append]

theorem compat_foldUpd {a b : Res} (xs : List Obs) (h : Compat a b) : Compat a (foldUpd b xs) := by
  induction xs generalizing b with
  | nil => exact h
  | cons o xs ih => exact ih (compat_update o h)

theorem shaped_foldUpd {r : Res} (xs : List Obs) (h : Shaped r) : Shaped (foldUpd r xs) := by
  induction xs generalizing r with
  | nil => exact h
  | cons o xs ih => exact ih (shaped_update o h)

/-! ### `fresh` -/

theorem shaped_fresh (nm : String) (ty : Ty) (acc : Bool) (k : Nat) : Shaped (fresh nm ty acc k) := by
  intro h; simp only [fresh] at h ⊢; simp [h]

theorem mkRes_eq_fresh (nm : String) (ty : Ty) (acc : Bool) (k : Nat) :
    mkRes nm ty acc (some k) = .ok (fresh nm ty acc k) := by
  cases ty <;> simp [mkRes, fresh]

theorem mkRes_none_eq_fresh (nm : String) (ty : Ty) (acc : Bool) (h : ty ≠ .choice) :
    mkRes nm ty acc none = .ok (fresh nm ty acc 0) := by
  cases ty <;> simp_all [mkRes, fresh]

theorem fresh_counts_length_choice (nm : String) (acc : Bool) (k : Nat) :
    (fresh nm .choice acc k).counts.length = k := by simp [fresh]

/-- a fresh object built from the constructor arguments of `a` is `fresh` again -/
theorem fresh_of_compat {nm : String} {ty : Ty} {acc : Bool} {k : Nat} {a : Res}
    (h : Compat (fresh nm ty acc k) a) : fresh a.name a.ty a.acc a.counts.length = fresh nm ty acc k := by
  obtain ⟨hn, ht, ha, hl⟩ := h
  simp only [fresh] at hn ht ha hl
  subst hn ht ha
  by_cases hc : a.ty = .choice
  · simp only [hc, if_true, List.length_replicate] at hl
    simp [fresh, hc, hl]
  · simp [fresh, hc]

/-! ### merge -/

theorem merge_okL {a b : Res} (h : CompatL a b) : merge a b = (mergeCore a b, none) := by
  have hg : mergeGuard a b = none := by
    have := h.acc
    have hl := h.len
    cases ha : a.acc <;> simp_all [mergeGuard, h.ty, h.name]
  unfold merge mergeCore
  rw [hg]
  cases hty : a.ty <;> simp [addCounts, h.len]

theorem merge_ok {a b : Res} (h : Compat a b) : merge a b = (mergeCore a b, none) := merge_okL h.toL

theorem mergeM_ok {a b : Res} (h : Compat a b) : mergeM a b = .ok (mergeCore a b) := by
  simp [mergeM, merge_ok h]

theorem mergeCore_name (a b : Res) : (mergeCore a b).name = a.name := by
  unfold mergeCore extendLists; cases a.ty <;> simp only [] <;> split <;> rfl
theorem mergeCore_ty (a b : Res) : (mergeCore a b).ty = a.ty := by
  unfold mergeCore extendLists; cases hty : a.ty <;> simp only [] <;> split <;> simp [hty]
theorem mergeCore_acc (a b : Res) : (mergeCore a b).acc = a.acc := by
  unfold mergeCore extendLists; cases a.ty <;> simp only [] <;> split <;> rfl

theorem compat_mergeCore {a b : Res} (h : Compat a b) : Compat a (mergeCore a b) := by
  refine ⟨(mergeCore_name a b).symm, (mergeCore_ty a b).symm, (mergeCore_acc a b).symm, ?_⟩
  unfold mergeCore extendLists
  cases a.ty <;> simp [h.len]

theorem shaped_mergeCore {a b : Res} (ha : Shaped a) (hb : Shaped b) (h : Compat a b) :
    Shaped (mergeCore a b) := by
  intro hne
  rw [mergeCore_ty] at hne
  have h1 := ha hne
  have h2 := hb (by rw [← h.ty]; exact hne)
  unfold mergeCore extendLists
  cases a.ty <;> simp [h1, h2]

/-- the heart of the property: updating the merged object = merging the updated operand -/
theorem update_mergeCore {a b : Res} (o : Obs) (hm : a.ty ≠ .misc) (h : CompatL a b) :
    (update (mergeCore a b) o).1 = mergeCore a (update b o).1 := by
  obtain ⟨hn, ht, ha, hl⟩ := h
  cases hty : a.ty
  · -- sum
    have hb : b.ty = .sum := by rw [← ht, hty]
    cases hacc : a.acc
    · simp [update, mergeCore, extendLists, hty, hb, hacc, Rat.add_assoc, Nat.add_assoc]
    · simp [update, mergeCore, extendLists, hty, hb, hacc, ha hacc, Rat.add_assoc, Nat.add_assoc]
  · -- ratio
    have hb : b.ty = .ratio := by rw [← ht, hty]
    cases hot : o.t with
    | none =>
      cases hacc : a.acc <;> simp [update, mergeCore, extendLists, hty, hb, hot, hacc, Nat.add_assoc]
    | some t =>
      by_cases h0 : t = 0
      · cases hacc : a.acc <;>
          simp [update, mergeCore, extendLists, hty, hb, hot, h0, hacc, Rat.add_assoc, Nat.add_assoc]
      · cases hacc : a.acc
        · simp [update, mergeCore, extendLists, hty, hb, hot, h0, hacc, Rat.add_assoc, Nat.add_assoc]
        · simp [update, mergeCore, extendLists, hty, hb, hot, h0, hacc, ha hacc, Rat.add_assoc,
            Nat.add_assoc]
  · exact absurd hty hm
  · -- choice
    have hb : b.ty = .choice := by rw [← ht, hty]
    have hlen : (mergeCore a b).counts.length = b.counts.length := by
      simp [mergeCore, extendLists, hty, hl]
    have hty' : (mergeCore a b).ty = .choice := by rw [mergeCore_ty, hty]
    by_cases hd : o.v.den = 1
    · cases hi : pyIndex b.counts.length o.v.num with
      | none =>
        cases hacc : a.acc <;>
          simp [update, hty', hb, hd, hlen, hi] <;>
          simp [mergeCore, extendLists, hty, hacc, Nat.add_assoc]
      | some i =>
        cases hacc : a.acc
        · simp [update, hty', hb, hd, hlen, hi]
          simp [mergeCore, extendLists, hty, hacc, Nat.add_assoc, Rat.add_assoc, incr_zipWith]
        · simp [update, hty', hb, hd, hlen, hi]
          simp [mergeCore, extendLists, hty, hacc, ha hacc, Nat.add_assoc, Rat.add_assoc, incr_zipWith]
    · cases hacc : a.acc <;>
        simp [update, hty', hb, hd] <;>
        simp [mergeCore, extendLists, hty, hacc, Nat.add_assoc]

/-- merging with a never-updated object of the same constructor arguments changes nothing
    (SUM, RATIO, CHOICE) -/
theorem mergeCore_fresh {a : Res} (hm : a.ty ≠ .misc) (hs : Shaped a) :
    mergeCore a (fresh a.name a.ty a.acc a.counts.length) = a := by
  obtain ⟨name, ty, value, counts, total, rsum, rsq, n, acc, vlist, tlist⟩ := a
  simp only [Shaped] at hs
  simp only [] at hm
  cases ty
  · have := hs (by decide); subst this
    cases acc <;> simp [mergeCore, extendLists, fresh]
  · have := hs (by decide); subst this
    cases acc <;> simp [mergeCore, extendLists, fresh]
  · exact absurd rfl hm
  · cases acc <;> simp [mergeCore, extendLists, fresh, zipWith_add_zeros]

theorem mergeCore_foldUpd {a b : Res} (ys : List Obs) (hm : a.ty ≠ .misc) (h : CompatL a b) :
    mergeCore a (foldUpd b ys) = foldUpd (mergeCore a b) ys := by
  induction ys generalizing b with
  | nil => rfl
  | cons o ys ih =>
    rw [foldUpd_cons, foldUpd_cons, ih (compatL_update o h), update_mergeCore o hm h]

/-- **monoid homomorphism**: accumulating `xs ++ ys` into a new object = accumulating `xs`
    and `ys` into two new objects and merging (all attributes) -/
theorem foldUpd_append_fresh (nm : String) (ty : Ty) (acc : Bool) (k : Nat) (hm : ty ≠ .misc)
    (xs ys : List Obs) :
    foldUpd (fresh nm ty acc k) (xs ++ ys)
      = mergeCore (foldUpd (fresh nm ty acc k) xs) (foldUpd (fresh nm ty acc k) ys) := by
  have hc : Compat (fresh nm ty acc k) (foldUpd (fresh nm ty acc k) xs) :=
    compat_foldUpd xs (Compat.refl _)
  have hty : (foldUpd (fresh nm ty acc k) xs).ty ≠ .misc := by
    rw [← hc.ty]; simpa [fresh] using hm
  have hs : Shaped (foldUpd (fresh nm ty acc k) xs) := shaped_foldUpd xs (shaped_fresh _ _ _ _)
  rw [foldUpd_append, mergeCore_foldUpd ys hty hc.symm.toL]
  conv_lhs => rw [← mergeCore_fresh hty hs, fresh_of_compat hc]

/-! ### validity: the script raises nothing -/

theorem validObs_congr {r r' : Res} (o : Obs) (ht : r.ty = r'.ty)
    (hl : r.counts.length = r'.counts.length) : validObs r o ↔ validObs r' o := by
  unfold validObs; rw [ht, hl]

theorem update_ok {r : Res} {o : Obs} (h : validObs r o) : (update r o).2 = none := by
  unfold validObs at h
  unfold update
  cases hty : r.ty <;> simp only [hty] at h ⊢
  · obtain ⟨t, ht, h0⟩ := h
    simp [ht, h0]
  · obtain ⟨hd, hi⟩ := h
    obtain ⟨i, hi⟩ := Option.isSome_iff_exists.mp hi
    simp [hd, hi]

theorem update_n_ok {r : Res} {o : Obs} (h : validObs r o) : (update r o).1.n = r.n + 1 := by
  unfold validObs at h
  unfold update
  cases hty : r.ty <;> simp only [hty] at h ⊢
  · obtain ⟨t, ht, h0⟩ := h
    simp [ht, h0]
  · obtain ⟨hd, hi⟩ := h
    obtain ⟨i, hi⟩ := Option.isSome_iff_exists.mp hi
    simp [hd, hi]

theorem update_err_of_invalid {r : Res} {o : Obs} (h : ¬ validObs r o) : (update r o).2 ≠ none := by
  unfold validObs at h
  unfold update
  cases hty : r.ty <;> simp only [hty] at h ⊢
  · exact absurd trivial h
  · cases hot : o.t with
    | none => simp
    | some t =>
      by_cases h0 : t = 0
      · simp [h0]
      · exact absurd ⟨t, hot, h0⟩ h
  · exact absurd trivial h
  · by_cases hd : o.v.den = 1
    · cases hi : pyIndex r.counts.length o.v.num with
      | none => simp [hd]
      | some i => exact absurd ⟨hd, by simp [hi]⟩ h
    · simp [hd]

theorem foldUpdM_ok {r : Res} {xs : List Obs} (h : ∀ o ∈ xs, validObs r o) :
    foldUpdM r xs = .ok (foldUpd r xs) := by
  induction xs generalizing r with
  | nil => rfl
  | cons o xs ih =>
    have h1 := update_ok (h o (by simp))
    have h2 : ∀ o' ∈ xs, validObs (update r o).1 o' := fun o' ho' =>
      (validObs_congr o' (update_ty r o) (update_counts_length r o)).mpr (h o' (by simp [ho']))
    rw [foldUpdM, foldUpd_cons]
    rcases hu : update r o with ⟨r', e⟩
    rw [hu] at h1 h2
    simp only at h1 h2
    subst h1
    exact ih h2

theorem foldUpd_n {r : Res} {xs : List Obs} (h : ∀ o ∈ xs, validObs r o) :
    (foldUpd r xs).n = r.n + xs.length := by
  induction xs generalizing r with
  | nil => rfl
  | cons o xs ih =>
    have h2 : ∀ o' ∈ xs, validObs (update r o).1 o' := fun o' ho' =>
      (validObs_congr o' (update_ty r o) (update_counts_length r o)).mpr (h o' (by simp [ho']))
    rw [foldUpd_cons, ih h2, update_n_ok (h o (by simp)), List.length_cons]; omega

/-! ### associativity, any grouping -/

theorem mergeCore_assoc {a b c : Res} (h : Compat a b) (h' : Compat b c) :
    mergeCore (mergeCore a b) c = mergeCore a (mergeCore b c) := by
  obtain ⟨hn, ht, ha, hl⟩ := h
  obtain ⟨hn', ht', ha', hl'⟩ := h'
  have hbt : b.ty = a.ty := ht.symm
  have hba : b.acc = a.acc := ha.symm
  have hty' : (mergeCore a b).ty = a.ty := mergeCore_ty a b
  cases hty : a.ty <;> cases hacc : a.acc <;>
    simp [mergeCore, extendLists, hty, hacc, hbt, hba, Rat.add_assoc, Nat.add_assoc, zipWith_add_assoc]

/-- merging the operands one after the other into the first -/
def mergeSeq (a : Res) (l : List Res) : Res := l.foldl mergeCore a

theorem compat_mergeSeq {c a : Res} {l : List Res} (ha : Compat c a) (hl : ∀ x ∈ l, Compat c x) :
    Compat c (mergeSeq a l) := by
  induction l generalizing a with
  | nil => exact ha
  | cons b l ih =>
    exact ih (ha.trans (compat_mergeCore (ha.symm.trans (hl b (by simp)))))
      (fun x hx => hl x (by simp [hx]))

theorem mergeCore_mergeSeq {c x b : Res} {l : List Res} (hx : Compat c x) (hb : Compat c b)
    (hl : ∀ y ∈ l, Compat c y) :
    mergeCore x (mergeSeq b l) = mergeSeq (mergeCore x b) l := by
  induction l generalizing b with
  | nil => rfl
  | cons d l ih =>
    have hd := hl d (by simp)
    have hbd : Compat b d := hb.symm.trans hd
    show mergeCore x (mergeSeq (mergeCore b d) l) = mergeSeq (mergeCore (mergeCore x b) d) l
    rw [ih (hb.trans (compat_mergeCore hbd)) (fun y hy => hl y (by simp [hy])),
      mergeCore_assoc (hx.symm.trans hb) hbd]

def MTree.first {α} : MTree α → α
  | .leaf x => x
  | .node l _ => l.first

def MTree.rest {α} : MTree α → List α
  | .leaf _ => []
  | .node l r => l.rest ++ r.first :: r.rest

theorem MTree.leaves_eq {α} (t : MTree α) : t.leaves = t.first :: t.rest := by
  induction t with
  | leaf x => rfl
  | node l r ihl ihr => simp [MTree.leaves, MTree.first, MTree.rest, ihl, ihr]

/-- a tree of compatible results merges without exception to the left-to-right merge of its leaves -/
theorem evalRes_eq_mergeSeq (c : Res) (t : MTree Res) (h : ∀ x ∈ t.leaves, Compat c x) :
    evalRes t = .ok (mergeSeq t.first t.rest) := by
  induction t with
  | leaf x => rfl
  | node l r ihl ihr =>
    have hl : ∀ x ∈ l.leaves, Compat c x := fun x hx => h x (by simp [MTree.leaves, hx])
    have hr : ∀ x ∈ r.leaves, Compat c x := fun x hx => h x (by simp [MTree.leaves, hx])
    rw [MTree.leaves_eq] at hl hr
    have hlf := hl l.first (by simp)
    have hrf := hr r.first (by simp)
    have hlr : ∀ x ∈ l.rest, Compat c x := fun x hx => hl x (by simp [hx])
    have hrr : ∀ x ∈ r.rest, Compat c x := fun x hx => hr x (by simp [hx])
    have ca := compat_mergeSeq hlf hlr
    have cb := compat_mergeSeq hrf hrr
    simp only [evalRes, ihl (by rw [MTree.leaves_eq]; exact hl), ihr (by rw [MTree.leaves_eq]; exact hr),
      bind, Except.bind]
    rw [mergeM_ok (ca.symm.trans cb), mergeCore_mergeSeq ca hrf hrr]
    simp [mergeSeq, MTree.first, MTree.rest, List.foldl_append]

/-- chunks accumulated separately and merged along any tree = the whole sequence accumulated -/
theorem evalTree_eq_foldUpd (nm : String) (ty : Ty) (acc : Bool) (k : Nat) (hm : ty ≠ .misc)
    (t : MTree (List Obs)) (hv : ∀ o ∈ t.flatten, validObs (fresh nm ty acc k) o) :
    evalTree (fresh nm ty acc k) t = .ok (foldUpd (fresh nm ty acc k) t.flatten) := by
  induction t with
  | leaf xs => exact foldUpdM_ok hv
  | node l r ihl ihr =>
    have hl := ihl (fun o ho => hv o (by simp [MTree.flatten, ho]))
    have hr := ihr (fun o ho => hv o (by simp [MTree.flatten, ho]))
    simp only [evalTree, hl, hr, bind, Except.bind, MTree.flatten]
    rw [mergeM_ok ((compat_foldUpd _ (Compat.refl _)).symm.trans (compat_foldUpd _ (Compat.refl _))),
      foldUpd_append_fresh nm ty acc k hm]

end PyPhysim.C06M
