import PyPhysim.Proofs.C20Real

/-!
`ℂ`-specific facts: positivity of the Frobenius form, full column rank ⇔ the
`inv` contract, whitening.
-/
set_option linter.unusedSectionVars false
namespace PyPhysim.LinAlg.Pf
open Matrix
open scoped ComplexOrder

variable {m n k : Nat}

theorem re_fro (D : Matrix (Fin m) (Fin n) ℂ) :
    (trace (D * Dᴴ)).re = ∑ i, ∑ j, Complex.normSq (D i j) := by
  simp only [trace, diag_apply, mul_apply, conjTranspose_apply, Complex.re_sum]
  refine Finset.sum_congr rfl (fun i _ => Finset.sum_congr rfl (fun j _ => ?_))
  rw [Complex.star_def, Complex.mul_conj]
  simp

theorem fro_real (D : Matrix (Fin m) (Fin n) ℂ) : (trace (D * Dᴴ)).im = 0 := by
  simp only [trace, diag_apply, mul_apply, conjTranspose_apply, Complex.im_sum]
  refine Finset.sum_eq_zero (fun i _ => Finset.sum_eq_zero (fun j _ => ?_))
  rw [Complex.star_def, Complex.mul_conj]
  simp

theorem re_fro_eq_zero_iff (D : Matrix (Fin m) (Fin n) ℂ) : (trace (D * Dᴴ)).re = 0 ↔ D = 0 := by
  rw [re_fro]
  constructor
  · intro h
    ext i j
    have h1 := (Finset.sum_eq_zero_iff_of_nonneg
      (fun i _ => Finset.sum_nonneg (fun j _ => Complex.normSq_nonneg (D i j)))).mp h i (Finset.mem_univ i)
    have h2 := (Finset.sum_eq_zero_iff_of_nonneg
      (fun j _ => Complex.normSq_nonneg (D i j))).mp h1 j (Finset.mem_univ j)
    simpa using Complex.normSq_eq_zero.mp h2
  · intro h; subst h; simp

theorem re_fro_nonneg (D : Matrix (Fin m) (Fin n) ℂ) : 0 ≤ (trace (D * Dᴴ)).re := by
  rw [re_fro]
  exact Finset.sum_nonneg (fun i _ => Finset.sum_nonneg (fun j _ => Complex.normSq_nonneg _))

/-- the scalar the model returns: `√(re x) / √(re (1+1))` in `ℂ` -/
theorem csqrt_div_eq_zero_iff (x : ℂ) :
    (((Real.sqrt x.re : ℝ) : ℂ) / ((Real.sqrt (1 + 1 : ℂ).re : ℝ) : ℂ) = 0) ↔ x.re ≤ 0 := by
  have h2 : (1 + 1 : ℂ).re = 2 := by norm_num
  rw [h2]
  have hs : ((Real.sqrt 2 : ℝ) : ℂ) ≠ 0 := by
    norm_cast
    exact (Real.sqrt_pos.mpr (by norm_num)).ne'
  rw [div_eq_zero_iff]
  constructor
  · rintro (h | h)
    · exact Real.sqrt_eq_zero'.mp (by exact_mod_cast h)
    · exact absurd h hs
  · intro h
    left
    exact_mod_cast Real.sqrt_eq_zero'.mpr h

/-- full column rank gives an inverse of the Gram matrix -/
theorem gram_inv_of_injective (A : Matrix (Fin m) (Fin k) ℂ) (h : Function.Injective A.mulVec) :
    ∃ G : Matrix (Fin k) (Fin k) ℂ, G * (Aᴴ * A) = 1 := by
  have hpd : (Aᴴ * A).PosDef := PosDef.conjTranspose_mul_self A h
  have hu : IsUnit (Aᴴ * A) := hpd.isUnit
  obtain ⟨u, hu⟩ := hu
  exact ⟨↑u⁻¹, by rw [← hu]; exact u.inv_mul⟩

theorem injective_of_gram_inv (A : Matrix (Fin m) (Fin k) ℂ) (G : Matrix (Fin k) (Fin k) ℂ)
    (hG : G * (Aᴴ * A) = 1) : Function.Injective A.mulVec := by
  intro x y hxy
  have e : ∀ z : Fin k → ℂ, z = (G * Aᴴ) *ᵥ (A *ᵥ z) := by
    intro z
    rw [mulVec_mulVec, Matrix.mul_assoc, hG, one_mulVec]
  rw [e x, e y, hxy]

/-- whitening: `W = Q diag(1/√lᵢ)` turns `C` into the identity when `Q` is unitary,
    `C Q = Q diag(l)` and the `lᵢ` are real and positive -/
theorem whiten_identity (C Q : Matrix (Fin n) (Fin n) ℂ) (L : Fin n → ℂ)
    (hQ : Qᴴ * Q = 1) (hC : C * Q = Q * diagonal L) (hL : ∀ i, (L i).im = 0 ∧ 0 < (L i).re) :
    (Q * diagonal (fun i => 1 / ((Real.sqrt (L i).re : ℝ) : ℂ)))ᴴ * C *
      (Q * diagonal (fun i => 1 / ((Real.sqrt (L i).re : ℝ) : ℂ))) = 1 := by
  set d : Fin n → ℂ := fun i => 1 / ((Real.sqrt (L i).re : ℝ) : ℂ) with hd
  have hdstar : (diagonal d)ᴴ = diagonal d := by
    rw [diagonal_conjTranspose]
    congr 1
    funext i
    simp only [hd, Pi.star_apply, star_div₀, star_one, Complex.star_def, Complex.conj_ofReal]
  calc (Q * diagonal d)ᴴ * C * (Q * diagonal d)
      = diagonal d * (Qᴴ * (C * Q)) * diagonal d := by
        rw [conjTranspose_mul, hdstar]; simp only [Matrix.mul_assoc]
    _ = diagonal d * ((Qᴴ * Q) * diagonal L) * diagonal d := by rw [hC, Matrix.mul_assoc Qᴴ]
    _ = diagonal d * diagonal L * diagonal d := by rw [hQ, Matrix.one_mul]
    _ = 1 := by
        rw [diagonal_mul_diagonal, diagonal_mul_diagonal, ← diagonal_one]
        congr 1
        funext i
        obtain ⟨him, hre⟩ := hL i
        have hLi : L i = (((L i).re : ℝ) : ℂ) := by
          apply Complex.ext <;> simp [him]
        obtain ⟨r, hr, hLr⟩ : ∃ r : ℝ, 0 < r ∧ L i = (r : ℂ) := ⟨(L i).re, hre, hLi⟩
        simp only [hd, hLr, Complex.ofReal_re]
        have hs : ((Real.sqrt r : ℝ) : ℂ) ≠ 0 := by
          norm_cast; exact (Real.sqrt_pos.mpr hr).ne'
        have hsq : (r : ℂ) = ((Real.sqrt r : ℝ) : ℂ) * ((Real.sqrt r : ℝ) : ℂ) := by
          norm_cast; exact (Real.mul_self_sqrt hr.le).symm
        rw [hsq]
        field_simp

end PyPhysim.LinAlg.Pf
