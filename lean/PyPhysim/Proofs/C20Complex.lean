import PyPhysim.Proofs.C20Real
import Mathlib.Tactic.FinCases

/-!
`ℂ`-specific facts: positivity of the Frobenius form, full column rank ⇔ the
`inv` contract, whitening.
-/
set_option linter.unusedSectionVars false
namespace PyPhysim.LinAlg.Pf
open Matrix
open scoped ComplexOrder

variable {m n k : Nat}

theorem re_fro (D : Matrix (Fin m) (Fin n) ℂ) :
    (trace (D * Dᴴ)).re = ∑ i, ∑ j, Complex.normSq (D i j) := by
  simp only [trace, diag_apply, mul_apply, conjTranspose_apply, Complex.re_sum]
  refine Finset.sum_congr rfl (fun i _ => Finset.sum_congr rfl (fun j _ => ?_))
  rw [Complex.star_def, Complex.mul_conj]
  simp

theorem fro_real (D : Matrix (Fin m) (Fin n) ℂ) : (trace (D * Dᴴ)).im = 0 := by
  simp only [trace, diag_apply, mul_apply, conjTranspose_apply, Complex.im_sum]
  refine Finset.sum_eq_zero (fun i _ => Finset.sum_eq_zero (fun j _ => ?_))
  rw [Complex.star_def, Complex.mul_conj]
  simp

theorem re_fro_eq_zero_iff (D : Matrix (Fin m) (Fin n) ℂ) : (trace (D * Dᴴ)).re = 0 ↔ D = 0 := by
  rw [re_fro]
  constructor
  · intro h
    ext i j
    have h1 := (Finset.sum_eq_zero_iff_of_nonneg
      (fun i _ => Finset.sum_nonneg (fun j _ => Complex.normSq_nonneg (D i j)))).mp h i (Finset.mem_univ i)
    have h2 := (Finset.sum_eq_zero_iff_of_nonneg
      (fun j _ => Complex.normSq_nonneg (D i j))).mp h1 j (Finset.mem_univ j)
    simpa using Complex.normSq_eq_zero.mp h2
  · intro h; subst h; simp

theorem re_fro_nonneg (D : Matrix (Fin m) (Fin n) ℂ) : 0 ≤ (trace (D * Dᴴ)).re := by
  rw [re_fro]
  exact Finset.sum_nonneg (fun i _ => Finset.sum_nonneg (fun j _ => Complex.normSq_nonneg _))

/-- the scalar the model returns: `√(re x) / √(re (1+1))` in `ℂ` -/
theorem csqrt_div_eq_zero_iff (x : ℂ) :
    (((Real.sqrt x.re : ℝ) : ℂ) / ((Real.sqrt (1 + 1 : ℂ).re : ℝ) : ℂ) = 0) ↔ x.re ≤ 0 := by
  have h2 : (1 + 1 : ℂ).re = 2 := by norm_num
  rw [h2]
  have hs : ((Real.sqrt 2 : ℝ) : ℂ) ≠ 0 := by
    norm_cast
    exact (Real.sqrt_pos.mpr (by norm_num)).ne'
  rw [div_eq_zero_iff]
  constructor
  · rintro (h | h)
    · exact Real.sqrt_eq_zero'.mp (by exact_mod_cast h)
    · exact absurd h hs
  · intro h
    left
    exact_mod_cast Real.sqrt_eq_zero'.mpr h

/-- full column rank gives an inverse of the Gram matrix -/
theorem gram_inv_of_injective (A : Matrix (Fin m) (Fin k) ℂ) (h : Function.Injective A.mulVec) :
    ∃ G : Matrix (Fin k) (Fin k) ℂ, G * (Aᴴ * A) = 1 := by
  have hpd : (Aᴴ * A).PosDef := PosDef.conjTranspose_mul_self A h
  have hu : IsUnit (Aᴴ * A) := hpd.isUnit
  obtain ⟨u, hu⟩ := hu
  exact ⟨↑u⁻¹, by rw [← hu]; exact u.inv_mul⟩

theorem injective_of_gram_inv (A : Matrix (Fin m) (Fin k) ℂ) (G : Matrix (Fin k) (Fin k) ℂ)
    (hG : G * (Aᴴ * A) = 1) : Function.Injective A.mulVec := by
  intro x y hxy
  have e : ∀ z : Fin k → ℂ, z = (G * Aᴴ) *ᵥ (A *ᵥ z) := by
    intro z
    rw [mulVec_mulVec, Matrix.mul_assoc, hG, one_mulVec]
  rw [e x, e y, hxy]

/-- whitening: `W = Q diag(1/√lᵢ)` turns `C` into the identity when `Q` is unitary,
    `C Q = Q diag(l)` and the `lᵢ` are real and positive -/
theorem whiten_identity (C Q : Matrix (Fin n) (Fin n) ℂ) (L : Fin n → ℂ)
    (hQ : Qᴴ * Q = 1) (hC : C * Q = Q * diagonal L) (hL : ∀ i, (L i).im = 0 ∧ 0 < (L i).re) :
    (Q * diagonal (fun i => 1 / ((Real.sqrt (L i).re : ℝ) : ℂ)))ᴴ * C *
      (Q * diagonal (fun i => 1 / ((Real.sqrt (L i).re : ℝ) : ℂ))) = 1 := by
  set d : Fin n → ℂ := fun i => 1 / ((Real.sqrt (L i).re : ℝ) : ℂ) with hd
  have hdstar : (diagonal d)ᴴ = diagonal d := by
    rw [diagonal_conjTranspose]
    congr 1
    funext i
    simp only [hd, Pi.star_apply, star_div₀, star_one, Complex.star_def, Complex.conj_ofReal]
  calc (Q * diagonal d)ᴴ * C * (Q * diagonal d)
      = diagonal d * (Qᴴ * (C * Q)) * diagonal d := by
        rw [conjTranspose_mul, hdstar]; simp only [Matrix.mul_assoc]
    _ = diagonal d * ((Qᴴ * Q) * diagonal L) * diagonal d := by rw [hC, Matrix.mul_assoc Qᴴ]
    _ = diagonal d * diagonal L * diagonal d := by rw [hQ, Matrix.one_mul]
    _ = 1 := by
        rw [diagonal_mul_diagonal, diagonal_mul_diagonal, ← diagonal_one]
        congr 1
        funext i
        obtain ⟨him, hre⟩ := hL i
        have hLi : L i = (((L i).re : ℝ) : ℂ) := by
          apply Complex.ext <;> simp [him]
        obtain ⟨r, hr, hLr⟩ : ∃ r : ℝ, 0 < r ∧ L i = (r : ℂ) := ⟨(L i).re, hre, hLi⟩
        simp only [hd, hLr, Complex.ofReal_re]
        have hs : ((Real.sqrt r : ℝ) : ℂ) ≠ 0 := by
          norm_cast; exact (Real.sqrt_pos.mpr hr).ne'
        have hsq : (r : ℂ) = ((Real.sqrt r : ℝ) : ℂ) * ((Real.sqrt r : ℝ) : ℂ) := by
          norm_cast; exact (Real.mul_self_sqrt hr.le).symm
        rw [hsq]
        field_simp

/-- value of the Frobenius form of `Q1Q1ᴴ − Q2Q2ᴴ` from the singular values of `Q1ᴴQ2` -/
theorem fro_proj_svd {p q r : Nat} (Q1 : Matrix (Fin m) (Fin p) ℂ) (Q2 : Matrix (Fin m) (Fin q) ℂ)
    (U : Matrix (Fin p) (Fin r) ℂ) (V : Matrix (Fin q) (Fin r) ℂ) (s : Fin r → ℝ)
    (h1 : Q1ᴴ * Q1 = 1) (h2 : Q2ᴴ * Q2 = 1) (hU : Uᴴ * U = 1) (hV : Vᴴ * V = 1)
    (hM : Q1ᴴ * Q2 = U * diagonal (fun i => ((s i : ℝ) : ℂ)) * Vᴴ) :
    trace ((Q1 * Q1ᴴ - Q2 * Q2ᴴ) * (Q1 * Q1ᴴ - Q2 * Q2ᴴ)ᴴ)
      = (((p : ℝ) + (q : ℝ) - 2 * ∑ i, s i * s i : ℝ) : ℂ) := by
  rw [fro_proj_diff _ _ h1 h2,
    fro_of_svd _ U V _ (fun i => by simp [Complex.star_def, Complex.conj_ofReal]) hU hV hM]
  push_cast
  ring

theorem csqrt_div (x : ℝ) :
    (((Real.sqrt ((x : ℂ).re) : ℝ) : ℂ)) / ((Real.sqrt (1 + 1 : ℂ).re : ℝ) : ℂ)
      = ((Real.sqrt (x / 2) : ℝ) : ℂ) := by
  have h2 : (1 + 1 : ℂ).re = 2 := by norm_num
  rw [h2, Complex.ofReal_re, Real.sqrt_div' x (by norm_num : (0 : ℝ) ≤ 2)]
  push_cast
  rfl

/-- columns of `V` are eigenvectors when `A V = V diag(D)` -/
theorem eigen_column {K : Type} [CommRing K] (A V : Matrix (Fin n) (Fin n) K) (D : Fin n → K)
    (h : A * V = V * diagonal D) (j i : Fin n) :
    ∑ l, A i l * V l j = D j * V i j := by
  have := congrFun (congrFun h i) j
  rw [mul_apply, mul_diagonal] at this
  rw [this, mul_comm]

/-- `A V = U Σ` for a full SVD `A = U Σ Vᴴ` (`Vᴴ` unitary) -/
theorem svd_right {K : Type} [CommRing K] [StarRing K] {c : Nat} (A : Matrix (Fin m) (Fin c) K)
    (U : Matrix (Fin m) (Fin m) K) (Sg : Matrix (Fin m) (Fin c) K) (VH : Matrix (Fin c) (Fin c) K)
    (hA : A = U * Sg * VH) (hV : VH * VHᴴ = 1) : A * VHᴴ = U * Sg := by
  rw [hA, Matrix.mul_assoc, hV, Matrix.mul_one]

/-- the singular values of `Q1ᴴ Q2` (orthonormal `Q1`, `Q2`) are at most one: the cosines
    of the principal angles -/
theorem sv_le_one {p q r : Nat} (Q1 : Matrix (Fin m) (Fin p) ℂ) (Q2 : Matrix (Fin m) (Fin q) ℂ)
    (U : Matrix (Fin p) (Fin r) ℂ) (V : Matrix (Fin q) (Fin r) ℂ) (s : Fin r → ℝ)
    (h1 : Q1ᴴ * Q1 = 1) (h2 : Q2ᴴ * Q2 = 1) (hU : Uᴴ * U = 1) (hV : Vᴴ * V = 1)
    (hM : Q1ᴴ * Q2 = U * diagonal (fun i => ((s i : ℝ) : ℂ)) * Vᴴ) (h0 : ∀ i, 0 ≤ s i) :
    ∀ i, s i ≤ 1 := by
  set S : Matrix (Fin r) (Fin r) ℂ := diagonal (fun i => ((s i : ℝ) : ℂ)) with hS
  have hSh : Sᴴ = S := by
    rw [hS, diagonal_conjTranspose]; congr 1; funext i
    simp [Complex.conj_ofReal]
  have hG : (1 : Matrix (Fin p) (Fin p) ℂ) * (Q1ᴴ * Q1) = 1 := by rw [h1, Matrix.one_mul]
  have hid : (1 - Q1 * Q1ᴴ) * (1 - Q1 * Q1ᴴ) = 1 - Q1 * Q1ᴴ := by
    simpa using oproj_idem Q1 1 hG
  have hhe : (1 - Q1 * Q1ᴴ)ᴴ = 1 - Q1 * Q1ᴴ := by
    simpa using oproj_herm Q1 1 hG
  have hMh : Q2ᴴ * Q1 = V * S * Uᴴ := by
    have := congrArg conjTranspose hM
    simpa [conjTranspose_mul, hSh, Matrix.mul_assoc] using this
  set Y : Matrix (Fin m) (Fin r) ℂ := (1 - Q1 * Q1ᴴ) * Q2 * V with hY
  have key : Yᴴ * Y = 1 - S * S := by
    calc Yᴴ * Y = Vᴴ * (Q2ᴴ * ((1 - Q1 * Q1ᴴ) * (1 - Q1 * Q1ᴴ)) * Q2) * V := by
          rw [hY]; simp only [conjTranspose_mul, hhe, Matrix.mul_assoc]
      _ = Vᴴ * (Q2ᴴ * Q2 - (Q2ᴴ * Q1) * (Q1ᴴ * Q2)) * V := by
          rw [hid, Matrix.mul_sub, Matrix.sub_mul, Matrix.mul_one]; simp only [Matrix.mul_assoc]
      _ = Vᴴ * V - (Vᴴ * V) * S * (Uᴴ * U) * S * (Vᴴ * V) := by
          rw [h2, hMh, hM, Matrix.mul_sub, Matrix.sub_mul, Matrix.mul_one]
          simp only [Matrix.mul_assoc]
      _ = 1 - S * S := by rw [hV, hU]; simp only [Matrix.one_mul, Matrix.mul_one]
  intro i
  have hii := congrFun (congrFun key i) i
  rw [mul_apply, Matrix.sub_apply, one_apply_eq, hS, diagonal_mul_diagonal, diagonal_apply_eq] at hii
  have hre := congrArg Complex.re hii
  rw [Complex.re_sum] at hre
  have hnn : 0 ≤ ∑ l, ((Yᴴ) i l * Y l i).re := by
    refine Finset.sum_nonneg (fun l _ => ?_)
    rw [conjTranspose_apply, Complex.star_def, mul_comm, Complex.mul_conj]
    simp [Complex.normSq_nonneg]
  rw [hre] at hnn
  simp only [Complex.sub_re, Complex.one_re, Complex.mul_re, Complex.ofReal_re, Complex.ofReal_im,
    mul_zero, sub_zero] at hnn
  nlinarith [h0 i]

end PyPhysim.LinAlg.Pf

namespace PyPhysim.LinAlg.Wit
open PyPhysim.LinAlg

/-- witness for the dimension mismatch: the line spanned by `e₁` inside `ℂ²` … -/
def Q1 : Mat ℂ 2 1 := fun i _ => if i.val = 0 then 1 else 0
/-- … and the whole plane -/
def Q2 : Mat ℂ 2 2 := eye
/-- thin SVD of `Q1ᴴ Q2 = [1 0]`: `U = [1]`, `s = [1]`, `V = e₁` -/
def U : Mat ℂ 1 1 := eye
def s : Fin 1 → ℝ := fun _ => 1

theorem hQ1 : matMul (cT Q1) Q1 = eye := by
  funext i j; fin_cases i; fin_cases j
  simp [matMul, cT, sumFin, Q1, eye, Conj.conj]

theorem hQ2 : matMul (cT Q2) Q2 = eye := by
  funext i j; fin_cases i <;> fin_cases j <;>
  simp [matMul, cT, sumFin, Q2, eye, Conj.conj]

theorem hU : matMul (cT U) U = eye := by
  funext i j; fin_cases i; fin_cases j
  simp [matMul, cT, sumFin, U, eye, Conj.conj]

theorem hsvd : pangleArg Q1 Q2 = matMul (matMul U (diagM (fun i => ((s i : ℝ) : ℂ)))) (cT Q1) := by
  funext i j; fin_cases i; fin_cases j <;>
  simp [pangleArg, matMul, cT, sumFin, Q1, Q2, U, s, eye, diagM, Conj.conj]

theorem angles_zero : chordalFromAngles (principalAngles ([1] : List ℝ)) = 0 := by
  simp [chordalFromAngles, principalAngles, sumSinSq, Transc.acos, Transc.sin, RSqrt.sqrt]

end PyPhysim.LinAlg.Wit
