import PyPhysim.Proofs.C11Bridge

/-!
Aggregation: the double loop of `calc_SINR`, `calc_SINR_in_dB`, `calc_sum_capacity`.
-/
set_option linter.unusedSectionVars false
namespace PyPhysim.Sinr.Pf
open PyPhysim.Proto PyPhysim.Sinr

theorem mapM_ok {α β : Type} (l : List α) (f : α → Except PyErr β) (g : α → β)
    (h : ∀ a ∈ l, f a = .ok (g a)) : l.mapM f = .ok (l.map g) := by
  induction l with
  | nil => rfl
  | cons a l ih =>
    rw [List.mapM_cons, h a (List.mem_cons_self), ih (fun b hb => h b (List.mem_cons_of_mem _ hb))]
    rfl

/-- a failing element makes the loop raise that error, provided everything before it succeeded -/
theorem mapM_error {α β : Type} (l₁ l₂ : List α) (a : α) (f : α → Except PyErr β) (err : PyErr)
    (h₁ : ∀ b ∈ l₁, ∃ y, f b = .ok y) (ha : f a = .error err) :
    (l₁ ++ a :: l₂).mapM f = .error err := by
  induction l₁ with
  | nil => rw [List.nil_append, List.mapM_cons, ha]; rfl
  | cons b l ih =>
    obtain ⟨y, hy⟩ := h₁ b (List.mem_cons_self)
    rw [List.cons_append, List.mapM_cons, hy, ih (fun c hc => h₁ c (List.mem_cons_of_mem _ hc))]
    rfl

/-- when every entry is a value, `calc_SINR` returns all of them, user by user -/
theorem allStreams_ok {K : Nat} (S : Fin K → Nat) (f : (k : Fin K) → Fin (S k) → Except PyErr ℝ)
    (g : (k : Fin K) → Fin (S k) → ℝ) (h : ∀ k l, f k l = .ok (g k l)) :
    allStreams S f = .ok ((List.finRange K).map (fun k => (List.finRange (S k)).map (g k))) := by
  unfold allStreams
  exact mapM_ok _ _ _ (fun k _ => mapM_ok _ _ _ (fun l _ => h k l))

theorem sumL_eq_sum (xs : List ℝ) : sumL xs = xs.sum := by
  rw [sumL, List.sum_eq_foldl]

theorem shannonSum_flatten {K : Nat} (S : Fin K → Nat) (g : (k : Fin K) → Fin (S k) → ℝ) :
    shannonSum ((List.finRange K).map (fun k => (List.finRange (S k)).map (g k))).flatten =
      ∑ k, ∑ l, Real.logb 2 (1 + g k l) := by
  rw [shannonSum, sumL_eq_sum, List.map_flatten, List.sum_flatten, List.map_map, List.map_map,
    Fin.sum_univ_def]
  congr 1
  refine List.map_congr_left (fun k _ => ?_)
  simp only [Function.comp, List.map_map, Fin.sum_univ_def]
  rfl

/-! ### long-lived objects with refused calls -/

theorem afterCalls_append {ι : Type} (i0 : ι) (h1 h2 : List (ι → Except PyErr ι)) :
    afterCalls i0 (h1 ++ h2) = afterCalls (afterCalls i0 h1) h2 := by
  simp only [afterCalls, List.foldl_append]

theorem reportsAlong_length {ι β : Type} (report : ι → β) :
    ∀ (i : ι) (h : List (ι → Except PyErr ι)), (reportsAlong report i h).length = h.length + 1
  | _, [] => rfl
  | i, c :: cs => by simp [reportsAlong, reportsAlong_length report (stepOrKeep i c) cs]

theorem reportsAlong_take {ι β : Type} (report : ι → β) :
    ∀ (i : ι) (h1 h2 : List (ι → Except PyErr ι)),
      (reportsAlong report i (h1 ++ h2)).take (h1.length + 1) = reportsAlong report i h1
  | i, [], [] => by simp [reportsAlong]
  | i, [], c :: cs => by simp [reportsAlong]
  | i, c :: cs, h2 => by
    simp only [List.cons_append, reportsAlong, List.length_cons, List.take_succ_cons]
    rw [reportsAlong_take report (stepOrKeep i c) cs h2]

theorem reportsAlong_getLast {ι β : Type} (report : ι → β) :
    ∀ (i : ι) (h : List (ι → Except PyErr ι)),
      (reportsAlong report i h).getLast? = some (report (afterCalls i h))
  | i, [] => by simp [reportsAlong, afterCalls]
  | i, c :: cs => by
    have ih := reportsAlong_getLast report (stepOrKeep i c) cs
    have hne : reportsAlong report (stepOrKeep i c) cs ≠ [] := by
      intro h0
      have := reportsAlong_length report (stepOrKeep i c) cs
      rw [h0] at this
      simp at this
    simp only [reportsAlong, afterCalls, List.foldl_cons]
    rw [List.getLast?_cons_of_ne_nil hne] at *
    exact ih

end PyPhysim.Sinr.Pf
