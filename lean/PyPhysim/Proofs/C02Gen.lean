import Mathlib.Tactic.SplitIfs
import PyPhysim.Generated.OfdmIndex
import PyPhysim.Proofs.C02Index

/-!
C02 — the definitions regenerated from `ofdm.py` (`Generated/OfdmIndex.lean`) are
equal to the normal forms of `Model/C02.lean` that all other theorems are about.
A change of the source functions re-opens these proofs.
-/
namespace PyPhysim.C02
open PyPhysim.Proto
open PyPhysim.Generated.C02

/-- `OFDM.set_parameters` as written in the source is the guard ladder of the model -/
theorem gen_set_parameters' (fft cp : Int) (u : Option Int) :
    (set_parameters fft cp u).map (fun t => (⟨t.1.toNat, t.2.1.toNat, t.2.2.toNat⟩ : Params))
      = setParameters fft cp u := by
  unfold set_parameters setParameters
  cases u <;> simp only [Int.fmod_eq_emod_of_nonneg _ (by decide : (0:Int) ≤ 2)] <;> split_ifs <;> rfl

theorem pySlice_right {β : Type} (A B : List β) (h : Nat) (hA : A.length = h) :
    pySlice (A ++ B) (some (h : Int)) none = B := by
  unfold pySlice pyBound
  simp only
  rw [if_neg (by omega)]
  have : min ((h : Int).toNat) (A ++ B).length = h := by simp [hA]
  rw [this, List.take_length, List.drop_left' hA]

theorem pySlice_left {β : Type} (A B : List β) (h : Nat) (hA : A.length = h) :
    pySlice (A ++ B) (some (0 : Int)) (some (h : Int)) = A := by
  unfold pySlice pyBound
  simp only
  rw [if_neg (by omega), if_neg (by omega)]
  have : min ((h : Int).toNat) (A ++ B).length = h := by simp [hA]
  rw [this, List.take_left' hA]
  simp

theorem fdiv_two (h : Nat) : Int.fdiv ((2 * h : Nat) : Int) 2 = (h : Int) := by
  rw [Int.fdiv_eq_ediv_of_nonneg _ (by decide)]
  omega

theorem drop_range_add (a b : Nat) : (List.range (a + b)).drop a = List.range' a b := by
  rw [List.range_eq_range', List.drop_range']; simp

theorem take_range_add (a b : Nat) : (List.range (a + b)).take a = List.range a := by
  rw [List.take_range]; simp

/-- `_get_used_subcarrier_numbers` when every subcarrier is used: `[0,…,h-1,-h,…,-1]` -/
theorem gen_numbers_all (h : Nat) :
    get_used_subcarrier_numbers ((2 * h : Nat) : Int) ((2 * h : Nat) : Int)
      = (List.range h).map (fun (i : Nat) => (i : Int)) ++ (List.range h).map (fun (i : Nat) => (i : Int) - h) := by
  unfold get_used_subcarrier_numbers get_subcarrier_numbers
  rw [if_pos rfl, fdiv_two]
  unfold fftshift npArange
  simp only [List.length_map, List.length_range, Int.toNat_natCast]
  have e : 2 * h - 2 * h / 2 = h := by omega
  rw [e, ← List.map_drop, ← List.map_drop, ← List.map_take, ← List.map_take]
  have e2 : 2 * h = h + h := by omega
  rw [e2, drop_range_add, take_range_add, List.range'_eq_map_range]
  simp only [List.map_map]
  congr 1
  · apply List.map_congr_left
    intro i _
    simp only [Function.comp, Int.ofNat_eq_natCast]
    omega

/-- `_get_used_subcarrier_numbers` with guard bands: `[1,…,h,-h,…,-1]` -/
theorem gen_numbers_guard (fft : Int) (h : Nat) (hne : ((2 * h : Nat) : Int) ≠ fft) :
    get_used_subcarrier_numbers fft ((2 * h : Nat) : Int)
      = (List.range h).map (fun (i : Nat) => 1 + (i : Int)) ++ (List.range h).map (fun (i : Nat) => -(h : Int) + (i : Int)) := by
  unfold get_used_subcarrier_numbers
  rw [if_neg hne, fdiv_two]
  unfold npR
  simp only
  have e1 : ((h : Int) + 1 - 1).toNat = h := by omega
  have e2 : ((0 : Int) - -(h : Int)).toNat = h := by omega
  rw [e1, e2]
  rfl

theorem gen_usedIdx_nat (fft h : Nat) (hle : 2 * h ≤ fft) :
    get_used_subcarrier_indexes (fft : Int) ((2 * h : Nat) : Int) = (usedIdx fft (2 * h)).map Int.ofNat := by
  have hu2 : 2 * h / 2 = h := by omega
  unfold get_used_subcarrier_indexes usedIdx
  rw [fdiv_two, hu2]
  by_cases he : 2 * h = fft
  · rw [if_pos he, ← he, gen_numbers_all]
    simp only
    rw [pySlice_right _ _ h (by simp), pySlice_left _ _ h (by simp)]
    rw [List.range'_eq_map_range, List.range'_eq_map_range]
    simp only [List.map_map, List.map_append]
    congr 1
    · apply List.map_congr_left
      intro i hi
      have := List.mem_range.mp hi
      simp only [Function.comp, Int.ofNat_eq_natCast]
      omega
    · apply List.map_congr_left
      intro i _
      simp only [Function.comp, Int.ofNat_eq_natCast]
      omega
  · rw [if_neg he, gen_numbers_guard _ _ (by intro e; apply he; exact_mod_cast e)]
    simp only
    rw [pySlice_right _ _ h (by simp), pySlice_left _ _ h (by simp)]
    rw [List.range'_eq_map_range, List.range'_eq_map_range]
    simp only [List.map_map, List.map_append]
    congr 1
    · apply List.map_congr_left
      intro i hi
      have := List.mem_range.mp hi
      simp only [Function.comp, Int.ofNat_eq_natCast]
      omega

/-- **tie (a)**: `get_used_subcarrier_indexes` as written in the source computes the
    normal form `usedIdx` for every valid configuration -/
theorem gen_usedIdx' (p : Params) (hp : p.Valid) :
    get_used_subcarrier_indexes (p.fft : Int) (p.used : Int) = (usedIdx p.fft p.used).map Int.ofNat := by
  obtain ⟨_, h2, h3, h4⟩ := hp
  have hh : p.used = 2 * (p.used / 2) := by omega
  rw [hh]
  exact gen_usedIdx_nat p.fft (p.used / 2) (by omega)

/-- `_calc_zeropad` as written in the source (with the float ceiling read as exact) is the
    model's `(zeropad, numSymbols)` -/
theorem gen_calc_zeropad' (p : Params) (hp : p.Valid) (n : Nat) :
    calc_zeropad (p.used : Int) (n : Int) = (((zeropad p n : Nat) : Int), ((numSymbols p n : Nat) : Int)) := by
  have hz := zeropad_spec p hp n
  have hu : 0 < p.used := by have := hp.2.2.2; omega
  have hsym : ceilDivInt (n : Int) (p.used : Int) = (numSymbols p n : Nat) := by
    unfold ceilDivInt numSymbols ceilDiv
    have : ((n : Int) + (p.used : Int) - 1) = ((n + p.used - 1 : Nat) : Int) := by omega
    rw [this, ← Int.natCast_ediv]
  unfold calc_zeropad
  simp only
  rw [hsym]
  congr 1
  have := hz.1
  have h2 : ((p.used * numSymbols p n : Nat) : Int) = (p.used : Int) * (numSymbols p n : Nat) := by
    push_cast; rfl
  -- (the translator emits the two factors in a fixed order, whichever way the source writes them)
  have h3 := Int.mul_comm (p.used : Int) ((numSymbols p n : Nat) : Int)
  omega

end PyPhysim.C02
