import PyPhysim.Model.C18Buf

/-!
C18 — R16: a history on one refilled argument buffer gives, call by call, what
fresh calls on copies of the contents give; results already returned stay.
-/
namespace PyPhysim.C18P
open PyPhysim.Cazac

variable {β κ ρ : Type}

theorem run_nil (f : β → κ → ρ) (s : BufState β ρ) : BufState.run f s [] = s := rfl

theorem run_cons (f : β → κ → ρ) (s : BufState β ρ) (op : BufOp β κ) (ops : List (BufOp β κ)) :
    BufState.run f s (op :: ops) = BufState.run f (s.step f op) ops := rfl

theorem run_append (f : β → κ → ρ) (s : BufState β ρ) (ops more : List (BufOp β κ)) :
    BufState.run f s (ops ++ more) = BufState.run f (BufState.run f s ops) more := by
  unfold BufState.run
  rw [List.foldl_append]

/-- outputs of a history = earlier outputs ++ the callee applied to the snapshots -/
theorem run_outs (f : β → κ → ρ) (ops : List (BufOp β κ)) :
    ∀ (b : β) (o : List ρ), (BufState.run f ⟨b, o⟩ ops).outs
      = o ++ (callSnapshots b ops).map (fun p => f p.1 p.2) := by
  induction ops with
  | nil => intro b o; simp [run_nil, callSnapshots]
  | cons op rest ih =>
    intro b o
    rw [run_cons]
    cases op with
    | refill v => simp only [BufState.step, callSnapshots]; exact ih v o
    | call k =>
      simp only [BufState.step, callSnapshots]
      rw [ih b (o ++ [f b k])]
      simp

/-- results already returned are a prefix of the results after any continuation -/
theorem run_outs_prefix (f : β → κ → ρ) (s : BufState β ρ) (ops : List (BufOp β κ)) :
    ∃ l, (BufState.run f s ops).outs = s.outs ++ l := by
  cases s with
  | mk b o => exact ⟨_, run_outs f ops b o⟩

/-- refilling with the contents the buffer already has (an equal-content array) changes nothing -/
theorem run_refill_same (f : β → κ → ρ) (s : BufState β ρ) (ops : List (BufOp β κ)) :
    BufState.run f s (.refill s.buf :: ops) = BufState.run f s ops := by
  rw [run_cons]
  rfl

end PyPhysim.C18P
