import Mathlib.LinearAlgebra.Matrix.NonsingularInverse
import Mathlib.LinearAlgebra.Matrix.Rank
import Mathlib.Analysis.Complex.Order
import Mathlib.Algebra.BigOperators.Fin
import PyPhysim.Proofs.C18Complex

/-!
C18 — the least-squares pilot estimator `Y Sᴴ (S Sᴴ)⁻¹`.
Bridge from the model's `Fin`-function matrices to Mathlib's `Matrix`, exactness
under the contract of `np.linalg.inv`, and "full row rank ⇒ `S Sᴴ` invertible" over `ℂ`.
-/
namespace PyPhysim.C18P
open PyPhysim.Cazac Matrix

theorem sumFin_eq {β : Type} [AddCommMonoid β] : ∀ (n : ℕ) (f : Fin n → β), sumFin n f = ∑ i, f i
  | 0, f => by simp [sumFin]
  | n + 1, f => by rw [sumFin, sumFin_eq n, Fin.sum_univ_castSucc]

theorem of_matMul {F : Type} [Field F] {m k n : ℕ} (A : Mat F m k) (B : Mat F k n) :
    Matrix.of (matMul A B) = Matrix.of A * Matrix.of B := by
  ext i j
  rw [Matrix.mul_apply]
  show matMul A B i j = _
  unfold matMul
  rw [sumFin_eq]
  rfl

theorem of_conjT {m n : ℕ} (A : Mat ℂ m n) : Matrix.of (conjT A) = (Matrix.of A)ᴴ := by
  ext i j
  rfl

/-- LS estimate is exact as soon as the kernel standing for `np.linalg.inv`
    returned a right inverse of the Gram matrix `S Sᴴ` (any field, any `conj`). -/
theorem ls_exact_core {F : Type} [Field F] [CisOps F] {nr nt np : ℕ}
    (inv : Mat F nt nt → Mat F nt nt) (H : Mat F nr nt) (S : Mat F nt np)
    (hinv : Matrix.of (matMul S (conjT S)) * Matrix.of (inv (matMul S (conjT S))) = 1) :
    lsEstimate inv (matMul H S) S = H := by
  apply Matrix.of.injective
  unfold lsEstimate
  rw [of_matMul, of_matMul, of_matMul, Matrix.mul_assoc (Matrix.of H), Matrix.mul_assoc (Matrix.of H),
    ← of_matMul S, hinv, Matrix.mul_one]

/-- over `ℂ`: linearly independent pilot rows (full row rank) make `S Sᴴ` invertible -/
theorem gram_isUnit_of_full_row_rank {nt np : ℕ} (S : Matrix (Fin nt) (Fin np) ℂ)
    (hli : LinearIndependent ℂ S.row) : IsUnit (S * Sᴴ) := by
  open ComplexOrder in
  have h1 : (S * Sᴴ).rank = Fintype.card (Fin nt) := by
    rw [Matrix.rank_self_mul_conjTranspose, hli.rank_matrix]
  have h2 : LinearIndependent ℂ (S * Sᴴ).row := by
    rw [linearIndependent_iff_card_eq_finrank_span, ← h1, Matrix.rank_eq_finrank_span_row]
    rfl
  exact Matrix.linearIndependent_rows_iff_isUnit.mp h2

end PyPhysim.C18P
