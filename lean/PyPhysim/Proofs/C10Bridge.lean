import Mathlib.Data.Matrix.Mul
import Mathlib.Algebra.BigOperators.Fin
import Mathlib.LinearAlgebra.Matrix.ConjTranspose
import Mathlib.LinearAlgebra.Matrix.Trace
import Mathlib.Data.Complex.Basic
import Mathlib.Data.Complex.BigOperators
import Mathlib.Analysis.Real.Sqrt
import Mathlib.Analysis.Complex.Order
import Mathlib.LinearAlgebra.Matrix.PosDef
import Mathlib.LinearAlgebra.Matrix.NonsingularInverse
import Mathlib.Tactic.Ring
import Mathlib.Tactic.Linarith
import Mathlib.Tactic.FieldSimp
import PyPhysim.Model.C10

/-!
Bridge between the core-only matrix model of `Model/C10Base.lean` (`Fin`-indexed
functions, own `sumFin`) and Mathlib's `Matrix` over `ℂ`: `Matrix.of` of every
model operation is the corresponding Mathlib operation.
-/
set_option linter.unusedSectionVars false
namespace PyPhysim.C10
open Matrix

/-- conjugation of the model scalars at `ℂ` -/
noncomputable instance instConjComplex : Conj ℂ := ⟨star⟩
/-- `np.sqrt` of a real scalar stored in a complex number -/
noncomputable instance instRSqrtComplex : RSqrt ℂ := ⟨fun z => ((Real.sqrt z.re : ℝ) : ℂ)⟩
/-- `np.abs` -/
noncomputable instance instAbsRComplex : AbsR ℂ := ⟨fun z => ((‖z‖ : ℝ) : ℂ)⟩

theorem sumFin_eq {β : Type} [AddCommMonoid β] : ∀ (n : Nat) (f : Fin n → β), sumFin n f = ∑ i, f i
  | 0, f => by simp [sumFin]
  | n+1, f => by rw [sumFin, sumFin_eq n, Fin.sum_univ_castSucc]

/-- a model matrix seen as a Mathlib matrix -/
abbrev toM {m n : Nat} (A : Mat ℂ m n) : Matrix (Fin m) (Fin n) ℂ := Matrix.of A

theorem toM_inj {m n : Nat} {A B : Mat ℂ m n} (h : toM A = toM B) : A = B :=
  Matrix.of.injective h

section
variable {m k n : Nat}

theorem toM_matMul (A : Mat ℂ m k) (B : Mat ℂ k n) : toM (matMul A B) = toM A * toM B := by
  ext i j
  simp [matMul, sumFin_eq, Matrix.mul_apply]

theorem toM_cT (A : Mat ℂ m n) : toM (cT A) = (toM A)ᴴ := by
  ext i j
  simp [cT, Conj.conj, conjTranspose_apply]

theorem toM_eye : toM (eye : Mat ℂ n n) = 1 := by
  ext i j
  simp [eye, Matrix.one_apply]

theorem toM_mzero : toM (mzero : Mat ℂ m n) = 0 := by
  ext i j; simp [mzero]

theorem toM_msub (A B : Mat ℂ m n) : toM (msub A B) = toM A - toM B := by
  ext i j; simp [msub]

theorem toM_madd (A B : Mat ℂ m n) : toM (madd A B) = toM A + toM B := by
  ext i j; simp [madd]

theorem toM_smul (c : ℂ) (A : Mat ℂ m n) : toM (smul c A) = c • toM A := by
  ext i j; simp [smul]

theorem toM_mscale (A : Mat ℂ m n) (c : ℂ) : toM (mscale A c) = c • toM A := by
  ext i j; simp [mscale, mul_comm]

theorem toM_mdiv (A : Mat ℂ m n) (c : ℂ) : toM (mdiv A c) = c⁻¹ • toM A := by
  ext i j; simp [mdiv, div_eq_inv_mul]

theorem toM_outerG (A : Mat ℂ m n) : toM (outerG A) = toM A * (toM A)ᴴ := by
  simp only [outerG, toM_matMul, toM_cT]

theorem toM_msum : ∀ (K : Nat) (f : Fin K → Mat ℂ m n), toM (msum K f) = ∑ i, toM (f i)
  | 0, f => by simp [msum, toM_mzero]
  | K+1, f => by rw [msum, toM_madd, toM_msum K, Fin.sum_univ_castSucc]

theorem trace_eq (A : Mat ℂ n n) : PyPhysim.C10.trace A = Matrix.trace (toM A) := by
  simp [PyPhysim.C10.trace, sumFin_eq, Matrix.trace]

theorem frobSq_eq (A : Mat ℂ m n) : frobSq A = Matrix.trace (toM A * (toM A)ᴴ) := by
  simp [frobSq, sumFin_eq, Matrix.trace, Matrix.mul_apply, conjTranspose_apply, Conj.conj]

/-- the squared Frobenius norm is a non-negative real number -/
theorem frobSq_real (A : Mat ℂ m n) :
    frobSq A = ((∑ i, ∑ j, Complex.normSq (A i j) : ℝ) : ℂ) := by
  simp only [frobSq, sumFin_eq, Conj.conj]
  simp only [Complex.ofReal_sum]
  refine Finset.sum_congr rfl (fun i _ => ?_)
  refine Finset.sum_congr rfl (fun j _ => ?_)
  exact Complex.mul_conj (A i j)

theorem frobSq_re_nonneg (A : Mat ℂ m n) : 0 ≤ (frobSq A).re := by
  rw [frobSq_real, Complex.ofReal_re]
  exact Finset.sum_nonneg (fun i _ => Finset.sum_nonneg (fun j _ => Complex.normSq_nonneg _))

theorem frobSq_im (A : Mat ℂ m n) : (frobSq A).im = 0 := by
  rw [frobSq_real, Complex.ofReal_im]

end

end PyPhysim.C10
