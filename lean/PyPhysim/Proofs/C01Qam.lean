import Mathlib.Algebra.BigOperators.Group.List.Basic
import Mathlib.Algebra.BigOperators.Ring.List
import Mathlib.Data.List.Nodup
import Mathlib.Algebra.Order.Field.Basic
import Mathlib.Tactic.Ring
import Mathlib.Tactic.Linarith
import PyPhysim.Model.C01

/-! QAM integer grid: points pairwise distinct, total energy `2·L²·(L²−1)/3`. -/
namespace PyPhysim.C01
open List

theorem sum_range_mul (f : Nat → Int) (m n : Nat) :
    ((range (m*n)).map f).sum =
      ((range m).map (fun i => ((range n).map (fun j => f (i*n+j))).sum)).sum := by
  induction m with
  | zero => simp
  | succ m ih =>
    have e : (m+1)*n = m*n + n := by ring
    rw [e, List.range_add, List.map_append, List.sum_append, ih, List.sum_range_succ]
    simp [List.map_map, Function.comp_def]

/-- `3·Σ_{j<n} (2j − c)² = 2(n−1)n(2n−1) − 6c·n(n−1) + 3n·c²` -/
theorem sum_sq_affine (c : Int) (n : Nat) :
    3 * ((range n).map (fun (j : Nat) => (2 * (j:Int) - c) * (2 * (j:Int) - c))).sum
      = 2 * ((n:Int) - 1) * n * (2 * n - 1) - 6 * c * n * ((n:Int) - 1) + 3 * n * c * c := by
  induction n with
  | zero => simp
  | succ n ih =>
    rw [List.sum_range_succ, mul_add, ih]
    push_cast
    ring

theorem qam_energy (L : Nat) :
    3 * qamGridEnergy L = 2 * ((L:Int) * L) * ((L:Int) * L - 1) := by
  unfold qamGridEnergy qamGrid
  rw [List.map_map, sum_range_mul]
  rcases Nat.eq_zero_or_pos L with h0 | hL
  · subst h0; simp
  have inner : ∀ i, i < L → ((range L).map (fun j =>
      ((fun p : Int × Int => p.1 * p.1 + p.2 * p.2) ∘ qamGridPoint L) (i*L+j))).sum
      = ((range L).map (fun (j : Nat) => (2 * (j:Int) - ((L:Int) - 1)) * (2 * (j:Int) - ((L:Int) - 1)))).sum
        + L * ((2 * (i:Int) - ((L:Int) - 1)) * (2 * (i:Int) - ((L:Int) - 1))) := by
    intro i _
    have : ∀ j ∈ range L, ((fun p : Int × Int => p.1 * p.1 + p.2 * p.2) ∘ qamGridPoint L) (i*L+j)
        = (2 * (j:Int) - ((L:Int) - 1)) * (2 * (j:Int) - ((L:Int) - 1))
          + (2 * (i:Int) - ((L:Int) - 1)) * (2 * (i:Int) - ((L:Int) - 1)) := by
      intro j hj
      have hj' : j < L := List.mem_range.mp hj
      have hm : (i*L+j) % L = j := by rw [Nat.mul_comm, Nat.mul_add_mod]; exact Nat.mod_eq_of_lt hj'
      have hd : (i*L+j) / L = i := by
        rw [Nat.mul_comm, Nat.mul_add_div hL, Nat.div_eq_of_lt hj', Nat.add_zero]
      simp only [Function.comp, qamGridPoint, hm, hd]
      ring
    rw [List.map_congr_left this, List.sum_map_add]
    simp
  rw [List.map_congr_left (fun i hi => inner i (List.mem_range.mp hi)), List.sum_map_add]
  have hA := sum_sq_affine ((L:Int) - 1) L
  rw [List.sum_map_mul_left]
  simp only [List.map_const', List.sum_replicate, List.length_range, nsmul_eq_mul]
  generalize hS : ((range L).map (fun (j : Nat) => (2 * (j:Int) - ((L:Int) - 1)) * (2 * (j:Int) - ((L:Int) - 1)))).sum = S at *
  have : 3 * S = (L:Int) * ((L:Int) * L - 1) := by rw [hA]; ring
  nlinarith [this]

theorem qam_grid_inj (L : Nat) (hL : 0 < L) (a b : Nat) (h : qamGridPoint L a = qamGridPoint L b) : a = b := by
  simp only [qamGridPoint, Prod.mk.injEq] at h
  obtain ⟨h1, h2⟩ := h
  have hm : a % L = b % L := by omega
  have hd : a / L = b / L := by omega
  rw [← Nat.div_add_mod a L, ← Nat.div_add_mod b L, hm, hd]

theorem qam_grid_nodup (L : Nat) : (qamGrid L).Nodup := by
  unfold qamGrid
  rcases Nat.eq_zero_or_pos L with h0 | hL
  · subst h0; simp
  · exact List.Nodup.map_on (fun a _ b _ h => qam_grid_inj L hL a b h) List.nodup_range

end PyPhysim.C01
