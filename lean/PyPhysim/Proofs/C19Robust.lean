import PyPhysim.Proofs.C19State
import PyPhysim.Proofs.C19Border

set_option linter.unusedSectionVars false
set_option linter.unusedTactic false
set_option linter.unreachableTactic false

/-! C19 — robustness facts expressible on the model: rejected calls leave the object unchanged,
users follow every kind of move, the geometric tests are homogeneous (no hidden absolute scale). -/
namespace PyPhysim.C19
open PyPhysim.Proto

section field
variable {α : Type} [Field α] [LinearOrder α] [IsStrictOrderedRing α] [Circ α]

theorem callRun_rejected (inside : List (Pt α) → Pt α → Bool) (eps : α) (o : CellObj α) (c : Call α)
    (cs : List (Call α)) (e : PyErr) (h : callStep inside eps o c = .error e) :
    callRun inside eps o (c :: cs) = callRun inside eps o cs := by
  simp only [callRun, h]

theorem callRun_accepted (inside : List (Pt α) → Pt α → Bool) (eps : α) (o o' : CellObj α) (c : Call α)
    (cs : List (Call α)) (h : callStep inside eps o c = .ok o') :
    callRun inside eps o (c :: cs) = callRun inside eps o' cs := by
  simp only [callRun, h]

/-- users keep their position relative to the cell centre under `pos = ..`, `move_by_relative_coordinate`
    and `move_by_relative_polar_coordinate`, and are untouched by the `radius` / `rotation` setters -/
theorem users_follow (inside : List (Pt α) → Pt α → Bool) (eps : α) (o o' : CellObj α) (op : CellOp α)
    (h : callStep inside eps o (.set op) = .ok o') :
    o'.st = step o.st op ∧ o'.users.length = o.users.length ∧
    (op.isMove = true → ∀ (i : ℕ) (u : Pt α), (o.users[i]? : Option (Pt α)) = some u →
        ∃ u', o'.users[i]? = some u' ∧ psub u' o'.st.pos = psub u o.st.pos) ∧
    (op.isMove = false → o'.users = o.users) := by
  simp only [callStep, Except.ok.injEq] at h
  subst h
  refine ⟨rfl, ?_, ?_, ?_⟩
  · simp only; split_ifs <;> simp
  · intro hm i u hu
    simp only [hm, if_true, List.getElem?_map, hu, Option.map_some]
    refine ⟨_, rfl, ?_⟩
    simp only [psub, padd]; ext <;> simp <;> ring
  · intro hm; simp only [hm]; rfl

/-! ### homogeneity: scaling the whole input by `k > 0` scales the answers, nothing else changes -/

theorem cross_smul_smul (k : α) (p q : Pt α) : cross (smul k p) (smul k q) = k * k * cross p q := by
  simp only [cross, smul]; ring

theorem cross_smul_left (k : α) (p q : Pt α) : cross (smul k p) q = k * cross p q := by
  simp only [cross, smul]; ring

theorem cross_smul_right (k : α) (p q : Pt α) : cross p (smul k q) = k * cross p q := by
  simp only [cross, smul]; ring

theorem edgeStep_scale (k : α) (hk : 0 < k) (d a b : Pt α) :
    edgeStep d (smul k a, smul k b) = (edgeStep d (a, b)).map (fun t => k * t) := by
  unfold edgeStep
  simp only [Nat.cast_zero, cross_smul_left, cross_smul_right]
  have e1 : ∀ x : α, (0 ≤ k * x ↔ 0 ≤ x) := fun x => by
    constructor
    · intro h; by_contra hc; push Not at hc; nlinarith
    · intro h; positivity
  have e2 : ∀ x : α, (k * x ≤ 0 ↔ x ≤ 0) := fun x => by
    constructor
    · intro h; by_contra hc; push Not at hc; nlinarith
    · intro h; nlinarith
  have e3 : ∀ x y : α, (k * x < k * y ↔ x < y) := fun x y => by
    constructor
    · intro h; by_contra hc; push Not at hc; nlinarith
    · intro h; nlinarith
  simp only [e1, e2, e3]
  by_cases hc : ((0 ≤ cross a d ∧ cross b d ≤ 0) ∨ (cross a d ≤ 0 ∧ 0 ≤ cross b d)) ∧
      (cross a d < cross b d ∨ cross b d < cross a d)
  · rw [if_pos hc, if_pos hc]
    have hne : cross a d - cross b d ≠ 0 := by
      rcases hc.2 with h | h
      · exact ne_of_lt (by linarith)
      · exact ne_of_gt (by linarith)
    have et : k * (k * cross a b) / (k * cross a d - k * cross b d) = k * (cross a b / (cross a d - cross b d)) := by
      have hk' : k ≠ 0 := ne_of_gt hk
      field_simp
    rw [et]
    by_cases ht : 0 < cross a b / (cross a d - cross b d)
    · rw [if_pos ht, if_pos (mul_pos hk ht)]; rfl
    · have hn : ¬ 0 < k * (cross a b / (cross a d - cross b d)) := by
        push Not at ht ⊢; nlinarith
      rw [if_neg ht, if_neg hn]; rfl
  · rw [if_neg hc, if_neg hc]; rfl

theorem minOpt_scale (k : α) (hk : 0 < k) : ∀ l : List α, minOpt (l.map (fun t => k * t)) = (minOpt l).map (fun t => k * t)
  | [] => rfl
  | x :: xs => by
    simp only [List.map_cons, minOpt, minOpt_scale k hk xs]
    cases minOpt xs with
    | none => rfl
    | some m =>
      simp only [Option.map_some]
      by_cases h : m < x
      · rw [if_pos h, if_pos (mul_lt_mul_of_pos_left h hk)]
      · rw [if_neg h, if_neg]
        push Not at h ⊢
        exact mul_le_mul_of_nonneg_left h hk.le

/-- **scale covariance of the border search**: multiplying the polygon by `k > 0` multiplies the step
    to the border by `k` — no absolute tolerance decides which edge is hit -/
theorem borderStep_scale (k : α) (hk : 0 < k) (rel : List (Pt α)) (d : Pt α) :
    borderStep (rel.map (smul k)) d = (borderStep rel d).map (fun t => k * t) := by
  unfold borderStep
  rw [cyc_map, ← minOpt_scale k hk]
  congr 1
  induction cyc rel with
  | nil => rfl
  | cons e es ih =>
    simp only [List.map_cons, List.filterMap_cons]
    have := edgeStep_scale k hk d e.1 e.2
    rw [this]
    cases edgeStep d (e.1, e.2) with
    | none => simpa using ih
    | some t => simpa using ih

/-- **scale invariance of the containment test**: multiplying the rectangle and the query point by
    `k > 0` does not change the answer -/
theorem rectInside_scale (k : α) (hk : 0 < k) (r : Rect α) (u p : Pt α) :
    rectInside { pos := smul k r.pos, lower := smul k r.lower, upper := smul k r.upper } u (smul k p)
      = rectInside r u p := by
  rw [Bool.eq_iff_iff, rectInside_iff, rectInside_iff]
  simp only [psub, smul, rot, conj, cmul]
  have f1 : (k * p.1 - k * r.pos.1) * u.1 - (k * p.2 - k * r.pos.2) * -u.2
      = k * ((p.1 - r.pos.1) * u.1 - (p.2 - r.pos.2) * -u.2) := by ring
  have f2 : (k * p.1 - k * r.pos.1) * -u.2 + (k * p.2 - k * r.pos.2) * u.1
      = k * ((p.1 - r.pos.1) * -u.2 + (p.2 - r.pos.2) * u.1) := by ring
  have g : ∀ x y : α, k * x - k * y = k * (x - y) := fun x y => by ring
  have e : ∀ x y : α, (k * x ≤ k * y ↔ x ≤ y) := fun x y => by
    constructor
    · intro h; by_contra hc; push Not at hc; nlinarith
    · intro h; nlinarith
  rw [f1, f2]
  simp only [g, e]
end field

end PyPhysim.C19
