import Mathlib.Tactic.Ring
import Mathlib.Algebra.Order.Field.Rat
import Mathlib.Data.String.Basic
import PyPhysim.Model.C06Heap

/-! C06: parameter grids — `np.union1d`, the order of `get_unpacked_params_list`
and the row-major index computed by `get_pack_indexes`. -/
namespace PyPhysim.C06M
open PyPhysim.Proto

theorem mem_insertUniq (x y : Rat) (l : List Rat) : y ∈ insertUniq x l ↔ y = x ∨ y ∈ l := by
  induction l with
  | nil => simp [insertUniq]
  | cons z zs ih =>
    simp only [insertUniq]
    split
    · simp
    · split
      · rename_i h; subst h; simp
      · simp [ih]; tauto

theorem sorted_insertUniq (x : Rat) (l : List Rat) (h : l.Pairwise (· < ·)) :
    (insertUniq x l).Pairwise (· < ·) := by
  induction l with
  | nil => simp [insertUniq]
  | cons z zs ih =>
    simp only [insertUniq]
    obtain ⟨h1, h2⟩ := List.pairwise_cons.mp h
    split
    · rename_i hlt
      exact List.pairwise_cons.mpr ⟨fun a ha => by
        rcases List.mem_cons.mp ha with e | e
        · exact e ▸ hlt
        · exact lt_trans hlt (h1 a e), h⟩
    · split
      · exact h
      · rename_i hnl hne
        refine List.pairwise_cons.mpr ⟨fun a ha => ?_, ih h2⟩
        rcases (mem_insertUniq x a zs).mp ha with e | e
        · subst e; exact lt_of_le_of_ne (not_lt.mp hnl) (Ne.symm hne)
        · exact h1 a e

theorem mem_union1d (a b : List Rat) (x : Rat) : x ∈ union1d a b ↔ x ∈ a ∨ x ∈ b := by
  unfold union1d
  suffices ∀ l : List Rat, x ∈ l.foldr insertUniq [] ↔ x ∈ l by rw [this]; simp
  intro l
  induction l with
  | nil => simp
  | cons y ys ih => simp [List.foldr, mem_insertUniq, ih]

theorem sorted_union1d (a b : List Rat) : (union1d a b).Pairwise (· < ·) := by
  unfold union1d
  generalize a ++ b = l
  induction l with
  | nil => simp
  | cons y ys ih => exact sorted_insertUniq y _ ih

/-! ### the order of the parameter names -/

theorem perm_insertByName {α : Type} (e : String × α) (l : List (String × α)) :
    (insertByName e l).Perm (e :: l) := by
  induction l with
  | nil => exact List.Perm.refl _
  | cons x xs ih =>
    simp only [insertByName]
    split
    · exact List.Perm.refl _
    · exact (List.Perm.cons x ih).trans (List.Perm.swap e x xs)

theorem perm_sortByName {α : Type} (l : List (String × α)) : (sortByName l).Perm l := by
  induction l with
  | nil => exact List.Perm.refl _
  | cons x xs ih => exact (perm_insertByName x _).trans (List.Perm.cons x ih)

theorem sorted_insertByName {α : Type} (e : String × α) (l : List (String × α))
    (h : l.Pairwise (fun a b => a.1 ≤ b.1)) : (insertByName e l).Pairwise (fun a b => a.1 ≤ b.1) := by
  induction l with
  | nil => simp [insertByName]
  | cons x xs ih =>
    obtain ⟨h1, h2⟩ := List.pairwise_cons.mp h
    simp only [insertByName]
    split
    · rename_i hlt
      refine List.pairwise_cons.mpr ⟨fun a ha => ?_, h⟩
      rcases List.mem_cons.mp ha with e' | e'
      · exact e' ▸ le_of_lt hlt
      · exact le_trans (le_of_lt hlt) (h1 a e')
    · rename_i hnl
      refine List.pairwise_cons.mpr ⟨fun a ha => ?_, ih h2⟩
      rcases List.mem_cons.mp ((perm_insertByName e xs).mem_iff.mp ha) with hae | hae
      · exact hae ▸ not_lt.mp hnl
      · exact h1 a hae

theorem sorted_sortByName {α : Type} (l : List (String × α)) :
    (sortByName l).Pairwise (fun a b => a.1 ≤ b.1) := by
  induction l with
  | nil => simp [sortByName]
  | cons x xs ih => exact sorted_insertByName x _ ih

/-! ### product order and pack index -/

theorem length_product (vals : List (List Rat)) : (product vals).length = dimsProd vals := by
  induction vals with
  | nil => rfl
  | cons vs rest ih =>
    simp only [product, dimsProd]
    induction vs with
    | nil => simp
    | cons v vs' ihv => simp [List.flatMap_cons, ih, ihv, Nat.succ_mul, Nat.add_comm]

theorem mem_product (vals : List (List Rat)) (c : List Rat) :
    c ∈ product vals ↔ List.Forall₂ (· ∈ ·) c vals := by
  induction vals generalizing c with
  | nil =>
    cases c with
    | nil => simp [product]
    | cons x xs => simp only [product, List.mem_singleton]; constructor
                   · intro h; cases h
                   · intro h; cases h
  | cons vs rest ih =>
    simp only [product, List.mem_flatMap, List.mem_map]
    constructor
    · rintro ⟨v, hv, cs, hcs, rfl⟩
      exact List.Forall₂.cons hv ((ih cs).mp hcs)
    · intro h
      cases h with
      | cons hv hrest => exact ⟨_, hv, _, (ih _).mpr hrest, rfl⟩

theorem indexOf?_some {x : Rat} {l : List Rat} {i : Nat} (h : indexOf? x l = some i) : l[i]? = some x := by
  induction l generalizing i with
  | nil => simp [indexOf?] at h
  | cons y ys ih =>
    simp only [indexOf?] at h
    split at h
    · rename_i e; cases h; simp [e]
    · cases hi : indexOf? x ys with
      | none => simp [hi] at h
      | some j => simp [hi] at h; subst h; simpa using ih hi

theorem indexOf?_none {x : Rat} {l : List Rat} (h : indexOf? x l = none) : x ∉ l := by
  induction l with
  | nil => simp
  | cons y ys ih =>
    simp only [indexOf?] at h
    split at h
    · cases h
    · rename_i hne
      cases hi : indexOf? x ys with
      | none => simp [ih hi, Ne.symm hne]
      | some j => simp [hi] at h

/-- position inside a `flatMap` with blocks of equal length -/
theorem getElem?_flatMap_block {α β} (f : α → List β) (n : Nat) (l : List α) (hlen : ∀ a ∈ l, (f a).length = n)
    (i j : Nat) (hj : j < n) (a : α) (hi : l[i]? = some a) :
    (l.flatMap f)[i * n + j]? = (f a)[j]? := by
  induction l generalizing i with
  | nil => simp at hi
  | cons x xs ih =>
    cases i with
    | zero =>
      simp at hi; subst hi
      simp only [List.flatMap_cons, Nat.zero_mul, Nat.zero_add]
      exact List.getElem?_append_left (by rw [hlen x (by simp)]; exact hj)
    | succ i =>
      simp at hi
      simp only [List.flatMap_cons]
      have hx : (f x).length = n := hlen x (by simp)
      rw [List.getElem?_append_right (by rw [hx, Nat.succ_mul]; omega)]
      have : (i + 1) * n + j - (f x).length = i * n + j := by rw [hx, Nat.succ_mul]; omega
      rw [this]
      exact ih (fun a ha => hlen a (by simp [ha])) i hi

/-- `get_pack_indexes` points at the combination in the enumeration order of
    `get_unpacked_params_list` -/
theorem packIndex_ok (vals : List (List Rat)) (c : List Rat) (i : Nat) (hlen : c.length = vals.length)
    (h : packIndex vals c = .ok i) : (product vals)[i]? = some c := by
  induction vals generalizing c i with
  | nil =>
    cases c with
    | nil => simp [packIndex] at h; subst h; rfl
    | cons _ _ => simp at hlen
  | cons vs rest ih =>
    cases c with
    | nil => simp at hlen
    | cons x cs =>
      simp only [packIndex] at h
      cases hi : indexOf? x vs with
      | none => simp [hi] at h
      | some i0 =>
        simp only [hi] at h
        cases hj : packIndex rest cs with
        | error e => simp [hj] at h
        | ok j =>
          simp only [hj] at h
          cases h
          have hcs := ih cs j (by simpa using hlen) hj
          have hjlt : j < dimsProd rest := by
            rw [← length_product]
            rcases Nat.lt_or_ge j (product rest).length with h | h
            · exact h
            · rw [List.getElem?_eq_none h] at hcs; cases hcs
          simp only [product]
          rw [getElem?_flatMap_block _ (dimsProd rest) vs (fun a _ => by simp [length_product]) i0 j hjlt x
            (indexOf?_some hi)]
          simp [hcs]

/-- … and fails with `ValueError` exactly when a value of the combination is absent -/
theorem packIndex_error (vals : List (List Rat)) (c : List Rat) (e : PyErr) (hlen : c.length = vals.length)
    (h : packIndex vals c = .error e) : e = .ValueError ∧ c ∉ product vals := by
  induction vals generalizing c with
  | nil =>
    cases c with
    | nil => simp [packIndex] at h
    | cons _ _ => simp at hlen
  | cons vs rest ih =>
    cases c with
    | nil => simp at hlen
    | cons x cs =>
      simp only [packIndex] at h
      cases hi : indexOf? x vs with
      | none =>
        simp only [hi] at h
        cases h
        refine ⟨rfl, fun hm => ?_⟩
        rw [mem_product] at hm
        cases hm with
        | cons hv _ => exact indexOf?_none hi hv
      | some i0 =>
        simp only [hi] at h
        cases hj : packIndex rest cs with
        | ok j => simp [hj] at h
        | error e' =>
          simp only [hj] at h
          cases h
          obtain ⟨h1, h2⟩ := ih cs (by simpa using hlen) hj
          refine ⟨h1, fun hm => h2 ?_⟩
          rw [mem_product] at hm ⊢
          cases hm with
          | cons _ hrest => exact hrest

end PyPhysim.C06M
