import PyPhysim.Proofs.C10Leak

/-!
Alternating minimisation: the cost `Σ_{k≠l} ‖(I − C_k C_kᴴ) H_kl full_F_l‖²` written
once as a function of the precoders and once as a function of the interference
bases, and the resulting descent of one iteration.
-/
set_option linter.unusedSectionVars false
set_option linter.unusedVariables false
set_option linter.unusedSimpArgs false
namespace PyPhysim.C10
open Matrix
open scoped ComplexOrder

variable {K : Nat} {d : Dims K}

theorem toM_altMinY (C : Basis ℂ d) (k : Fin K) :
    toM (altMinY C k) = 1 - toM (C k) * (toM (C k))ᴴ := by
  simp only [altMinY, toM_msub, toM_eye, toM_matMul, toM_cT]

/-- `I − C Cᴴ` is a Hermitian idempotent when the columns of `C` are orthonormal -/
theorem altMinY_proj (C : Basis ℂ d) (k : Fin K) (hC : (toM (C k))ᴴ * toM (C k) = 1) :
    (toM (altMinY C k))ᴴ = toM (altMinY C k) ∧ toM (altMinY C k) * toM (altMinY C k) = toM (altMinY C k) := by
  rw [toM_altMinY]
  constructor
  · simp [conjTranspose_sub, conjTranspose_mul]
  · have : toM (C k) * (toM (C k))ᴴ * (toM (C k) * (toM (C k))ᴴ) = toM (C k) * (toM (C k))ᴴ := by
      rw [Matrix.mul_assoc, ← Matrix.mul_assoc (toM (C k))ᴴ, hC, Matrix.one_mul]
    simp only [Matrix.sub_mul, Matrix.mul_sub, Matrix.one_mul, Matrix.mul_one, this]
    abel

/-- one term of the cost: `‖X − C Cᴴ X‖²_F = tr(Xᴴ (I − C Cᴴ) X)` for orthonormal `C` -/
theorem altMin_term {a b c : Nat} (X : Mat ℂ a b) (Cm : Mat ℂ a c)
    (hC : (toM Cm)ᴴ * toM Cm = 1) :
    frobSq (msub X (matMul (matMul Cm (cT Cm)) X))
      = Matrix.trace ((toM X)ᴴ * (1 - toM Cm * (toM Cm)ᴴ) * toM X) := by
  rw [frobSq_eq]
  simp only [toM_msub, toM_matMul, toM_cT]
  set Y : Matrix (Fin a) (Fin a) ℂ := 1 - toM Cm * (toM Cm)ᴴ with hY
  have e : toM X - toM Cm * (toM Cm)ᴴ * toM X = Y * toM X := by
    rw [hY, Matrix.sub_mul, Matrix.one_mul]
  have hH : Yᴴ = Y := by simp [hY, conjTranspose_sub, conjTranspose_mul]
  have hI : Y * Y = Y := by
    have : toM Cm * (toM Cm)ᴴ * (toM Cm * (toM Cm)ᴴ) = toM Cm * (toM Cm)ᴴ := by
      rw [Matrix.mul_assoc, ← Matrix.mul_assoc (toM Cm)ᴴ, hC, Matrix.one_mul]
    simp only [hY, Matrix.sub_mul, Matrix.mul_sub, Matrix.one_mul, Matrix.mul_one, this]
    abel
  rw [e, conjTranspose_mul, hH, Matrix.trace_mul_comm]
  have : (toM X)ᴴ * Y * (Y * toM X) = (toM X)ᴴ * (Y * Y) * toM X := by simp only [Matrix.mul_assoc]
  rw [this, hI]

/-- `get_cost()` of the alternating-minimisation solver, term by term -/
theorem altMinCost_eq (H : Chan ℂ d) (fF : Prec ℂ d) (C : Basis ℂ d)
    (hC : ∀ k, (toM (C k))ᴴ * toM (C k) = 1) :
    altMinCost H fF C = ∑ k, ∑ l, if k = l then 0 else
      Matrix.trace ((toM (H k l) * toM (fF l))ᴴ * (1 - toM (C k) * (toM (C k))ᴴ) * (toM (H k l) * toM (fF l))) := by
  unfold altMinCost
  rw [sumFin_eq]
  refine Finset.sum_congr rfl (fun k _ => ?_)
  rw [sumFin_eq]
  refine Finset.sum_congr rfl (fun l _ => ?_)
  split
  · rfl
  · rw [altMin_term _ _ (hC k), toM_matMul]

/-- the cost as a function of the precoders: `Σ_l tr(full_F_lᴴ M_l full_F_l)` with the matrix
    `M_l = Σ_{k≠l} H_klᴴ (I − C_k C_kᴴ) H_kl` whose least eigenvectors `_updateF` takes -/
theorem altMinCost_as_F (H : Chan ℂ d) (fF : Prec ℂ d) (C : Basis ℂ d)
    (hC : ∀ k, (toM (C k))ᴴ * toM (C k) = 1) :
    altMinCost H fF C = ∑ l, Matrix.trace ((toM (fF l))ᴴ * toM (altMinFMat H C l) * toM (fF l)) := by
  rw [altMinCost_eq H fF C hC, Finset.sum_comm]
  refine Finset.sum_congr rfl (fun l _ => ?_)
  have hM : toM (altMinFMat H C l)
      = ∑ k, if k = l then 0 else (toM (H k l))ᴴ * (1 - toM (C k) * (toM (C k))ᴴ) * toM (H k l) := by
    unfold altMinFMat
    rw [toM_msum]
    refine Finset.sum_congr rfl (fun k _ => ?_)
    split
    · exact toM_mzero
    · simp only [toM_matMul, toM_cT, toM_altMinY]
  rw [hM, Matrix.mul_sum, Matrix.sum_mul, Matrix.trace_sum]
  refine Finset.sum_congr rfl (fun k _ => ?_)
  split
  · simp
  · simp only [conjTranspose_mul, Matrix.mul_assoc]

/-- the cost as a function of the interference bases: `Σ_k (tr Q_k − tr(C_kᴴ Q_k C_k))` with the
    interference covariance `Q_k` whose dominant eigenvectors `_updateC` takes -/
theorem altMinCost_as_C (H : Chan ℂ d) (fF : Prec ℂ d) (C : Basis ℂ d)
    (hC : ∀ k, (toM (C k))ᴴ * toM (C k) = 1) :
    altMinCost H fF C = ∑ k, (Matrix.trace (toM (calcQ H fF k))
        - Matrix.trace ((toM (C k))ᴴ * toM (calcQ H fF k) * toM (C k))) := by
  rw [altMinCost_eq H fF C hC]
  refine Finset.sum_congr rfl (fun k _ => ?_)
  rw [toM_calcQ, Matrix.mul_sum, Matrix.sum_mul, Matrix.trace_sum, Matrix.trace_sum, ← Finset.sum_sub_distrib]
  refine Finset.sum_congr rfl (fun l _ => ?_)
  by_cases h : k = l
  · subst h
    simp only [if_true, Matrix.mul_zero, Matrix.zero_mul, Matrix.trace_zero, sub_zero]
  · have h' : ¬ l = k := fun e => h e.symm
    simp only [h, h', if_false]
    set X := toM (H k l) * toM (fF l) with hX
    set Cm := toM (C k) with hCm
    rw [Matrix.mul_sub, Matrix.sub_mul, Matrix.mul_one, Matrix.trace_sub]
    congr 1
    · exact Matrix.trace_mul_comm _ _
    · have e1 : Xᴴ * (Cm * Cmᴴ) * X = (Xᴴ * Cm) * (Cmᴴ * X) := by simp only [Matrix.mul_assoc]
      have e2 : Cmᴴ * (X * Xᴴ) * Cm = (Cmᴴ * X) * (Xᴴ * Cm) := by simp only [Matrix.mul_assoc]
      rw [e1, e2, Matrix.trace_mul_comm]

/-- one iteration of alternating minimisation (`_updateF` then `_updateC`) as two families of
    per-user inequalities (what the `leig` / `peig` calls guarantee against the current iterate,
    see `kyfan_min`): the total leakage out of the interference subspaces does not increase —
    for every vector of non-negative powers. -/
theorem altmin_step_le (H : Chan ℂ d) (F F' : Prec ℂ d) (C C' : Basis ℂ d) (P : Fin K → ℝ)
    (hP : ∀ l, 0 ≤ P l)
    (hC : ∀ k, (toM (C k))ᴴ * toM (C k) = 1) (hC' : ∀ k, (toM (C' k))ᴴ * toM (C' k) = 1)
    (hF : ∀ l, (Matrix.trace ((toM (F' l))ᴴ * toM (altMinFMat H C l) * toM (F' l))).re
             ≤ (Matrix.trace ((toM (F l))ᴴ * toM (altMinFMat H C l) * toM (F l))).re)
    (hCC : ∀ k, (Matrix.trace ((toM (C k))ᴴ * toM (calcQ H (fullF F' (fun l => (P l : ℂ))) k) * toM (C k))).re
             ≤ (Matrix.trace ((toM (C' k))ᴴ * toM (calcQ H (fullF F' (fun l => (P l : ℂ))) k) * toM (C' k))).re) :
    (altMinCost H (fullF F' (fun l => (P l : ℂ))) C').re ≤ (altMinCost H (fullF F (fun l => (P l : ℂ))) C).re := by
  have scale : ∀ (G : Prec ℂ d) (l : Fin K),
      (Matrix.trace ((toM (fullF G (fun l => (P l : ℂ)) l))ᴴ * toM (altMinFMat H C l)
          * toM (fullF G (fun l => (P l : ℂ)) l))).re
        = P l * (Matrix.trace ((toM (G l))ᴴ * toM (altMinFMat H C l) * toM (G l))).re := by
    intro G l
    rw [toM_fullF]
    simp only [conjTranspose_smul, Matrix.smul_mul, Matrix.mul_smul, Matrix.trace_smul, smul_eq_mul]
    rw [← mul_assoc, sqrt_mul_star (P l) (hP l), Complex.re_ofReal_mul]
  calc (altMinCost H (fullF F' (fun l => (P l : ℂ))) C').re
      ≤ (altMinCost H (fullF F' (fun l => (P l : ℂ))) C).re := by
        rw [altMinCost_as_C H _ C' hC', altMinCost_as_C H _ C hC, Complex.re_sum, Complex.re_sum]
        refine Finset.sum_le_sum (fun k _ => ?_)
        simp only [Complex.sub_re]
        linarith [hCC k]
    _ ≤ (altMinCost H (fullF F (fun l => (P l : ℂ))) C).re := by
        rw [altMinCost_as_F H _ C hC, altMinCost_as_F H _ C hC, Complex.re_sum, Complex.re_sum]
        refine Finset.sum_le_sum (fun l _ => ?_)
        rw [scale F' l, scale F l]
        exact mul_le_mul_of_nonneg_left (hF l) (hP l)

end PyPhysim.C10
