import Mathlib.Analysis.SpecialFunctions.Log.Base
import Mathlib.Data.List.FinRange
import PyPhysim.Proofs.C12Alloc

/-!
# C12 helper lemmas, part 3: theory of water-filling solutions

Independent of the algorithm: everything here is about `IsWaterFilling`.

* `IsWaterFilling.mu_pos`
* `IsWaterFilling.unique`   — the pair `(p, μ)` is determined by `g, P, N, Es` when `0 < P`
* `IsWaterFilling.of_perm`  — invariance under permutation of the channels
* `IsWaterFilling.optimal`  — (ℝ) capacity optimality via concavity of `log` (KKT)
-/
namespace PyPhysim.C12
open PyPhysim.Proto

set_option linter.unusedSectionVars false

section field
variable {α : Type} [Field α] [LinearOrder α] [IsStrictOrderedRing α]
variable {g p p' : List α} {P N Es mu mu' : α}

/-- some channel gets power when `0 < P` -/
theorem IsWaterFilling.exists_pos (h : IsWaterFilling g P N Es p mu) (hP : 0 < P) :
    ∃ x ∈ g, 0 < max 0 (mu - N / (Es * x)) := by
  have hs := h.sum
  rw [h.form] at hs
  have : (g.map (fun _ : α => (0 : α))).sum
      < (g.map (fun x => max 0 (mu - N / (Es * x)))).sum := by
    rw [hs]; simpa using hP
  exact List.exists_lt_of_sum_lt _ _ this

theorem IsWaterFilling.mu_pos (h : IsWaterFilling g P N Es p mu) (hP : 0 < P)
    (hg : ∀ x ∈ g, 0 < x) (hN : 0 < N) (hEs : 0 < Es) : 0 < mu := by
  obtain ⟨x, hx, hpos⟩ := h.exists_pos hP
  have ha : 0 < N / (Es * x) := div_pos hN (mul_pos hEs (hg x hx))
  rcases lt_max_iff.mp hpos with h0 | h1
  · exact absurd h0 (lt_irrefl _)
  · linarith

theorem IsWaterFilling.level_not_lt (h : IsWaterFilling g P N Es p mu)
    (h' : IsWaterFilling g P N Es p' mu') (hP : 0 < P) : ¬ mu < mu' := by
  intro hlt
  obtain ⟨x, hx, hpos⟩ := h'.exists_pos hP
  have hs := h.sum
  have hs' := h'.sum
  rw [h.form] at hs
  rw [h'.form] at hs'
  have : (g.map (fun x => max 0 (mu - N / (Es * x)))).sum
      < (g.map (fun x => max 0 (mu' - N / (Es * x)))).sum := by
    apply List.sum_lt_sum
    · intro y _
      exact max_le_max le_rfl (by linarith)
    · refine ⟨x, hx, max_lt hpos ?_⟩
      exact lt_of_lt_of_le (by linarith) (le_max_right _ _)
  rw [hs, hs'] at this
  exact lt_irrefl _ this

/-- the water-filling pair is unique -/
theorem IsWaterFilling.unique (h : IsWaterFilling g P N Es p mu)
    (h' : IsWaterFilling g P N Es p' mu') (hP : 0 < P) : p = p' ∧ mu = mu' := by
  have e : mu = mu' := le_antisymm (not_lt.mp (h'.level_not_lt h hP)) (not_lt.mp (h.level_not_lt h' hP))
  refine ⟨?_, e⟩
  rw [h.form, h'.form, e]

/-- a water-filling level for `g` is one for every rearrangement of `g` -/
theorem IsWaterFilling.of_perm {g' : List α} (hperm : g'.Perm g) (h : IsWaterFilling g P N Es p mu) :
    IsWaterFilling g' P N Es (g'.map (fun x => max 0 (mu - N / (Es * x)))) mu := by
  refine ⟨rfl, ?_⟩
  rw [(hperm.map _).sum_eq, ← h.form, h.sum]

/-! ### change of units (R6): the solution scales with the inputs -/

/-- total power and noise variance expressed in another unit (`× s`): allocation and level
    are expressed in that unit too -/
theorem IsWaterFilling.scale_power_noise {s : α} (hs : 0 < s) (h : IsWaterFilling g P N Es p mu) :
    IsWaterFilling g (s * P) (s * N) Es (p.map (fun y => s * y)) (s * mu) := by
  have hform : p.map (fun y => s * y) = g.map (fun x => max 0 (s * mu - s * N / (Es * x))) := by
    rw [h.form, List.map_map]
    apply List.map_congr_left
    intro x _
    simp only [Function.comp]
    rw [mul_max_of_nonneg _ _ hs.le, mul_zero, mul_sub, mul_div_assoc]
  refine ⟨hform, ?_⟩
  rw [List.sum_map_mul_left, List.map_id', h.sum]

/-- gains and noise variance multiplied by the same factor: nothing changes -/
theorem IsWaterFilling.scale_gain_noise {s : α} (hs : 0 < s)
    (h : IsWaterFilling g P N Es p mu) :
    IsWaterFilling (g.map (fun x => s * x)) P (s * N) Es p mu := by
  refine ⟨?_, h.sum⟩
  rw [h.form, List.map_map]
  apply List.map_congr_left
  intro x _
  simp only [Function.comp]
  congr 2
  rw [← mul_assoc, mul_comm Es s, mul_assoc, mul_div_mul_left _ _ hs.ne']

/-- gains divided and symbol energy multiplied by the same factor: nothing changes -/
theorem IsWaterFilling.scale_gain_energy {s : α} (hs : 0 < s)
    (h : IsWaterFilling g P N Es p mu) :
    IsWaterFilling (g.map (fun x => x / s)) P N (s * Es) p mu := by
  refine ⟨?_, h.sum⟩
  rw [h.form, List.map_map]
  apply List.map_congr_left
  intro x _
  simp only [Function.comp]
  congr 3
  field_simp

end field

/-! ### optimality over ℝ -/

theorem log_diff_le {x y : ℝ} (hx : 0 < x) (hy : 0 < y) :
    Real.log y - Real.log x ≤ (y - x) / x := by
  have h := Real.log_le_sub_one_of_pos (div_pos hy hx)
  rw [Real.log_div hy.ne' hx.ne'] at h
  have : y / x - 1 = (y - x) / x := by field_simp
  linarith [this ▸ h]

/-- spectral efficiency of one channel with gain `x` and power `y` -/
noncomputable def chanCap (N Es x y : ℝ) : ℝ := Real.logb 2 (1 + x * Es * y / N)

/-- `Σ log₂(1 + g·Es·q/N)` -/
noncomputable def capacity (N Es : ℝ) (g q : List ℝ) : ℝ := (List.zipWith (chanCap N Es) g q).sum

/-- tangent bound at the water-filling point (KKT + concavity of `log`) -/
theorem chanCap_tangent {N Es mu x y : ℝ} (hN : 0 < N) (hEs : 0 < Es) (hmu : 0 < mu)
    (hx : 0 < x) (hy : 0 ≤ y) :
    chanCap N Es x y ≤ chanCap N Es x (max 0 (mu - N / (Es * x)))
      + 1 / (mu * Real.log 2) * (y - max 0 (mu - N / (Es * x))) := by
  have hl2 : 0 < Real.log 2 := Real.log_pos (by norm_num)
  have hc : 0 < x * Es / N := div_pos (mul_pos hx hEs) hN
  have hy1 : 0 < 1 + x * Es * y / N := by
    have : 0 ≤ x * Es * y / N := div_nonneg (mul_nonneg (mul_pos hx hEs).le hy) hN.le
    linarith
  have hphi : 0 ≤ max 0 (mu - N / (Es * x)) := le_max_left _ _
  have hp1 : 0 < 1 + x * Es * (max 0 (mu - N / (Es * x))) / N := by
    have : 0 ≤ x * Es * (max 0 (mu - N / (Es * x))) / N :=
      div_nonneg (mul_nonneg (mul_pos hx hEs).le hphi) hN.le
    linarith
  have hlog : Real.log (1 + x * Es * y / N)
      - Real.log (1 + x * Es * (max 0 (mu - N / (Es * x))) / N)
      ≤ 1 / mu * (y - max 0 (mu - N / (Es * x))) := by
    rcases le_total (mu - N / (Es * x)) 0 with hle | hge
    · rw [max_eq_left hle]
      simp only [mul_zero, zero_div, add_zero, Real.log_one, sub_zero]
      have h1 : Real.log (1 + x * Es * y / N) ≤ x * Es * y / N := by
        have := Real.log_le_sub_one_of_pos hy1
        linarith
      have h2 : x * Es / N ≤ 1 / mu := by
        have hmule : mu ≤ N / (Es * x) := by linarith
        rw [div_le_div_iff₀ hN hmu]
        have := (le_div_iff₀ (mul_pos hEs hx)).mp hmule
        nlinarith
      calc Real.log (1 + x * Es * y / N) ≤ x * Es * y / N := h1
        _ = x * Es / N * y := by ring
        _ ≤ 1 / mu * y := mul_le_mul_of_nonneg_right h2 hy
    · rw [max_eq_right hge]
      have hval : 1 + x * Es * (mu - N / (Es * x)) / N = x * Es / N * mu := by
        field_simp; ring
      have hd := log_diff_le (hval ▸ mul_pos hc hmu) hy1
      rw [hval] at hd ⊢
      have : (1 + x * Es * y / N - x * Es / N * mu) / (x * Es / N * mu)
          = 1 / mu * (y - (mu - N / (Es * x))) := by
        field_simp; ring
      rw [this] at hd
      exact hd
  unfold chanCap
  rw [← Real.log_div_log, ← Real.log_div_log]
  have : 1 / (mu * Real.log 2) * (y - max 0 (mu - N / (Es * x)))
      = (1 / mu * (y - max 0 (mu - N / (Es * x)))) / Real.log 2 := by
    field_simp
  rw [this, ← add_div]
  apply div_le_div_of_nonneg_right _ hl2.le
  linarith

theorem capacity_map (N Es : ℝ) (f : ℝ → ℝ) (g : List ℝ) :
    capacity N Es g (g.map f) = (g.map (fun x => chanCap N Es x (f x))).sum := by
  unfold capacity
  induction g with
  | nil => rfl
  | cons a g ih => simp only [List.map_cons, List.zipWith_cons_cons, List.sum_cons, ih]

theorem capacity_le_tangent {N Es mu : ℝ} (hN : 0 < N) (hEs : 0 < Es) (hmu : 0 < mu) :
    ∀ (g q : List ℝ), (∀ x ∈ g, 0 < x) → q.length = g.length → (∀ y ∈ q, 0 ≤ y) →
      capacity N Es g q ≤ (g.map (fun x => chanCap N Es x (max 0 (mu - N / (Es * x))))).sum
        + 1 / (mu * Real.log 2) * (q.sum - (g.map (fun x => max 0 (mu - N / (Es * x)))).sum) := by
  intro g
  induction g with
  | nil =>
    intro q _ hlen _
    have : q = [] := List.length_eq_zero_iff.mp hlen
    subst this
    simp [capacity]
  | cons x g ih =>
    intro q hg hlen hq
    cases q with
    | nil => simp at hlen
    | cons y q =>
      have hx := hg x (by simp)
      have hy := hq y (by simp)
      have h1 := chanCap_tangent hN hEs hmu hx hy
      have h2 := ih q (fun z hz => hg z (List.mem_cons_of_mem _ hz)) (by simpa using hlen)
        (fun z hz => hq z (List.mem_cons_of_mem _ hz))
      simp only [capacity, List.zipWith_cons_cons, List.sum_cons, List.map_cons] at h2 ⊢
      nlinarith [h1, h2]

/-- no feasible allocation beats a water-filling solution -/
theorem IsWaterFilling.optimal {g p q : List ℝ} {P N Es mu : ℝ}
    (h : IsWaterFilling g P N Es p mu) (hP : 0 < P) (hg : ∀ x ∈ g, 0 < x) (hN : 0 < N)
    (hEs : 0 < Es) (hlen : q.length = g.length) (hq : ∀ y ∈ q, 0 ≤ y) (hqs : q.sum = P) :
    capacity N Es g q ≤ capacity N Es g p := by
  have hmu := h.mu_pos hP hg hN hEs
  have := capacity_le_tangent hN hEs hmu g q hg hlen hq
  have hs := h.sum
  rw [h.form] at hs
  rw [hqs, hs, sub_self, mul_zero, add_zero] at this
  rw [h.form, capacity_map]
  exact this

end PyPhysim.C12
