import PyPhysim.Proofs.C06Heap

/-! C06, set level: what the merge loop of `merge_all_results` computes per name. -/
namespace PyPhysim.C06M
open PyPhysim.Proto

theorem mergeR_ok {m : Mach} {a b : Nat} {ra rb : Res} (ha : m.res[a]? = some ra)
    (hb : m.res[b]? = some rb) (hc : Compat ra rb) :
    mergeR m a b = (setRes m a (mergeCore ra rb), none) := by
  simp [mergeR, ha, hb, merge_ok hc]

theorem setRes_get_self {m : Mach} {a : Nat} {r r' : Res} (ha : m.res[a]? = some r) :
    (setRes m a r').res[a]? = some r' := by
  have hlt : a < m.res.length := by
    rcases Nat.lt_or_ge a m.res.length with h | h
    · exact h
    · rw [List.getElem?_eq_none h] at ha; cases ha
  simp [setRes, hlt]

theorem setRes_get_ne {m : Mach} {a a' : Nat} {r' : Res} (h : a' ≠ a) :
    (setRes m a r').res[a']? = m.res[a']? := by
  simp [setRes, Ne.symm h]

/-- the loop over the names of `self`: every last result of `self` becomes the merge of itself
    with the last result of `other` of the same name; nothing else changes; nothing raises -/
theorem mergeNames_pointwise (ds od : Dict) (A B : String → Nat) (names : List String) (m : Mach)
    (hnd : names.Nodup) (hnsr : nsr ∉ names)
    (hA : ∀ nm ∈ names, lastOf m ds nm = .ok (A nm))
    (hB : ∀ nm ∈ names, lastOf m od nm = .ok (B nm))
    (hinj : ∀ n1 ∈ names, ∀ n2 ∈ names, A n1 = A n2 → n1 = n2)
    (hsep : ∀ n1 ∈ names, ∀ n2 ∈ names, A n1 ≠ B n2)
    (hc : ∀ nm ∈ names, ∃ ra rb, m.res[A nm]? = some ra ∧ m.res[B nm]? = some rb ∧ Compat ra rb) :
    (mergeNames ds od m names).2 = none
      ∧ (∀ nm ∈ names, ∀ ra rb, m.res[A nm]? = some ra → m.res[B nm]? = some rb →
            (mergeNames ds od m names).1.res[A nm]? = some (mergeCore ra rb))
      ∧ (∀ a, (∀ nm ∈ names, a ≠ A nm) → (mergeNames ds od m names).1.res[a]? = m.res[a]?) := by
  induction names generalizing m with
  | nil => exact ⟨rfl, fun _ h => absurd h (List.not_mem_nil), fun _ _ => rfl⟩
  | cons nm rest ih =>
    have hne : nm ≠ nsr := fun e => hnsr (e ▸ List.mem_cons_self)
    obtain ⟨ra, rb, hra, hrb, hcab⟩ := hc nm List.mem_cons_self
    have hnm_rest : nm ∉ rest := (List.nodup_cons.mp hnd).1
    have hAne : ∀ n2 ∈ rest, A n2 ≠ A nm := fun n2 h2 e =>
      hnm_rest ((hinj n2 (List.mem_cons_of_mem _ h2) nm List.mem_cons_self e) ▸ h2)
    have hBne : ∀ n2 ∈ rest, B n2 ≠ A nm := fun n2 h2 e =>
      hsep nm List.mem_cons_self n2 (List.mem_cons_of_mem _ h2) e.symm
    -- one step
    have hstep : mergeNames ds od m (nm :: rest)
        = mergeNames ds od (setRes m (A nm) (mergeCore ra rb)) rest := by
      rw [mergeNames]
      simp only [hne, if_false, hA nm List.mem_cons_self, hB nm List.mem_cons_self,
        mergeR_ok hra hrb hcab]
    set m' := setRes m (A nm) (mergeCore ra rb) with hm'
    have hl' : m'.lists = m.lists := rfl
    obtain ⟨i1, i2, i3⟩ := ih m' (List.nodup_cons.mp hnd).2
      (fun h => hnsr (List.mem_cons_of_mem _ h))
      (fun n h => by rw [lastOf_congr hl']; exact hA n (List.mem_cons_of_mem _ h))
      (fun n h => by rw [lastOf_congr hl']; exact hB n (List.mem_cons_of_mem _ h))
      (fun n1 h1 n2 h2 => hinj n1 (List.mem_cons_of_mem _ h1) n2 (List.mem_cons_of_mem _ h2))
      (fun n1 h1 n2 h2 => hsep n1 (List.mem_cons_of_mem _ h1) n2 (List.mem_cons_of_mem _ h2))
      (fun n h => by
        obtain ⟨xa, xb, h1, h2, h3⟩ := hc n (List.mem_cons_of_mem _ h)
        exact ⟨xa, xb, by rw [setRes_get_ne (hAne n h)]; exact h1,
          by rw [setRes_get_ne (hBne n h)]; exact h2, h3⟩)
    rw [hstep]
    refine ⟨i1, ?_, ?_⟩
    · intro n hn xa xb hxa hxb
      rcases List.mem_cons.mp hn with h | h
      · subst h
        rw [hra] at hxa; rw [hrb] at hxb; cases hxa; cases hxb
        rw [i3 (A n) (fun n2 h2 => (hAne n2 h2).symm)]
        exact setRes_get_self hra
      · exact i2 n h xa xb (by rw [setRes_get_ne (hAne n h)]; exact hxa)
          (by rw [setRes_get_ne (hBne n h)]; exact hxb)
    · intro a ha
      rw [i3 a (fun n h => ha n (List.mem_cons_of_mem _ h))]
      exact setRes_get_ne (ha nm List.mem_cons_self)

theorem mergeNsr_absent (m : Mach) (s o : Nat) (h : dictGet? (dictOf m o) nsr = none) :
    mergeNsr m s o = (m, none) := by
  simp [mergeNsr, h]

theorem mergeGuard_none {a b : Res} (h : Compat a b) : mergeGuard a b = none := by
  have hl := h.len
  have ha := h.acc
  cases hacc : a.acc <;> simp_all [mergeGuard, h.ty, h.name]

/-- the validation pass succeeds when every pair of last results is compatible -/
theorem checkNames_none (ds od : Dict) (A B : String → Nat) (m : Mach) (names : List String)
    (hA : ∀ nm ∈ names, lastOf m ds nm = .ok (A nm))
    (hB : ∀ nm ∈ names, lastOf m od nm = .ok (B nm))
    (hc : ∀ nm ∈ names, ∃ ra rb, m.res[A nm]? = some ra ∧ m.res[B nm]? = some rb ∧ Compat ra rb) :
    checkNames ds od m names = none := by
  induction names with
  | nil => rfl
  | cons nm rest ih =>
    have ihr := ih (fun n h => hA n (List.mem_cons_of_mem _ h)) (fun n h => hB n (List.mem_cons_of_mem _ h))
      (fun n h => hc n (List.mem_cons_of_mem _ h))
    unfold checkNames
    split
    · exact ihr
    · obtain ⟨ra, rb, h1, h2, h3⟩ := hc nm List.mem_cons_self
      simp only [hA nm List.mem_cons_self, hB nm List.mem_cons_self, h1, h2, mergeGuard_none h3]
      exact ihr

theorem checkNsr_absent (m : Mach) (s o : Nat) (h : dictGet? (dictOf m o) nsr = none) :
    checkNsr m s o = none := by
  simp [checkNsr, h]

/-- `merge_all_results` when `self` is not empty, the validation pass succeeds and `other` has no
    `'num_skipped_reps'`: exactly the merge loop -/
theorem mergeAll_eq_mergeNames (m : Mach) (s o : Nat) (hs : s < m.sims.length) (ho : o < m.sims.length)
    (hne : dictOf m s ≠ []) (hnsro : dictGet? (dictOf m o) nsr = none)
    (hchk : checkNames (dictOf m s) (dictOf m o) m ((dictOf m s).map (·.1)) = none)
    (hok : (mergeNames (dictOf m s) (dictOf m o) m ((dictOf m s).map (·.1))).2 = none) :
    mergeAll m s o = mergeNames (dictOf m s) (dictOf m o) m ((dictOf m s).map (·.1)) := by
  have hsm := mergeNames_sims (dictOf m s) (dictOf m o) m ((dictOf m s).map (·.1))
  unfold mergeAll
  simp only [hs, ho, and_self, if_true, hne, if_false, hchk, checkNsr_absent m s o hnsro]
  generalize mergeNames (dictOf m s) (dictOf m o) m ((dictOf m s).map (·.1)) = q at hok hsm
  obtain ⟨m1, e1⟩ := q
  simp only at hok hsm
  subst hok
  simp only
  have : dictOf m1 o = dictOf m o := by simp [dictOf, hsm]
  rw [mergeNsr_absent m1 s o (by rw [this]; exact hnsro)]

/-- what the operands of a sequence of `merge_all_results` calls must satisfy (all in the
    initial machine): allocated, different from `self`, without `'num_skipped_reps'`, holding every
    name of `self`, their last results being objects `self` cannot write and compatible with the
    last results of `self` -/
structure SeqOK (m : Mach) (s : Nat) (os : List Nat) (A : String → Nat) (B : Nat → String → Nat) : Prop where
  hs : s < m.sims.length
  hne : dictOf m s ≠ []
  hnd : ((dictOf m s).map (·.1)).Nodup
  hnsr : nsr ∉ (dictOf m s).map (·.1)
  hA : ∀ nm ∈ (dictOf m s).map (·.1), lastOf m (dictOf m s) nm = .ok (A nm)
  hinj : ∀ n1 ∈ (dictOf m s).map (·.1), ∀ n2 ∈ (dictOf m s).map (·.1), A n1 = A n2 → n1 = n2
  ho : ∀ o ∈ os, o < m.sims.length ∧ dictGet? (dictOf m o) nsr = none
  hB : ∀ o ∈ os, ∀ nm ∈ (dictOf m s).map (·.1), lastOf m (dictOf m o) nm = .ok (B o nm)
  hsep : ∀ o ∈ os, ∀ n1 ∈ (dictOf m s).map (·.1), ∀ n2 ∈ (dictOf m s).map (·.1), A n1 ≠ B o n2
  hc : ∀ nm ∈ (dictOf m s).map (·.1), ∃ ra, m.res[A nm]? = some ra
        ∧ ∀ o ∈ os, ∃ rb, m.res[B o nm]? = some rb ∧ Compat ra rb

/-- merging `k` result sets one after the other into `self`: per name the last result of `self`
    becomes the left-to-right `Result.merge` of the operands' last results -/
theorem mergeAll_sequence (s : Nat) (A : String → Nat) (B : Nat → String → Nat) (os : List Nat) (m : Mach)
    (h : SeqOK m s os A B) :
    ∀ nm ∈ (dictOf m s).map (·.1), ∀ ra, m.res[A nm]? = some ra →
      (runS s m (os.map SOp.mergeAll)).res[A nm]?
        = some (mergeSeq ra (os.filterMap (fun o => m.res[B o nm]?))) := by
  induction os generalizing m with
  | nil => intro nm _ ra hra; simpa [runS, mergeSeq] using hra
  | cons o rest ih =>
    intro nm hnm ra hra
    obtain ⟨hs, hne, hnd, hnsr, hA, hinj, ho, hB, hsep, hc⟩ := h
    have hoo := ho o (by simp)
    -- one call
    have hc1 : ∀ n ∈ (dictOf m s).map (·.1),
        ∃ xa xb, m.res[A n]? = some xa ∧ m.res[B o n]? = some xb ∧ Compat xa xb := fun n hn => by
      obtain ⟨xa, h1, h2⟩ := hc n hn
      obtain ⟨xb, h3, h4⟩ := h2 o (by simp)
      exact ⟨xa, xb, h1, h3, h4⟩
    obtain ⟨p1, p2, p3⟩ := mergeNames_pointwise (dictOf m s) (dictOf m o) A (B o) _ m hnd hnsr hA
      (hB o (by simp)) hinj (hsep o (by simp)) hc1
    have hchk := checkNames_none (dictOf m s) (dictOf m o) A (B o) m _ hA (hB o (by simp)) hc1
    have hstep := mergeAll_eq_mergeNames m s o hs hoo.1 hne hoo.2 hchk p1
    have hl := mergeNames_lists (dictOf m s) (dictOf m o) m ((dictOf m s).map (·.1))
    have hsm := mergeNames_sims (dictOf m s) (dictOf m o) m ((dictOf m s).map (·.1))
    rw [← hstep] at p2 p3 hl hsm
    set m1 := (mergeAll m s o).1 with hm1
    have hd : ∀ j, dictOf m1 j = dictOf m j := fun j => by simp [dictOf, hsm]
    have hlo : ∀ d n, lastOf m1 d n = lastOf m d n := fun d n => lastOf_congr hl d n
    obtain ⟨rb, hrb, hcab⟩ : ∃ rb, m.res[B o nm]? = some rb ∧ Compat ra rb := by
      obtain ⟨xa, h1, h2⟩ := hc nm hnm
      rw [hra] at h1; cases h1
      exact h2 o (by simp)
    have hB_unch : ∀ o' ∈ rest, ∀ n ∈ (dictOf m s).map (·.1), m1.res[B o' n]? = m.res[B o' n]? :=
      fun o' ho' n hn => p3 _ (fun n2 hn2 e => hsep o' (by simp [ho']) n2 hn2 n hn e.symm)
    have h1 : SeqOK m1 s rest A B :=
      { hs := by rw [hsm]; exact hs
        hne := by rw [hd]; exact hne
        hnd := by rw [hd]; exact hnd
        hnsr := by rw [hd]; exact hnsr
        hA := fun n hn => by rw [hd] at hn ⊢; rw [hlo]; exact hA n hn
        hinj := fun n1 h1 n2 h2 => by rw [hd] at h1 h2; exact hinj n1 h1 n2 h2
        ho := fun o' ho' => by rw [hsm, hd]; exact ho o' (by simp [ho'])
        hB := fun o' ho' n hn => by rw [hd] at hn; rw [hd, hlo]; exact hB o' (by simp [ho']) n hn
        hsep := fun o' ho' n1 h1 n2 h2 => by rw [hd] at h1 h2; exact hsep o' (by simp [ho']) n1 h1 n2 h2
        hc := fun n hn => by
          rw [hd] at hn
          obtain ⟨xa, g1, g2⟩ := hc n hn
          obtain ⟨xb, g3, g4⟩ := g2 o (by simp)
          refine ⟨mergeCore xa xb, p2 n hn xa xb g1 g3, fun o' ho' => ?_⟩
          obtain ⟨xb', g5, g6⟩ := g2 o' (by simp [ho'])
          exact ⟨xb', by rw [hB_unch o' ho' n hn]; exact g5, (compat_mergeCore g4).symm.trans g6⟩ }
    have := ih m1 h1 nm (by rw [hd]; exact hnm) (mergeCore ra rb) (p2 nm hnm ra rb hra hrb)
    simp only [List.map_cons, runS, List.foldl_cons, stepS] at this ⊢
    rw [← hm1, this]
    congr 1
    simp only [List.filterMap_cons, hrb, mergeSeq, List.foldl_cons]
    congr 1
    apply filterMap_congr'
    intro o' ho'
    exact hB_unch o' ho' nm hnm

/-- merging the accumulations of the chunks one after the other = accumulating all chunks -/
theorem mergeSeq_foldUpd (nm : String) (ty : Ty) (acc : Bool) (k : Nat) (hm : ty ≠ .misc)
    (xs : List Obs) (chunks : List (List Obs)) :
    mergeSeq (foldUpd (fresh nm ty acc k) xs) (chunks.map (foldUpd (fresh nm ty acc k)))
      = foldUpd (fresh nm ty acc k) (xs ++ chunks.flatten) := by
  induction chunks generalizing xs with
  | nil => simp [mergeSeq]
  | cons c rest ih =>
    simp only [List.map_cons, mergeSeq, List.foldl_cons, List.flatten_cons]
    rw [← foldUpd_append_fresh nm ty acc k hm]
    have := ih (xs ++ c)
    simp only [mergeSeq] at this
    rw [this, List.append_assoc]

end PyPhysim.C06M
