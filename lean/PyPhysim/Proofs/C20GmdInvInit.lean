import Mathlib.LinearAlgebra.Matrix.NonsingularInverse
import PyPhysim.Proofs.C20GmdInvMain

/-!
# `gmd` — the initial state satisfies the invariant; assembly

`gmd_eq`: the model `gmd` is `initR` (the `p < 2` special case), the sweep, `finishM`.
`init_shape`, `init_inv`: the initial state built from a full SVD `A = U Σ Vᵀ` (orthogonal `U`,
`V`, positive singular values, `σ̄^p = ∏ S`) has the right shape and satisfies `Inv 0`.
-/
set_option linter.unusedSectionVars false
set_option linter.unusedVariables false
set_option linter.unusedSimpArgs false
namespace PyPhysim.LinAlg.GmdInv
open PyPhysim.Proto PyPhysim.LinAlg Matrix

variable {K : Type} [Field K] [StarRing K] [RSqrt K] [LE K] [DecidableLE K]

/-- the (real) singular values as a total function -/
def Sx {p : Nat} (S : Fin p → ℝ) : Nat → ℝ := fun r => if h : r < p then S ⟨r, h⟩ else 0

theorem vget_ofFn (ι : ℝ →+* K) {p : Nat} (S : Fin p → ℝ) :
    vget (Array.ofFn (fun i => ι (S i))) = fun r => ι (Sx S r) := by
  funext r
  unfold vget Sx
  by_cases h : r < p <;> simp [h]

theorem nget_range (p r : Nat) : nget (Array.range p) r = if r < p then r else 0 := by
  unfold nget
  by_cases h : r < p <;> simp [h]

theorem cget_colsOf {r c : Nat} (M : Mat K r c) (j : Nat) (hj : j < c) :
    cget (colsOf M) j = Array.ofFn (fun i : Fin r => M i ⟨j, hj⟩) := by
  unfold cget colsOf
  simp [hj]

theorem entryCols_colsOf {r c : Nat} (M : Mat K r c) (i j : Nat) (hi : i < r) (hj : j < c) :
    entryCols (colsOf M) i j = M ⟨i, hi⟩ ⟨j, hj⟩ := by
  rw [entryCols_eq, cget_colsOf M j hj]
  unfold vget
  simp [hi]

theorem colv_colsOf {r c : Nat} (M : Mat K r c) (j : Nat) (hj : j < c) :
    colv r (entryCols (colsOf M)) j = fun i => M i ⟨j, hj⟩ := by
  funext i
  exact entryCols_colsOf M i.val j i.isLt hj

theorem colv_colsOf_ge {r c : Nat} (M : Mat K r c) (j : Nat) (hj : c ≤ j) :
    colv r (entryCols (colsOf M)) j = 0 := by
  funext i
  show entryCols (colsOf M) i.val j = 0
  rw [entryCols_eq]
  unfold cget colsOf vget
  simp [hj]

/-- initial `R`: zeros, with `R[0, 0] = d[0]` when `p < 2` -/
def initR (m n p : Nat) (S : Array K) : Except PyErr (Array (Array K)) :=
  (if p < 2 then do
      let d0 ← idx S 0
      let row ← idx (Array.replicate m (Array.replicate n (0 : K))) 0
      let row ← upd row 0 d0
      upd (Array.replicate m (Array.replicate n (0 : K))) 0 row
    else pure (Array.replicate m (Array.replicate n (0 : K))))

/-- the state the sweep starts from -/
def st0 (p : Nat) (R0 : Array (Array K)) (Ucols : Array (Array K)) (S : Array K)
    (Vcols : Array (Array K)) : GmdState K :=
  { d := S, z := Array.replicate (p - 1) 0, R := R0, P := Vcols, Q := Ucols,
    perm := Array.range p, invperm := Array.range p, large := 1, small := p - 1, margin := 1 }

theorem gmd_eq (m n p : Nat) (sb : K) (Ucols : Array (Array K)) (S : Array K) (Vcols : Array (Array K))
    (hp : 1 ≤ p) :
    gmd m n p sb Ucols S Vcols = (do
      let R0 ← initR m n p S
      let st ← (List.range (p - 1)).foldlM (fun st k => gmdStep sb k st) (st0 p R0 Ucols S Vcols)
      finishM p sb st) := by
  have : ¬ p < 1 := by omega
  unfold gmd
  simp only [this, if_false]
  rfl

theorem initR_ok (m n p : Nat) (S : Array K) (hp : 1 ≤ p) (hpm : p ≤ m) (hpn : p ≤ n) (hS : p ≤ S.size) :
    ∃ R0, initR m n p S = .ok R0 ∧ R0.size = m ∧ (∀ i, i < m → (cget R0 i).size = n) ∧
      (∀ a b, entryRows R0 a b ≠ 0 → a = p - 1 ∧ b = p - 1) := by
  have hrep : ∀ i, i < m → cget (Array.replicate m (Array.replicate n (0 : K))) i = Array.replicate n 0 := by
    intro i hi; unfold cget; simp [hi]
  have hz : ∀ a b, entryRows (Array.replicate m (Array.replicate n (0 : K))) a b = 0 := by
    intro a b
    rw [entryRows_eq]
    unfold cget vget
    by_cases ha : a < m <;> by_cases hb : b < n <;> simp [ha, hb]
  by_cases h2 : p < 2
  · refine ⟨(Array.replicate m (Array.replicate n (0 : K))).set! 0 ((Array.replicate n (0 : K)).set! 0 (vget S 0)),
      ?_, ?_, ?_, ?_⟩
    · unfold initR
      simp only [h2, if_true]
      rw [idx_v _ _ (by omega), ok_bind, idx_c _ _ (by simp; omega), ok_bind, hrep 0 (by omega),
        upd_ok _ _ _ (by simp; omega), ok_bind, upd_ok _ _ _ (by simp; omega)]
    · simp
    · intro i hi
      rw [cget_set _ _ _ _ (by simp; omega)]
      split
      · simp
      · rw [hrep i hi]; simp
    · intro a b hne
      rw [entryRows_eq, cget_set _ _ _ _ (by simp; omega)] at hne
      by_cases ha : a = 0
      · rw [if_pos ha, vget_set _ _ _ _ (by simp; omega)] at hne
        by_cases hb : b = 0
        · omega
        · rw [if_neg hb] at hne
          exfalso; apply hne
          unfold vget; by_cases hb' : b < n <;> simp [hb']
      · rw [if_neg ha, ← entryRows_eq] at hne
        exact absurd (hz a b) hne
  · refine ⟨Array.replicate m (Array.replicate n (0 : K)), ?_, by simp, ?_, ?_⟩
    · unfold initR; simp only [h2, if_false]; rfl
    · intro i hi; rw [hrep i hi]; simp
    · intro a b hne; exact absurd (hz a b) hne

theorem init_shape (m n p q : Nat) (R0 : Array (Array K)) (U : Mat K m m) (V : Mat K n n) (S : Fin q → K)
    (hpq : p ≤ q) (hR0 : R0.size = m) (hR0row : ∀ i, i < m → (cget R0 i).size = n) :
    Shape m n p (st0 p R0 (colsOf U) (Array.ofFn S) (colsOf V)) := by
  refine ⟨by simpa [st0] using hpq, by simp [st0], hR0, hR0row, by simp [st0, colsOf], ?_, by simp [st0, colsOf], ?_,
    by simp [st0], by simp [st0]⟩
  · intro j hj
    show (cget (colsOf V) j).size = n
    rw [cget_colsOf V j hj]; simp
  · intro j hj
    show (cget (colsOf U) j).size = m
    rw [cget_colsOf U j hj]; simp

theorem sigmaMat_apply (ι : ℝ →+* K) {m n : Nat} (S : Fin (min m n) → ℝ) (a : Fin m) (b : Fin n) :
    sigmaMat (fun i => ι (S i)) a b = if a.val = b.val then ι (Sx S b.val) else 0 := by
  unfold sigmaMat Sx
  by_cases h : a.val = b.val
  · have : b.val < min m n := Nat.lt_min.mpr ⟨h ▸ a.isLt, b.isLt⟩
    simp [h, this]
  · simp [h]

/-- `A · V[:, b] = S[b] · U[:, b]` for `A = U Σ Vᴴ`, `Vᴴ V = 1` (zero for `b ≥ min m n`) -/
theorem svd_col (ι : ℝ →+* K) {m n : Nat} (U : Mat K m m) (V : Mat K n n) (S : Fin (min m n) → ℝ)
    (hV : (toM V)ᴴ * toM V = 1) (b : Nat) (hb : b < n) :
    (toM U * toM (sigmaMat (fun i => ι (S i))) * (toM V)ᴴ) *ᵥ colv n (entryCols (colsOf V)) b =
      ι (Sx S b) • colv m (entryCols (colsOf U)) b := by
  have e1 : toM U * toM (sigmaMat (fun i => ι (S i))) * (toM V)ᴴ * toM V
      = toM U * toM (sigmaMat (fun i => ι (S i))) := by
    rw [Matrix.mul_assoc, hV, Matrix.mul_one]
  rw [colv_colsOf V b hb]
  funext i
  have e2 : ((toM U * toM (sigmaMat (fun i => ι (S i))) * (toM V)ᴴ) *ᵥ fun l => V l ⟨b, hb⟩) i =
      (toM U * toM (sigmaMat (fun i => ι (S i))) * (toM V)ᴴ * toM V) i ⟨b, hb⟩ := by
    simp only [Matrix.mulVec, dotProduct,
      Matrix.mul_apply (M := toM U * toM (sigmaMat (fun i => ι (S i))) * (toM V)ᴴ)]
    rfl
  rw [e2, e1, Matrix.mul_apply]
  simp only [Matrix.of_apply, sigmaMat_apply, Pi.smul_apply, smul_eq_mul]
  by_cases hbm : b < m
  · rw [Finset.sum_eq_single (⟨b, hbm⟩ : Fin m)]
    · simp only [if_true]
      show U i ⟨b, hbm⟩ * ι (Sx S b) = ι (Sx S b) * entryCols (colsOf U) i.val b
      rw [entryCols_colsOf U i.val b i.isLt hbm, mul_comm]
    · intro l _ hl
      have : ¬ l.val = b := fun e => hl (Fin.ext e)
      simp [this]
    · intro h; exact absurd (Finset.mem_univ _) h
  · have hz : Sx S b = 0 := by
      unfold Sx
      have : ¬ b < min m n := by omega
      simp [this]
    rw [hz, map_zero, zero_mul]
    apply Finset.sum_eq_zero
    intro l _
    have : ¬ l.val = b := by have := l.isLt; omega
    simp [this]

theorem orth_colsOf {m : Nat} (U : Mat K m m) (hU : (toM U)ᴴ * toM U = 1) :
    Orth (colv m (entryCols (colsOf U))) := by
  intro a b ha hb
  rw [colv_colsOf U a ha, colv_colsOf U b hb]
  have := congrFun (congrFun hU ⟨a, ha⟩) ⟨b, hb⟩
  simp only [Matrix.mul_apply, Matrix.conjTranspose_apply, Matrix.of_apply, Matrix.one_apply,
    Fin.mk.injEq] at this
  exact this

/-- the singular values beyond the first `p` replaced by zero -/
def truncS {q : Nat} (p : Nat) (S : Fin q → ℝ) : Fin q → ℝ := fun i => if i.val < p then S i else 0

theorem Sx_truncS {q : Nat} (p : Nat) (S : Fin q → ℝ) (b : Nat) :
    Sx (truncS p S) b = if b < p then Sx S b else 0 := by
  unfold Sx truncS
  by_cases h : b < q <;> by_cases h' : b < p <;> simp [h, h']

/-- ESTABLISHMENT: the initial state of the sweep satisfies the invariant for `k = 0`
    (`p ≤ min m n` singular values in use; `A` = the rank-`p` truncation `U Σ_p Vᴴ`) -/
theorem init_inv (ι : ℝ →+* K) (m n p : Nat) (R0 : Array (Array K)) (U : Mat K m m) (V : Mat K n n)
    (S : Fin (min m n) → ℝ) (sb : ℝ) (hp : 0 < p) (hpmn : p ≤ min m n)
    (hU : (toM U)ᴴ * toM U = 1) (hV : (toM V)ᴴ * toM V = 1) (hS : ∀ r, r < p → 0 < Sx S r)
    (hprod : sb ^ p = ∏ r ∈ Finset.range p, Sx S r)
    (hR0 : ∀ a b, entryRows R0 a b ≠ 0 → a = p - 1 ∧ b = p - 1) :
    Inv ι m n p (toM U * toM (sigmaMat (fun i => ι (truncS p S i))) * (toM V)ᴴ) (Sx S) sb 0
      (absSt (st0 p R0 (colsOf U) (Array.ofFn (fun i => ι (S i))) (colsOf V))) := by
  have hd : (absSt (st0 p R0 (colsOf U) (Array.ofFn (fun i => ι (S i))) (colsOf V))).d
      = fun r => ι (Sx S r) := vget_ofFn ι S
  have hpm : ∀ r, (absSt (st0 p R0 (colsOf U) (Array.ofFn (fun i => ι (S i))) (colsOf V))).perm r
      = if r < p then r else 0 := nget_range _
  have hip : ∀ r, (absSt (st0 p R0 (colsOf U) (Array.ofFn (fun i => ι (S i))) (colsOf V))).invperm r
      = if r < p then r else 0 := nget_range _
  have hpn : p ≤ n := le_trans hpmn (Nat.min_le_right m n)
  constructor
  · refine ⟨orth_colsOf U hU, orth_colsOf V hV, ?_, ?_, ?_, ?_, ?_, ?_⟩
    · intro b hb; omega
    · rw [Finset.range_zero, Finset.sum_empty, zero_add, hd]
      have := svd_col ι U V (truncS p S) hV 0 (by omega)
      rw [Sx_truncS, if_pos hp] at this
      exact this
    · intro b _ hb
      rw [hd]
      have := svd_col ι U V (truncS p S) hV b (by omega)
      rw [Sx_truncS, if_pos hb] at this
      exact this
    · intro b hb hbn
      have := svd_col ι U V (truncS p S) hV b hbn
      rw [Sx_truncS, if_neg (by omega), map_zero, zero_smul] at this
      exact this
    · intro a b hne
      right; exact hR0 a b hne
    · intro j hj; omega
  · refine ⟨Sx S, fun q => congrFun hd q, ?_, le_refl 1, ?_, ?_, ?_, ?_, ?_⟩
    · show 1 + (p - 1 - 0) = (p - 1) + 1
      omega
    · show p - 1 < p
      omega
    · intro r hr1 hr2
      have hr1' : 1 ≤ r := hr1
      have hr2' : r ≤ p - 1 := hr2
      have hr : r < p := by omega
      clear hr1 hr2
      rw [hpm r, if_pos hr, hip r, if_pos hr]
      exact ⟨by omega, hr, rfl, rfl⟩
    · intro q hq1 hq2
      rw [hip q, if_pos hq2, hpm q, if_pos hq2]
      exact ⟨hq1, show q ≤ p - 1 by omega, rfl⟩
    · exact hS 0 hp
    · show Sx S 0 * ∏ r ∈ Finset.Ico 1 (p - 1 + 1), Sx S r = sb ^ (p - 0)
      rw [Nat.sub_zero, hprod, show p - 1 + 1 = p by omega,
        ← Finset.prod_eq_prod_Ico_succ_bot hp (Sx S), ← Finset.range_eq_Ico]

end PyPhysim.LinAlg.GmdInv
