import PyPhysim.Proofs.C03Hist
import PyPhysim.Proofs.C03Disc
import PyPhysim.Model.C03Args

/-!
# C03 — lemmas for the robustness classes R15 (close but distinct values) and R16
(argument identity / buffer reuse)
-/
namespace PyPhysim.C03
open PyPhysim.Proto

/-! ## R15: the sampling-interval comparisons of the constructor are exact -/

theorem ctorTs_ok_iff {τ : Type} [DecidableEq τ] (one : τ) (g p a : Option τ) (T : τ) :
    ctorTs one g p a = .ok T ↔
      (∀ x, g = some x → x = T) ∧ (∀ x, p = some x → x = T) ∧ (∀ x, a = some x → x = T) ∧
      (g = none → p = none → a = none → T = one) := by
  cases g with
  | none =>
    cases p with
    | none =>
      cases a with
      | none => simp [ctorTs, bind, Except.bind, pure, Except.pure, eq_comm]
      | some a => simp [ctorTs, bind, Except.bind, pure, Except.pure]
    | some p =>
      cases a with
      | none => simp [ctorTs, bind, Except.bind, pure, Except.pure]
      | some a =>
        by_cases h : p = a
        · subst h; simp [ctorTs, bind, Except.bind, pure, Except.pure]
        · simp only [ctorTs, bind, Except.bind, pure, Except.pure, ne_eq, h, not_false_eq_true, if_true]
          simp only [throw, throwThe, MonadExceptOf.throw, reduceCtorEq, false_iff]
          rintro ⟨-, h2, h3, -⟩
          exact h ((h2 p rfl).trans (h3 a rfl).symm)
  | some g =>
    cases a with
    | none =>
      cases p with
      | none => simp [ctorTs, bind, Except.bind, pure, Except.pure]
      | some p =>
        by_cases h : p = g
        · subst h; simp [ctorTs, bind, Except.bind, pure, Except.pure]
        · simp only [ctorTs, bind, Except.bind, pure, Except.pure, ne_eq, h, not_false_eq_true, if_true]
          simp only [throw, throwThe, MonadExceptOf.throw, reduceCtorEq, false_iff]
          rintro ⟨h1, h2, -, -⟩
          exact h ((h2 p rfl).trans (h1 g rfl).symm)
    | some a =>
      by_cases hag : a = g
      · subst hag
        cases p with
        | none => simp [ctorTs, bind, Except.bind, pure, Except.pure]
        | some p =>
          by_cases h : p = a
          · subst h; simp [ctorTs, bind, Except.bind, pure, Except.pure]
          · simp only [ctorTs, bind, Except.bind, pure, Except.pure, ne_eq, not_true_eq_false, if_false, h,
              not_false_eq_true, if_true]
            simp only [throw, throwThe, MonadExceptOf.throw, reduceCtorEq, false_iff]
            rintro ⟨h1, h2, -, -⟩
            exact h ((h2 p rfl).trans (h1 a rfl).symm)
      · simp only [ctorTs, bind, Except.bind, ne_eq, hag, not_false_eq_true, if_true]
        simp only [throw, throwThe, MonadExceptOf.throw, reduceCtorEq, false_iff]
        rintro ⟨h1, -, h3, -⟩
        exact hag ((h3 a rfl).trans (h1 g rfl).symm)

theorem ctorTs_error {τ : Type} [DecidableEq τ] (one : τ) (g p a : Option τ) (e : PyErr)
    (h : ctorTs one g p a = .error e) : e = .RuntimeError := by
  unfold ctorTs at h
  simp only [bind, Except.bind, pure, Except.pure, throw, throwThe, MonadExceptOf.throw] at h
  repeat' split at h
  all_goals first | (injection h with h; exact h.symm) | cases h

/-! ## R15: a discretised profile keeps every input tap, however weak -/

theorem collidingPower_ge (idx : List Int) (p : List ℚ) (hpos : ∀ x ∈ p, 0 ≤ x) (i : Nat) (d : Int) (v : ℚ)
    (hi : idx[i]? = some d) (hv : p[i]? = some v) : v ≤ collidingPower idx p d := by
  unfold collidingPower
  apply List.single_le_sum
  · intro x hx
    simp only [List.mem_map, List.mem_filter] at hx
    obtain ⟨ip, ⟨hmem, -⟩, rfl⟩ := hx
    exact hpos _ (List.of_mem_zip hmem).2
  · simp only [List.mem_map, List.mem_filter]
    refine ⟨(d, v), ⟨?_, by simp⟩, rfl⟩
    rw [List.mem_iff_getElem?]
    exact ⟨i, by rw [List.getElem?_zip_eq_some]; exact ⟨hi, hv⟩⟩

/-! ## R16: histories -/

variable {α : Type} [CommSemiring α]

theorem su_runR_append (proc : Proc α) (fftK : Fft α) (ops more : List (SuOp α)) (c : Su α) :
    Su.runR proc fftK c (ops ++ more)
      = ((Su.runR proc fftK (Su.runR proc fftK c ops).1 more).1,
         (Su.runR proc fftK c ops).2 ++ (Su.runR proc fftK (Su.runR proc fftK c ops).1 more).2) := by
  induction ops generalizing c with
  | nil => simp [Su.runR]
  | cons op ops ih =>
    simp only [List.cons_append, Su.runR]
    rw [ih]

theorem su_runBuf_eq (proc : Proc α) (fftK : Fft α) (ks : List (BufCall α)) (c : Su α) (buf : List (List α)) :
    Su.runBuf proc fftK c buf ks = Su.runR proc fftK c (ks.map (fun k => k.call k.fill)) := by
  induction ks generalizing c buf with
  | nil => simp [Su.runBuf, Su.runR]
  | cons k ks ih =>
    simp only [Su.runBuf, List.map_cons, Su.runR]
    rw [ih]

/-! ## R15: `MuChannel.set_pathloss` gives every link exactly its entry -/

theorem mapM_ok_getElem? {β γ : Type} (f : β → Except PyErr γ) (l : List β) (r : List γ) (h : l.mapM f = .ok r) :
    r.length = l.length ∧ ∀ (i : Nat) (a : β), l[i]? = some a → ∃ b, f a = .ok b ∧ r[i]? = some b := by
  induction l generalizing r with
  | nil =>
    simp only [List.mapM_nil, pure, Except.pure, Except.ok.injEq] at h
    subst h
    exact ⟨rfl, by intro i a hi; simp at hi⟩
  | cons x xs ih =>
    simp only [List.mapM_cons, bind, Except.bind, pure, Except.pure] at h
    cases hx : f x with
    | error e => simp [hx] at h
    | ok b =>
      simp only [hx] at h
      cases hr : xs.mapM f with
      | error e => simp [hr] at h
      | ok bs =>
        simp only [hr, Except.ok.injEq] at h
        subst h
        obtain ⟨hlen, hall⟩ := ih bs hr
        refine ⟨by simp [hlen], ?_⟩
        intro i a hi
        cases i with
        | zero =>
          simp only [List.getElem?_cons_zero, Option.some.injEq] at hi
          subst hi
          exact ⟨b, hx, by simp⟩
        | succ i =>
          simp only [List.getElem?_cons_succ] at hi
          obtain ⟨b', h1, h2⟩ := hall i a hi
          exact ⟨b', h1, by simpa using h2⟩

omit [CommSemiring α] in
theorem mu_setPathloss_links (c c' : Mu α) (s : List (List α)) (h : c.setPathloss s = .ok c') :
    c'.nRx = c.nRx ∧ c'.nTx = c.nTx ∧ c'.links.length = c.links.length ∧
    ∀ idx l, c.links[idx]? = some l →
      ∃ row v, s[idx / c.nTx]? = some row ∧ row[idx % c.nTx]? = some v ∧
        c'.links[idx]? = some { l with pl := some v } := by
  unfold Mu.setPathloss at h
  simp only [bind, Except.bind, pure, Except.pure] at h
  split at h
  · cases h
  · rename_i ls hls
    simp only [Except.ok.injEq] at h
    subst h
    obtain ⟨hlen, hall⟩ := mapM_ok_getElem? _ _ _ hls
    refine ⟨rfl, rfl, by simpa using hlen, ?_⟩
    intro idx l hl
    have hz : c.links.zipIdx[idx]? = some (l, idx) := by
      rw [List.getElem?_zipIdx, hl]; simp
    obtain ⟨b, hb, hr⟩ := hall idx (l, idx) hz
    simp only at hb
    split at hb
    · simp [throw, throwThe, MonadExceptOf.throw] at hb
    · rename_i row hrow
      split at hb
      · simp [throw, throwThe, MonadExceptOf.throw] at hb
      · rename_i v hv
        simp only [Except.ok.injEq] at hb
        subst hb
        exact ⟨row, v, hrow, hv, hr⟩

end PyPhysim.C03
