import Mathlib.Tactic.Ring
import Mathlib.Tactic.FieldSimp
import Mathlib.Tactic.SplitIfs
import PyPhysim.Proofs.C18Complex
import PyPhysim.Proofs.C18Ext
import PyPhysim.Generated.C18Formulas

/-!
C18 — the formulas regenerated from the current source
(`PyPhysim.Generated.C18`, emitted by `harness/gen/c18f.py`) against the hand
model `PyPhysim.Cazac`: phases over `ℝ` (the model keeps phases in turns, the
source in radians: factor `2π`), index / size expressions over `ℤ`.
-/
set_option linter.unusedSimpArgs false
namespace PyPhysim.C18P
open PyPhysim.Cazac PyPhysim.Proto PyPhysim.C18Py
namespace Gen
open PyPhysim.Generated.C18

/-! ### phases -/

theorem zcPhase_eq (N u n : ℕ) :
    Generated.C18.zcPhase Real.pi (N : ℝ) (u : ℝ) 0 (n : ℝ) = 2 * Real.pi * ((Cazac.zcPhase N u n : ℚ) : ℝ) := by
  unfold Generated.C18.zcPhase Cazac.zcPhase
  push_cast
  by_cases hN : (N : ℝ) = 0
  · simp [hN]
  · field_simp
    ring

theorem zcLength_eq (N u : ℕ) : zcLength (N : ℝ) = ((zcPhases N u).length : ℝ) := by
  simp [zcLength, zcPhases]

theorem shiftPhase_eq (ncs D n : ℕ) :
    shiftPhase Real.pi (ncs : ℝ) (D : ℝ) (n : ℝ)
      = 2 * Real.pi * ((((ncs * n : ℕ) : ℚ) / ((D : ℕ) : ℚ) : ℚ) : ℝ) := by
  unfold shiftPhase
  push_cast
  by_cases hD : (D : ℝ) = 0
  · simp [hD]
  · field_simp

theorem tablePhase_eq (φ : ℤ) :
    tablePhase Real.pi (φ : ℝ) = 2 * Real.pi * ((((φ : ℤ) : ℚ) / ((8 : ℕ) : ℚ) : ℚ) : ℝ) := by
  unfold tablePhase
  push_cast
  ring

/-- a phase in radians that is `2π` times the model's phase in turns gives the model's value -/
theorem expi_eq_cis (x : ℝ) (q : ℚ) (h : x = 2 * Real.pi * (q : ℝ)) :
    Complex.exp (Complex.I * (x : ℂ)) = (CisOps.cis q : ℂ) := by
  rw [cis_complex_def, h]
  congr 1
  push_cast
  ring

/-! ### Python integer operations on naturals -/

theorem fdiv_natCast (a b : ℕ) : Int.fdiv (a : ℤ) (b : ℤ) = ((a / b : ℕ) : ℤ) := by
  rw [Int.fdiv_eq_ediv_of_nonneg _ (Int.natCast_nonneg b)]
  rfl

theorem fmod_natCast (a b : ℕ) : Int.fmod (a : ℤ) (b : ℤ) = ((a % b : ℕ) : ℤ) := by
  rw [Int.fmod_eq_emod_of_nonneg _ (Int.natCast_nonneg b)]
  rfl

theorem sliceTo_natCast {β : Type} (root : List β) (m : ℕ) : sliceTo root (m : ℤ) = root.take m := by
  simp [sliceTo]

theorem sliceTo_sub {β : Type} (root : List β) (a b : ℕ) :
    sliceTo root ((a : ℤ) - (b : ℤ))
      = if b ≤ a then root.take (a - b) else root.take (root.length + a - b) := by
  unfold sliceTo
  split_ifs <;> (congr 1; omega)

theorem listRepeat_natCast {β : Type} (l : List β) (k : ℕ) :
    listRepeat l (k : ℤ) = (List.replicate k l).flatten := by
  simp [listRepeat]

theorem listRepeat_one {β : Type} (l : List β) : listRepeat l (1 : ℤ) = l := by
  simp [listRepeat]

/-! ### cyclic extension -/

theorem extendedZF_eq {β : Type} (root : List β) (size : ℕ) :
    Generated.C18.extendedZF root (size : ℤ) = Cazac.extendedZF root size := by
  unfold Generated.C18.extendedZF Cazac.extendedZF
  simp only [fdiv_natCast, fmod_natCast, listRepeat_one, mul_one]
  by_cases h1 : size > 2 * root.length
  · have h1' : ((size : ℤ) - (root.length : ℤ) > (root.length : ℤ)) := by omega
    rw [if_pos h1', if_pos h1]
    by_cases h0 : root.length = 0
    · have h0' : (root.length : ℤ) = 0 := by omega
      rw [if_pos h0', if_pos h0]
    · have h0' : ¬ (root.length : ℤ) = 0 := by omega
      rw [if_neg h0', if_neg h0]
      congr 1
      have hm : root.length * (size / root.length) ≤ size := Nat.mul_div_le size root.length
      have e1 : (size : ℤ) - (root.length : ℤ) * ((size / root.length : ℕ) : ℤ)
          = ((size - root.length * (size / root.length) : ℕ) : ℤ) := by
        rw [Nat.cast_sub hm]; push_cast; ring
      have e2 : ((size % root.length : ℕ) : ℤ)
          = ((size - root.length * (size / root.length) : ℕ) : ℤ) := by
        congr 1
        have := Nat.div_add_mod size root.length
        omega
      simp only [e1, e2, sliceTo_natCast, listRepeat_natCast, List.flatten_replicate_singleton,
        List.flatten_append, List.flatten_cons, List.flatten_nil, List.append_nil]
  · have h1' : ¬ ((size : ℤ) - (root.length : ℤ) > (root.length : ℤ)) := by omega
    rw [if_neg h1', if_neg h1]
    simp only [sliceTo_sub, List.flatten_append, List.flatten_cons, List.flatten_nil, List.append_nil]
    by_cases h2 : root.length ≤ size
    · rw [if_pos h2, if_pos h2]
    · rw [if_neg h2, if_neg h2]
      congr 3
      omega

/-- the regenerated extension reads the root sequence at `i mod Nzc` -/
theorem extendedZF_index {β : Type} (root : List β) (size : ℕ) (hn : 0 < root.length)
    (hs : root.length ≤ size) :
    ∃ l, Generated.C18.extendedZF root (size : ℤ) = .ok l ∧ l.length = size ∧
      ∀ i, i < size → l[i]? = root[i % root.length]? := by
  rw [extendedZF_eq]
  exact extendedZF_spec root size hn hs

/-! ### size rule of `RootSequence.__init__` -/

theorem rootSequenceCore_sizeRule (t1 t2 : List (List Int)) (u size nzc : ℕ) :
    rootSequenceCore t1 t2 u size nzc =
      match sizeRule (size : ℤ) (nzc : ℤ) with
      | .error e => .error e
      | .ok (.zc ext) =>
        if u < nzc then
          if ext then
            match Cazac.extendedZF (zcPhases nzc u) size with
            | .ok e => .ok ⟨u, zcPhases nzc u, some e⟩
            | .error e => .error e
          else .ok ⟨u, zcPhases nzc u, none⟩
        else .error .AssertionError
      | .ok .table1 =>
        match t1[u]? with
        | some row => .ok ⟨u, tablePhases row, none⟩
        | none => .error .KeyError
      | .ok .table2 =>
        match t2[u]? with
        | some row => .ok ⟨u, tablePhases row, none⟩
        | none => .error .KeyError := by
  unfold rootSequenceCore sizeRule
  by_cases h1 : size < nzc
  · have h1' : (size : ℤ) < (nzc : ℤ) := by omega
    rw [if_pos h1, if_pos h1']
  · have h1' : ¬ (size : ℤ) < (nzc : ℤ) := by omega
    rw [if_neg h1, if_neg h1']
    by_cases h2 : size > 24
    · have h2' : (size : ℤ) > (24 : ℤ) := by omega
      rw [if_pos h2, if_pos h2']
      by_cases h3 : size > nzc
      · have h3' : (size : ℤ) > (nzc : ℤ) := by omega
        rw [if_pos h3, if_pos h3']
        rfl
      · have h3' : ¬ (size : ℤ) > (nzc : ℤ) := by omega
        rw [if_neg h3, if_neg h3']
        rfl
    · have h2' : ¬ (size : ℤ) > (24 : ℤ) := by omega
      rw [if_neg h2, if_neg h2']
      by_cases h4 : size = 12
      · have h4' : (size : ℤ) = (12 : ℤ) := by omega
        rw [if_pos h4, if_pos h4']
        rfl
      · have h4' : ¬ (size : ℤ) = (12 : ℤ) := by omega
        rw [if_neg h4, if_neg h4']
        by_cases h5 : size = 24
        · have h5' : (size : ℤ) = (24 : ℤ) := by omega
          rw [if_pos h5, if_pos h5']
          rfl
        · have h5' : ¬ (size : ℤ) = (24 : ℤ) := by omega
          rw [if_neg h5, if_neg h5']

/-! ### estimator: sizes, kept taps, normalisation -/

theorem estimate1_generated {α : Type} [Add α] [Sub α] [Mul α] [Div α] [Neg α] [Zero α] [NatCast α]
    [CisOps α] (r : List α) (b : Bool) (m : ℕ) (Y : List α) (K : ℕ) :
    estimate1 r b m Y K =
      if Y.length ≠ r.length then .error .ValueError
      else if m * r.length = 0 then .error .ValueError
      else .ok ((fftPad ((ifftN (List.zipWith (fun a c => CisOps.conj a * c) r Y)
          (ifftSize (m : ℤ) (r.length : ℤ) (K : ℤ)).toNat).take (keptTaps (m : ℤ) (r.length : ℤ) (K : ℤ)).toNat)
          (fftSize (m : ℤ) (r.length : ℤ) (K : ℤ)).toNat).map (normScale b ((r.length : ℕ) : α))) := by
  have e1 : (((r.length : ℕ) : ℤ)).toNat = r.length := Int.toNat_natCast _
  have e2 : (((K : ℕ) : ℤ) + (1 : ℤ)).toNat = K + 1 := by omega
  have e3 : (((m : ℕ) : ℤ) * ((r.length : ℕ) : ℤ)).toNat = m * r.length := by
    rw [← Nat.cast_mul, Int.toNat_natCast]
  unfold estimate1 ifftSize keptTaps fftSize
  simp only [e1, e2, e3]
  have hf : normScale false ((r.length : ℕ) : α) = id := by funext H; simp [normScale]
  have ht : normScale true ((r.length : ℕ) : α) = fun v => v * ((r.length : ℕ) : α) := by
    funext H; simp [normScale]
  cases b <;> simp [hf, ht]

/-! ### normal forms used by the summary theorem -/

theorem sizeRule_eq (size nzc : ℕ) :
    sizeRule (size : ℤ) (nzc : ℤ) =
      if size < nzc then .error .AttributeError
      else if size > 24 then .ok (.zc (decide (size > nzc)))
      else if size = 12 then .ok .table1 else if size = 24 then .ok .table2
      else .error .AttributeError := by
  unfold sizeRule
  have c1 : ((size : ℤ) < (nzc : ℤ)) ↔ size < nzc := by omega
  have c2 : ((size : ℤ) > (24 : ℤ)) ↔ size > 24 := by omega
  have c3 : ((size : ℤ) > (nzc : ℤ)) ↔ size > nzc := by omega
  have c4 : ((size : ℤ) = (12 : ℤ)) ↔ size = 12 := by omega
  have c5 : ((size : ℤ) = (24 : ℤ)) ↔ size = 24 := by omega
  simp only [c1, c2, c3, c4, c5]
  split_ifs <;> simp_all

theorem sizes_eq (m N K : ℕ) :
    (ifftSize (m : ℤ) (N : ℤ) (K : ℤ)).toNat = N ∧ (keptTaps (m : ℤ) (N : ℤ) (K : ℤ)).toNat = K + 1 ∧
      (fftSize (m : ℤ) (N : ℤ) (K : ℤ)).toNat = m * N := by
  unfold ifftSize keptTaps fftSize
  refine ⟨Int.toNat_natCast _, by omega, ?_⟩
  rw [← Nat.cast_mul, Int.toNat_natCast]

theorem normScale_eq (b : Bool) (N H : ℂ) : normScale b N H = if b then H * N else H := by
  cases b <;> simp [normScale]

end Gen
end PyPhysim.C18P
