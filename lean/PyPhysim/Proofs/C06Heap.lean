import PyPhysim.Model.C06Heap
import PyPhysim.Proofs.C06

/-! C06, object level: which heap cells a method can write (frame lemmas) and
the separation invariant that keeps a merged-in operand untouched for every
later history. -/
namespace PyPhysim.C06M
open PyPhysim.Proto

/-- the Result objects `merge_all_results` / `[-1].update` can write through `s`:
    the last element of each of its lists -/
def writeSet (m : Mach) (s : Nat) : List Nat :=
  (dictOf m s).filterMap (fun e => (listAt m e.2).getLast?)

/-- `m'` differs from `m` on old cells only at Result addresses in `W`, never in an old list
    object, and only in the dictionary of `s`; it may have allocated new cells -/
structure Frame (W : Nat → Prop) (s : Nat) (m m' : Mach) : Prop where
  res : ∀ a, a < m.res.length → ¬ W a → m'.res[a]? = m.res[a]?
  lists : ∀ l, l < m.lists.length → m'.lists[l]? = m.lists[l]?
  sims : ∀ j, j ≠ s → m'.sims[j]? = m.sims[j]?
  resLen : m.res.length ≤ m'.res.length
  listsLen : m.lists.length ≤ m'.lists.length
  simsLen : m'.sims.length = m.sims.length

theorem Frame.refl (W : Nat → Prop) (s : Nat) (m : Mach) : Frame W s m m :=
  ⟨fun _ _ _ => rfl, fun _ _ => rfl, fun _ _ => rfl, Nat.le_refl _, Nat.le_refl _, rfl⟩

theorem Frame.trans {W : Nat → Prop} {s : Nat} {m m' m'' : Mach}
    (h : Frame W s m m') (h' : Frame W s m' m'') : Frame W s m m'' where
  res a ha hw := by rw [h'.res a (Nat.lt_of_lt_of_le ha h.resLen) hw, h.res a ha hw]
  lists l hl := by rw [h'.lists l (Nat.lt_of_lt_of_le hl h.listsLen), h.lists l hl]
  sims j hj := by rw [h'.sims j hj, h.sims j hj]
  resLen := Nat.le_trans h.resLen h'.resLen
  listsLen := Nat.le_trans h.listsLen h'.listsLen
  simsLen := h'.simsLen.trans h.simsLen

theorem Frame.mono {W W' : Nat → Prop} {s : Nat} {m m' : Mach} (h : Frame W s m m')
    (hw : ∀ a, W a → W' a) : Frame W' s m m' :=
  { h with res := fun a ha hn => h.res a ha (fun x => hn (hw a x)) }

theorem Frame.listAt {W : Nat → Prop} {s : Nat} {m m' : Mach} (h : Frame W s m m') {l : Nat}
    (hl : l < m.lists.length) : listAt m' l = listAt m l := by
  simp [C06M.listAt, h.lists l hl]

theorem Frame.dictOf {W : Nat → Prop} {s : Nat} {m m' : Mach} (h : Frame W s m m') {j : Nat}
    (hj : j ≠ s) : dictOf m' j = dictOf m j := by
  simp [C06M.dictOf, h.sims j hj]

/-! ### primitives -/

theorem frame_setRes (W : Nat → Prop) (s : Nat) (m : Mach) (a : Nat) (r : Res) (hw : W a) :
    Frame W s m (setRes m a r) where
  res a' _ hn := by
    have : a ≠ a' := fun e => hn (e ▸ hw)
    simp [setRes, this]
  lists _ _ := rfl
  sims _ _ := rfl
  resLen := by simp [setRes]
  listsLen := Nat.le_refl _
  simsLen := rfl

theorem frame_allocRes (W : Nat → Prop) (s : Nat) (m : Mach) (r : Res) :
    Frame W s m (allocRes m r).1 where
  res a ha _ := by simp [allocRes, List.getElem?_append_left ha]
  lists _ _ := rfl
  sims _ _ := rfl
  resLen := by simp [allocRes]
  listsLen := Nat.le_refl _
  simsLen := rfl

theorem frame_allocList (W : Nat → Prop) (s : Nat) (m : Mach) (l : List Nat) :
    Frame W s m (allocList m l).1 where
  res _ _ _ := rfl
  lists l' hl := by simp [allocList, List.getElem?_append_left hl]
  sims _ _ := rfl
  resLen := Nat.le_refl _
  listsLen := by simp [allocList]
  simsLen := rfl

theorem frame_setDict (W : Nat → Prop) (s : Nat) (m : Mach) (d : Dict) :
    Frame W s m (setDict m s d) where
  res _ _ _ := rfl
  lists _ _ := rfl
  sims j hj := by simp [setDict, Ne.symm hj]
  resLen := Nat.le_refl _
  listsLen := Nat.le_refl _
  simsLen := by simp [setDict]

theorem dictOf_setDict (m : Mach) (s : Nat) (d : Dict) (hs : s < m.sims.length) :
    dictOf (setDict m s d) s = d := by
  simp [dictOf, setDict, List.getElem?_eq_getElem hs]

/-! ### `Result.update` / `Result.merge` on the heap write one cell -/

theorem updR_lists (m : Mach) (a : Nat) (o : Obs) : (updR m a o).1.lists = m.lists := by
  unfold updR; split <;> rfl
theorem updR_sims (m : Mach) (a : Nat) (o : Obs) : (updR m a o).1.sims = m.sims := by
  unfold updR; split <;> rfl
theorem updR_res_length (m : Mach) (a : Nat) (o : Obs) : (updR m a o).1.res.length = m.res.length := by
  unfold updR; split <;> simp [setRes]
theorem updR_res_ne (m : Mach) (a : Nat) (o : Obs) {a' : Nat} (h : a' ≠ a) :
    (updR m a o).1.res[a']? = m.res[a']? := by
  unfold updR; split <;> simp [setRes, Ne.symm h]

theorem mergeR_lists (m : Mach) (a b : Nat) : (mergeR m a b).1.lists = m.lists := by
  unfold mergeR; split <;> rfl
theorem mergeR_sims (m : Mach) (a b : Nat) : (mergeR m a b).1.sims = m.sims := by
  unfold mergeR; split <;> rfl
theorem mergeR_res_length (m : Mach) (a b : Nat) : (mergeR m a b).1.res.length = m.res.length := by
  unfold mergeR; split <;> simp [setRes]
theorem mergeR_res_ne (m : Mach) (a b : Nat) {a' : Nat} (h : a' ≠ a) :
    (mergeR m a b).1.res[a']? = m.res[a']? := by
  unfold mergeR; split <;> simp [setRes, Ne.symm h]

theorem frame_mergeR (W : Nat → Prop) (s : Nat) (m : Mach) (a b : Nat) (hw : W a) :
    Frame W s m (mergeR m a b).1 where
  res a' _ hn := mergeR_res_ne m a b (fun e => hn (e ▸ hw))
  lists _ _ := by rw [mergeR_lists]
  sims _ _ := by rw [mergeR_sims]
  resLen := by rw [mergeR_res_length]
  listsLen := by rw [mergeR_lists]
  simsLen := by rw [mergeR_sims]

theorem frame_updR (W : Nat → Prop) (s : Nat) (m : Mach) (a : Nat) (o : Obs) (hw : W a) :
    Frame W s m (updR m a o).1 where
  res a' _ hn := updR_res_ne m a o (fun e => hn (e ▸ hw))
  lists _ _ := by rw [updR_lists]
  sims _ _ := by rw [updR_sims]
  resLen := by rw [updR_res_length]
  listsLen := by rw [updR_lists]
  simsLen := by rw [updR_sims]

/-! ### `lastOf` only reads the dictionary and the list objects -/

theorem lastOf_congr {m m' : Mach} (h : m'.lists = m.lists) (d : Dict) (nm : String) :
    lastOf m' d nm = lastOf m d nm := by
  simp [lastOf, listAt, h]

theorem dictGet?_mem {d : Dict} {nm : String} {l : Nat} (h : dictGet? d nm = some l) : (nm, l) ∈ d := by
  induction d with
  | nil => simp [dictGet?] at h
  | cons e rest ih =>
    obtain ⟨k, v⟩ := e
    simp only [dictGet?] at h
    split at h
    · rename_i hk; cases h; simp [hk]
    · simp [ih h]

theorem lastOf_mem_writeSet {m : Mach} {s : Nat} {nm : String} {a : Nat}
    (h : lastOf m (dictOf m s) nm = .ok a) : a ∈ writeSet m s := by
  unfold lastOf at h
  split at h
  · cases h
  · rename_i l hl
    split at h
    · cases h
    · rename_i a' ha'
      cases h
      simp only [writeSet, List.mem_filterMap]
      exact ⟨(nm, l), dictGet?_mem hl, ha'⟩

/-! ### the merge loop -/

theorem mergeNames_lists (ds od : Dict) (m : Mach) (names : List String) :
    (mergeNames ds od m names).1.lists = m.lists := by
  induction names generalizing m with
  | nil => rfl
  | cons nm rest ih =>
    unfold mergeNames
    split
    · exact ih m
    · split
      · rfl
      · rename_i a ha
        split
        · rfl
        · rename_i b hb
          have hl := mergeR_lists m a b
          split
          · rename_i m' hm; rw [hm] at hl; rw [ih m']; exact hl
          · rename_i m' e hm; rw [hm] at hl; exact hl

theorem frame_mergeNames (s : Nat) (m0 : Mach) (ds od : Dict) (m : Mach) (names : List String)
    (hl : m.lists = m0.lists) (hds : ds = dictOf m0 s) :
    Frame (· ∈ writeSet m0 s) s m (mergeNames ds od m names).1 := by
  induction names generalizing m with
  | nil => exact Frame.refl _ _ _
  | cons nm rest ih =>
    unfold mergeNames
    split
    · exact ih m hl
    · split
      · exact Frame.refl _ _ _
      · rename_i a ha
        split
        · exact Frame.refl _ _ _
        · rename_i b hb
          have hw : a ∈ writeSet m0 s := by
            rw [lastOf_congr hl, hds] at ha
            exact lastOf_mem_writeSet ha
          have hf := frame_mergeR (· ∈ writeSet m0 s) s m a b hw
          split
          · rename_i m' hm
            rw [hm] at hf
            have hl' : m'.lists = m0.lists := by
              have := mergeR_lists m a b; rw [hm] at this; exact this.trans hl
            exact hf.trans (ih m' hl')
          · rename_i m' e hm
            rw [hm] at hf
            exact hf

/-! ### the `num_skipped_reps` tail -/

theorem frame_addResult (W : Nat → Prop) (s : Nat) (m : Mach) (a : Nat) :
    Frame W s m (addResult m s a).1 := by
  unfold addResult
  split
  · exact Frame.refl _ _ _
  · exact (frame_allocList W s m [a]).trans (frame_setDict W s _ _)

theorem frame_addNewSumZero (W : Nat → Prop) (s : Nat) (m : Mach) (nm : String) :
    Frame W s m (addNewSumZero m s nm).1 := by
  unfold addNewSumZero
  exact (frame_allocRes W s m _).trans (frame_addResult W s _ _)

/-! ### where the write set can move to -/

/-- the list addresses in the dictionary of `s` are allocated -/
def WfS (m : Mach) (s : Nat) : Prop := ∀ e ∈ dictOf m s, e.2 < m.lists.length

/-- written cells: the old write set, or cells that did not exist in `m` -/
def W0 (m : Mach) (s : Nat) (a : Nat) : Prop := a ∈ writeSet m s ∨ m.res.length ≤ a

theorem Frame.restrict {m m' : Mach} {s : Nat} (h : Frame (W0 m s) s m m') :
    Frame (· ∈ writeSet m s) s m m' :=
  { h with res := fun a ha hn => h.res a ha (fun hw => hw.elim hn (fun hge => absurd ha (Nat.not_lt.mpr hge))) }

theorem mem_dictSet {d : Dict} {k : String} {l : Nat} {e : String × Nat} (h : e ∈ dictSet d k l) :
    e ∈ d ∨ e = (k, l) := by
  induction d with
  | nil => simp [dictSet] at h; exact Or.inr h
  | cons x rest ih =>
    obtain ⟨k', l'⟩ := x
    simp only [dictSet] at h
    split at h
    · rcases List.mem_cons.mp h with h | h
      · exact Or.inr h
      · exact Or.inl (List.mem_cons_of_mem _ h)
    · rcases List.mem_cons.mp h with h | h
      · exact Or.inl (h ▸ List.mem_cons_self)
      · rcases ih h with h | h
        · exact Or.inl (List.mem_cons_of_mem _ h)
        · exact Or.inr h

/-- if every dictionary entry of `s` in `m'` is an old entry or a list of new cells, the write
    set can only have moved to new cells -/
theorem writeSet_sub {W : Nat → Prop} {m m' : Mach} {s : Nat} (hf : Frame W s m m') (hwf : WfS m s)
    (hd : ∀ e ∈ dictOf m' s, e ∈ dictOf m s ∨ ∀ a ∈ listAt m' e.2, m.res.length ≤ a) :
    ∀ a ∈ writeSet m' s, a ∈ writeSet m s ∨ m.res.length ≤ a := by
  intro a ha
  simp only [writeSet, List.mem_filterMap] at ha ⊢
  obtain ⟨e, he, hlast⟩ := ha
  rcases hd e he with h | h
  · left
    exact ⟨e, h, by rw [← hf.listAt (hwf e h)]; exact hlast⟩
  · right
    exact h a (List.mem_of_getLast? hlast)

theorem mergeNames_sims (ds od : Dict) (m : Mach) (names : List String) :
    (mergeNames ds od m names).1.sims = m.sims := by
  induction names generalizing m with
  | nil => rfl
  | cons nm rest ih =>
    unfold mergeNames
    split
    · exact ih m
    · split
      · rfl
      · rename_i a ha
        split
        · rfl
        · rename_i b hb
          have hl := mergeR_sims m a b
          split
          · rename_i m' hm; rw [hm] at hl; rw [ih m']; exact hl
          · rename_i m' e hm; rw [hm] at hl; exact hl

theorem mergeNames_res_length (ds od : Dict) (m : Mach) (names : List String) :
    (mergeNames ds od m names).1.res.length = m.res.length := by
  induction names generalizing m with
  | nil => rfl
  | cons nm rest ih =>
    unfold mergeNames
    split
    · exact ih m
    · split
      · rfl
      · rename_i a ha
        split
        · rfl
        · rename_i b hb
          have hl := mergeR_res_length m a b
          split
          · rename_i m' hm; rw [hm] at hl; rw [ih m']; exact hl
          · rename_i m' e hm; rw [hm] at hl; exact hl

theorem writeSet_congr {m m' : Mach} (hl : m'.lists = m.lists) (hs : m'.sims = m.sims) (s : Nat) :
    writeSet m' s = writeSet m s := by
  simp [writeSet, dictOf, listAt, hl, hs]

/-- `add_new_result('num_skipped_reps', SUMTYPE, 0)` adds one entry whose list holds a new cell -/
theorem addNewSumZero_dict (m : Mach) (s : Nat) (nm : String) (hs : s < m.sims.length) :
    ∀ e ∈ dictOf (addNewSumZero m s nm).1 s,
      e ∈ dictOf m s ∨ ∀ a ∈ listAt (addNewSumZero m s nm).1 e.2, m.res.length ≤ a := by
  intro e he
  simp only [addNewSumZero, allocRes, addResult, List.getElem?_append_right (Nat.le_refl _),
    Nat.sub_self, List.getElem?_cons_zero, allocList] at he ⊢
  rw [dictOf_setDict _ _ _ (by simpa using hs)] at he
  rcases mem_dictSet he with h | h
  · left; simpa [dictOf] using h
  · right
    subst h
    intro a ha
    simp [listAt, setDict] at ha
    omega

theorem frame_mergeNsr (m : Mach) (s o : Nat) (hs : s < m.sims.length) (hwf : WfS m s) :
    Frame (W0 m s) s m (mergeNsr m s o).1
      ∧ ∀ e ∈ dictOf (mergeNsr m s o).1 s,
          e ∈ dictOf m s ∨ ∀ a ∈ listAt (mergeNsr m s o).1 e.2, m.res.length ≤ a := by
  unfold mergeNsr
  split
  · exact ⟨Frame.refl _ _ _, fun e he => Or.inl he⟩
  · -- m1 : with or without the new entry
    generalize hm1 : (if (dictGet? (dictOf m s) nsr).isNone = true then (addNewSumZero m s nsr).1 else m) = m1
    have hf1 : Frame (W0 m s) s m m1 := by
      rw [← hm1]; split
      · exact frame_addNewSumZero _ _ _ _
      · exact Frame.refl _ _ _
    have hd1 : ∀ e ∈ dictOf m1 s, e ∈ dictOf m s ∨ ∀ a ∈ listAt m1 e.2, m.res.length ≤ a := by
      rw [← hm1]; split
      · exact addNewSumZero_dict m s nsr hs
      · exact fun e he => Or.inl he
    have hw1 := writeSet_sub hf1 hwf hd1
    dsimp only
    split
    · exact ⟨hf1, hd1⟩
    · rename_i a ha
      split
      · exact ⟨hf1, hd1⟩
      · rename_i b hb
        have hwa : W0 m s a := hw1 a (lastOf_mem_writeSet ha)
        refine ⟨hf1.trans (frame_mergeR _ _ _ _ _ hwa), ?_⟩
        intro e he
        have hdd : dictOf (mergeR m1 a b).1 s = dictOf m1 s := by simp [dictOf, mergeR_sims]
        have hll : ∀ l, listAt (mergeR m1 a b).1 l = listAt m1 l := by intro l; simp [listAt, mergeR_lists]
        rw [hdd] at he
        rw [hll]
        exact hd1 e he

/-! ### the copying branch -/

theorem copyElems_spec (m : Mach) (as : List Nat) :
    Frame (fun _ => False) 0 m (copyElems m as).1 ∧ (copyElems m as).1.lists = m.lists
      ∧ (copyElems m as).1.sims = m.sims ∧ ∀ a ∈ (copyElems m as).2, m.res.length ≤ a := by
  induction as generalizing m with
  | nil => exact ⟨Frame.refl _ _ _, rfl, rfl, by simp [copyElems]⟩
  | cons a rest ih =>
    unfold copyElems
    split
    · exact ih m
    · rename_i r hr
      obtain ⟨h1, h2, h3, h4⟩ := ih (allocRes m r).1
      refine ⟨(frame_allocRes _ _ m r).trans h1, by rw [h2]; rfl, by rw [h3]; rfl, ?_⟩
      intro a' ha'
      rcases List.mem_cons.mp ha' with h | h
      · subst h; simp [allocRes]
      · have := h4 a' h; simp [allocRes] at this; omega

/-- every entry of `s` holds only cells allocated after `m0` -/
def FreshDict (m0 m : Mach) (s : Nat) : Prop :=
  ∀ e ∈ dictOf m s, m0.lists.length ≤ e.2 ∧ e.2 < m.lists.length ∧ ∀ a ∈ listAt m e.2, m0.res.length ≤ a

theorem frame_copyDict (m0 : Mach) (s : Nat) (m : Mach) (d : Dict) (hs : s < m.sims.length)
    (hf0 : Frame (fun _ => False) s m0 m) (hfd : FreshDict m0 m s) :
    Frame (fun _ => False) s m0 (copyDict s m d) ∧ FreshDict m0 (copyDict s m d) s := by
  induction d generalizing m with
  | nil => exact ⟨hf0, hfd⟩
  | cons e rest ih =>
    obtain ⟨nm, l⟩ := e
    unfold copyDict
    obtain ⟨c1, c2, c3, c4⟩ := copyElems_spec m (listAt m l)
    generalize hce : copyElems m (listAt m l) = ce at c1 c2 c3 c4
    obtain ⟨m1, cs⟩ := ce
    simp only at c1 c2 c3 c4 ⊢
    have hfr : Frame (fun _ => False) s m m1 :=
      { c1 with sims := fun j _ => by rw [c3] }
    -- the machine after allocList + setDict
    have hs2 : s < (allocList m1 cs).1.sims.length := by simp [allocList, c3]; exact hs
    have hstep : Frame (fun _ => False) s m
        (setDict (allocList m1 cs).1 s (dictSet (dictOf (allocList m1 cs).1 s) nm (allocList m1 cs).2)) :=
      (hfr.trans (frame_allocList _ _ m1 cs)).trans (frame_setDict _ _ _ _)
    apply ih _ (by simpa [setDict] using hs2) (hf0.trans hstep)
    intro e he
    rw [dictOf_setDict _ _ _ hs2] at he
    have hlen : (setDict (allocList m1 cs).1 s
        (dictSet (dictOf (allocList m1 cs).1 s) nm (allocList m1 cs).2)).lists = m1.lists ++ [cs] := by
      simp [setDict, allocList]
    rcases mem_dictSet he with h | h
    · have hd : dictOf (allocList m1 cs).1 s = dictOf m s := by simp [dictOf, allocList, c3]
      rw [hd] at h
      obtain ⟨g1, g2, g3⟩ := hfd e h
      refine ⟨g1, by rw [hlen, List.length_append, c2]; omega, ?_⟩
      rw [hstep.listAt g2]; exact g3
    · subst h
      refine ⟨by simp [allocList, c2]; exact hf0.listsLen, by rw [hlen]; simp [allocList], ?_⟩
      intro a ha
      have : listAt (setDict (allocList m1 cs).1 s
          (dictSet (dictOf (allocList m1 cs).1 s) nm (allocList m1 cs).2)) (allocList m1 cs).2 = cs := by
        simp [listAt, setDict, allocList]
      rw [this] at ha
      exact Nat.le_trans hf0.resLen (c4 a ha)

/-! ### `merge_all_results`: frame, write set, well-formedness -/

theorem wfS_of_dict {W : Nat → Prop} {m m' : Mach} {s : Nat} (hf : Frame W s m m') (hwf : WfS m s)
    (hd : ∀ e ∈ dictOf m' s, e ∈ dictOf m s ∨ e.2 < m'.lists.length) : WfS m' s := by
  intro e he
  rcases hd e he with h | h
  · exact Nat.lt_of_lt_of_le (hwf e h) hf.listsLen
  · exact h

theorem addNewSumZero_wf (m : Mach) (s : Nat) (nm : String) (hs : s < m.sims.length) :
    ∀ e ∈ dictOf (addNewSumZero m s nm).1 s,
      e ∈ dictOf m s ∨ e.2 < (addNewSumZero m s nm).1.lists.length := by
  intro e he
  simp only [addNewSumZero, allocRes, addResult, List.getElem?_append_right (Nat.le_refl _),
    Nat.sub_self, List.getElem?_cons_zero, allocList] at he ⊢
  rw [dictOf_setDict _ _ _ (by simpa using hs)] at he
  rcases mem_dictSet he with h | h
  · left; simpa [dictOf] using h
  · right; subst h; simp [setDict]

theorem mergeNsr_wf (m : Mach) (s o : Nat) (hs : s < m.sims.length) :
    ∀ e ∈ dictOf (mergeNsr m s o).1 s, e ∈ dictOf m s ∨ e.2 < (mergeNsr m s o).1.lists.length := by
  unfold mergeNsr
  split
  · exact fun e he => Or.inl he
  · generalize hm1 : (if (dictGet? (dictOf m s) nsr).isNone = true then (addNewSumZero m s nsr).1 else m) = m1
    have hd1 : ∀ e ∈ dictOf m1 s, e ∈ dictOf m s ∨ e.2 < m1.lists.length := by
      rw [← hm1]; split
      · exact addNewSumZero_wf m s nsr hs
      · exact fun e he => Or.inl he
    dsimp only
    split
    · exact hd1
    · rename_i a ha
      split
      · exact hd1
      · rename_i b hb
        intro e he
        have hdd : dictOf (mergeR m1 a b).1 s = dictOf m1 s := by simp [dictOf, mergeR_sims]
        rw [hdd] at he
        rw [mergeR_lists]
        exact hd1 e he

/-- **frame of `merge_all_results`** (repaired source), exceptions included -/
theorem mergeAll_frame (m : Mach) (s o : Nat) (hwf : WfS m s) :
    Frame (· ∈ writeSet m s) s m (mergeAll m s o).1
      ∧ (∀ a ∈ writeSet (mergeAll m s o).1 s, a ∈ writeSet m s ∨ m.res.length ≤ a)
      ∧ WfS (mergeAll m s o).1 s := by
  unfold mergeAll
  split
  · rename_i hso
    obtain ⟨hs, ho⟩ := hso
    split
    · -- empty: copy
      rename_i hempty
      have hfd : FreshDict m m s := by intro e he; rw [hempty] at he; cases he
      obtain ⟨hf, hfresh⟩ := frame_copyDict m s m (dictOf m o) hs (Frame.refl _ _ _) hfd
      refine ⟨hf.mono (fun _ h => h.elim), ?_, fun e he => (hfresh e he).2.1⟩
      intro a ha
      right
      simp only [writeSet, List.mem_filterMap] at ha
      obtain ⟨e, he, hl⟩ := ha
      exact (hfresh e he).2.2 a (List.mem_of_getLast? hl)
    · -- validation pass first: a failing one changes nothing
      split
      · exact ⟨Frame.refl _ _ _, fun a ha => Or.inl ha, hwf⟩
      split
      · exact ⟨Frame.refl _ _ _, fun a ha => Or.inl ha, hwf⟩
      -- merge loop, then the num_skipped_reps tail
      generalize hmn : mergeNames (dictOf m s) (dictOf m o) m (List.map (·.1) (dictOf m s)) = p
      obtain ⟨m1, e1⟩ := p
      have hf1 : Frame (W0 m s) s m m1 := by
        have := frame_mergeNames s m (dictOf m s) (dictOf m o) m (List.map (·.1) (dictOf m s)) rfl rfl
        rw [hmn] at this
        exact this.mono (fun _ h => Or.inl h)
      have hl1 : m1.lists = m.lists := by
        have := mergeNames_lists (dictOf m s) (dictOf m o) m (List.map (·.1) (dictOf m s)); rwa [hmn] at this
      have hs1 : m1.sims = m.sims := by
        have := mergeNames_sims (dictOf m s) (dictOf m o) m (List.map (·.1) (dictOf m s)); rwa [hmn] at this
      have hr1 : m1.res.length = m.res.length := by
        have := mergeNames_res_length (dictOf m s) (dictOf m o) m (List.map (·.1) (dictOf m s)); rwa [hmn] at this
      have hd1 : dictOf m1 s = dictOf m s := by simp [dictOf, hs1]
      have hw1 : writeSet m1 s = writeSet m s := writeSet_congr hl1 hs1 s
      have hwf1 : WfS m1 s := by intro e he; rw [hd1] at he; rw [hl1]; exact hwf e he
      cases e1 with
      | some e =>
        simp only
        refine ⟨hf1.restrict, fun a ha => Or.inl (hw1 ▸ ha), hwf1⟩
      | none =>
        simp only
        obtain ⟨hf2, hd2⟩ := frame_mergeNsr m1 s o (by rw [hs1]; exact hs) hwf1
        have hf2' : Frame (W0 m s) s m1 (mergeNsr m1 s o).1 :=
          hf2.mono (fun a h => by rw [W0, hw1, hr1] at h; exact h)
        have hf := hf1.trans hf2'
        refine ⟨hf.restrict, ?_, ?_⟩
        · apply writeSet_sub hf hwf
          intro e he
          rcases hd2 e he with h | h
          · left; rw [← hd1]; exact h
          · right; rw [← hr1]; exact h
        · apply wfS_of_dict hf hwf
          intro e he
          rcases mergeNsr_wf m1 s o (by rw [hs1]; exact hs) e he with h | h
          · left; rw [← hd1]; exact h
          · right; exact h
  · exact ⟨Frame.refl _ _ _, fun a ha => Or.inl ha, hwf⟩

/-! ### a watched operand under every history -/

/-- `w` is allocated and none of its Result objects is in the write set of `s` -/
structure Watch (m : Mach) (s w : Nat) : Prop where
  ne : w ≠ s
  wfS : WfS m s
  wfW : WfS m w
  sep : ∀ a ∈ reach m w, a < m.res.length ∧ a ∉ writeSet m s

theorem filterMap_congr' {α β} {f g : α → Option β} {l : List α} (h : ∀ a ∈ l, f a = g a) :
    l.filterMap f = l.filterMap g := by
  induction l with
  | nil => rfl
  | cons x xs ih =>
    simp only [List.filterMap_cons]
    rw [h x (by simp), ih (fun a ha => h a (by simp [ha]))]

theorem flatMap_congr' {α β} {f g : α → List β} {l : List α} (h : ∀ a ∈ l, f a = g a) :
    l.flatMap f = l.flatMap g := by
  induction l with
  | nil => rfl
  | cons x xs ih =>
    simp only [List.flatMap_cons]
    rw [h x (by simp), ih (fun a ha => h a (by simp [ha]))]

theorem view_eq_of_frame {W : Nat → Prop} {m m' : Mach} {s w : Nat} (hf : Frame W s m m')
    (hne : w ≠ s) (hwf : WfS m w) (hsep : ∀ a ∈ reach m w, a < m.res.length ∧ ¬ W a) :
    view m' w = view m w ∧ reach m' w = reach m w := by
  have hd : dictOf m' w = dictOf m w := hf.dictOf hne
  have hl : ∀ e ∈ dictOf m w, listAt m' e.2 = listAt m e.2 := fun e he => hf.listAt (hwf e he)
  constructor
  · simp only [view, hd]
    apply List.map_congr_left
    intro e he
    simp only [viewList, hl e he]
    congr 1
    apply filterMap_congr'
    intro a ha
    have := hsep a (by simp only [reach, List.mem_flatMap]; exact ⟨e, he, ha⟩)
    exact hf.res a this.1 this.2
  · simp only [reach, hd]
    apply flatMap_congr'
    intro e he
    exact hl e he

theorem watch_step (m : Mach) (s w : Nat) (op : SOp) (h : Watch m s w) :
    Watch (stepS s m op) s w ∧ view (stepS s m op) w = view m w := by
  cases op with
  | mergeAll o =>
    show Watch (mergeAll m s o).1 s w ∧ view (mergeAll m s o).1 w = view m w
    obtain ⟨hf, hw, hwf'⟩ := mergeAll_frame m s o h.wfS
    obtain ⟨hv, hr⟩ := view_eq_of_frame hf h.ne h.wfW h.sep
    refine ⟨⟨h.ne, hwf', ?_, ?_⟩, hv⟩
    · intro e he
      rw [hf.dictOf h.ne] at he
      exact Nat.lt_of_lt_of_le (h.wfW e he) hf.listsLen
    · intro a ha
      rw [hr] at ha
      obtain ⟨h1, h2⟩ := h.sep a ha
      refine ⟨Nat.lt_of_lt_of_le h1 hf.resLen, fun hin => ?_⟩
      rcases hw a hin with h' | h'
      · exact h2 h'
      · omega
  | updLast nm ob =>
    simp only [stepS]
    split
    · rename_i a ha
      have hf := frame_updR (· ∈ writeSet m s) s m a ob (lastOf_mem_writeSet ha)
      obtain ⟨hv, hr⟩ := view_eq_of_frame hf h.ne h.wfW h.sep
      have hws : writeSet (updR m a ob).1 s = writeSet m s :=
        writeSet_congr (updR_lists m a ob) (updR_sims m a ob) s
      refine ⟨⟨h.ne, ?_, ?_, ?_⟩, hv⟩
      · intro e he
        rw [show dictOf (updR m a ob).1 s = dictOf m s by simp [dictOf, updR_sims]] at he
        rw [updR_lists]; exact h.wfS e he
      · intro e he
        rw [show dictOf (updR m a ob).1 w = dictOf m w by simp [dictOf, updR_sims]] at he
        rw [updR_lists]; exact h.wfW e he
      · intro a' ha'
        rw [hr] at ha'
        rw [hws, updR_res_length]
        exact h.sep a' ha'
    · exact ⟨h, rfl⟩

/-- **separation is an invariant**: whatever is merged into `s` or updated through `s` later,
    an operand whose objects are outside the write set of `s` keeps its value -/
theorem watch_run (s w : Nat) (ops : List SOp) (m : Mach) (h : Watch m s w) :
    Watch (runS s m ops) s w ∧ view (runS s m ops) w = view m w := by
  induction ops generalizing m with
  | nil => exact ⟨h, rfl⟩
  | cons op rest ih =>
    obtain ⟨h1, v1⟩ := watch_step m s w op h
    obtain ⟨h2, v2⟩ := ih (stepS s m op) h1
    exact ⟨h2, v2.trans v1⟩

end PyPhysim.C06M
