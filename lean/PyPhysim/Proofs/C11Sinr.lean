import PyPhysim.Proofs.C11Quad

/-!
The quotient of `_calc_SINR_k` (all copies) in first-principles terms, its
behaviour under rescaling of the filter, and the agreement of the channel-object
and solver code paths.
-/
set_option linter.unusedSectionVars false
namespace PyPhysim.Sinr.Pf
open Matrix PyPhysim.Proto PyPhysim.Sinr PyPhysim.Sinr.Spec

variable {K n t s e : Nat} {T S : Fin K → Nat}

/-- the core on a real numerator and a real denominator -/
theorem sinrCore_real (uH : Mat ℂ 1 n) (u : Mat ℂ n 1) (G : Mat ℂ n t) (v : Mat ℂ t 1) (B : Mat ℂ n n)
    (sN sD : ℝ) (hn : sinrNum uH G v = (sN : ℂ)) (hd : sinrDen uH u B = (sD : ℂ)) :
    (sinrCore uH u G v B : Except PyErr ℝ) =
      if sD = 0 then .error .ZeroDivisionError else .ok |sN / sD| := by
  unfold sinrCore
  rw [hn, hd]
  by_cases h : sD = 0
  · simp [h]
  · have hc : ((sD : ℂ) == 0) = false := by
      rw [beq_eq_false_iff_ne]
      exact_mod_cast h
    rw [hc]
    simp only [Bool.false_eq_true, if_false, h]
    congr 1
    show ‖(sN : ℂ) / (sD : ℂ)‖ = _
    rw [← Complex.ofReal_div, Complex.norm_real, Real.norm_eq_abs]

/-- whatever the core returns as a value is `≥ 0` -/
theorem sinrCore_ok_nonneg (uH : Mat ℂ 1 n) (u : Mat ℂ n 1) (G : Mat ℂ n t) (v : Mat ℂ t 1) (B : Mat ℂ n n)
    (x : ℝ) (h : (sinrCore uH u G v B : Except PyErr ℝ) = .ok x) : 0 ≤ x := by
  unfold sinrCore at h
  split at h
  · cases h
  · cases h
    exact norm_nonneg _

/-! ### the terms that are not streams of a user -/

theorem noisePow_zero (w : Fin n → ℂ) : noisePow 0 w = 0 := by simp [noisePow]

theorem qf_baseRek {uH : Mat ℂ 1 n} {u : Mat ℂ n 1} {w : Fin n → ℂ} (hf : IsFilt uH u w) (noise : Option ℝ) :
    qf uH u (toM (baseRek n noise)) = ((noisePow (noiseVar noise) w : ℝ) : ℂ) := by
  cases noise <;> simp only [baseRek, noiseVar, qf_noiseCov hf]

theorem qf_extRek {uH : Mat ℂ 1 n} {u : Mat ℂ n 1} {w : Fin n → ℂ} (hf : IsFilt uH u w)
    (He : Mat ℂ n e) (pe : ℝ) (noise : Option ℝ) :
    qf uH u (toM (extRek He pe noise)) = ((extPow He pe w + noisePow (noiseVar noise) w : ℝ) : ℂ) := by
  cases noise with
  | none => simp only [extRek, noiseVar, qf_extCov hf, noisePow_zero, add_zero]
  | some v => simp only [extRek, noiseVar, toM_madd, qf_add, qf_extCov hf, qf_noiseCov hf, Complex.ofReal_add]

theorem qf_solRek_none {uH : Mat ℂ 1 n} {u : Mat ℂ n 1} {w : Fin n → ℂ} (hf : IsFilt uH u w) (σ2 : ℝ) :
    qf uH u (toM (solRek (e := 0) n σ2 none)) = ((noisePow σ2 w : ℝ) : ℂ) := by
  simp only [solRek, qf_noiseCov hf]

theorem qf_solRek_some {uH : Mat ℂ 1 n} {u : Mat ℂ n 1} {w : Fin n → ℂ} (hf : IsFilt uH u w) (σ2 : ℝ)
    (He : Mat ℂ n e) :
    qf uH u (toM (solRek n σ2 (some He))) = ((extPow He 1 w + noisePow σ2 w : ℝ) : ℂ) := by
  simp only [solRek, toM_madd, qf_add, qf_extCov hf, qf_noiseCov hf, Complex.ofReal_add]
  ring

/-! ### denominators -/

theorem own_stream {uH : Mat ℂ 1 n} {u : Mat ℂ n 1} {w : Fin n → ℂ} (hf : IsFilt uH u w)
    (G : (j : Fin K) → Mat ℂ n (T j)) (V : (j : Fin K) → Mat ℂ (T j) (S j)) (k : Fin K) (l : Fin (S k)) :
    qf uH u ((toM (G k) * toM (colOf (V k) l)) * (toM (G k) * toM (colOf (V k) l))ᴴ) =
      ((streamPow G V w k l : ℝ) : ℂ) := by
  rw [qf_link hf, Fin.sum_univ_one]
  rfl

theorem chDen_eq {uH : Mat ℂ 1 n} {u : Mat ℂ n 1} {w : Fin n → ℂ} (hf : IsFilt uH u w)
    (G : (j : Fin K) → Mat ℂ n (T j)) (V : (j : Fin K) → Mat ℂ (T j) (S j)) (Rek : Mat ℂ n n)
    (k : Fin K) (l : Fin (S k)) (q : ℝ) (hq : qf uH u (toM Rek) = (q : ℂ)) :
    sinrDen uH u (chBkl G V Rek k l) = ((intfPow G V w k l + q : ℝ) : ℂ) := by
  rw [sinrDen_eq]
  simp only [chBkl, chFirst, chSecond, toM_msub, toM_madd, toM_sumMat, toM_covTerm]
  rw [qf_sub, qf_add, qf_total hf, hq, own_stream hf, ← total_sub_own]
  push_cast
  ring

theorem solDen_eq {uH : Mat ℂ 1 n} {u : Mat ℂ n 1} {w : Fin n → ℂ} (hf : IsFilt uH u w)
    (G : (j : Fin K) → Mat ℂ n (T j)) (V : (j : Fin K) → Mat ℂ (T j) (S j)) (Rn : Mat ℂ n n)
    (k : Fin K) (l : Fin (S k)) (q : ℝ) (hq : qf uH u (toM Rn) = (q : ℂ)) :
    sinrDen uH u (solBkl G V Rn k l) = ((intfPow G V w k l + q : ℝ) : ℂ) := by
  rw [sinrDen_eq]
  simp only [solBkl, solFirst, solSecond, toM_msub, toM_madd, toM_sumMat, toM_covTermS]
  rw [qf_add, qf_sub, qf_total hf, hq, own_stream hf, ← total_sub_own]
  push_cast
  ring

/-! ### the reported value -/

theorem chSinr_eq (G : (j : Fin K) → Mat ℂ n (T j)) (V : (j : Fin K) → Mat ℂ (T j) (S j))
    (k : Fin K) (Uk : Mat ℂ n (S k)) (Rek : Mat ℂ n n) (l : Fin (S k)) (q : ℝ)
    (hq : qf (cT (colOf Uk l)) (colOf Uk l) (toM Rek) = (q : ℂ)) :
    (chSinr G V k Uk Rek l : Except PyErr ℝ) =
      if intfPow G V (filt Uk l) k l + q = 0 then .error .ZeroDivisionError
      else .ok |sigPow G V (filt Uk l) k l / (intfPow G V (filt Uk l) k l + q)| := by
  have hf := isFilt_channel Uk l
  exact sinrCore_real _ _ _ _ _ _ _ (sinrNum_eq hf (G k) (colOf (V k) l)) (chDen_eq hf G V Rek k l q hq)

theorem solSinr_eq (G : (j : Fin K) → Mat ℂ n (T j)) (V : (j : Fin K) → Mat ℂ (T j) (S j))
    (k : Fin K) (WHk : Mat ℂ (S k) n) (Rn : Mat ℂ n n) (l : Fin (S k)) (q : ℝ)
    (hq : qf (rowOf WHk l) (cT (rowOf WHk l)) (toM Rn) = (q : ℂ)) :
    (solSinr G V k WHk Rn l : Except PyErr ℝ) =
      if intfPow G V (filtH WHk l) k l + q = 0 then .error .ZeroDivisionError
      else .ok |sigPow G V (filtH WHk l) k l / (intfPow G V (filtH WHk l) k l + q)| := by
  have hf := isFilt_solver WHk l
  exact sinrCore_real _ _ _ _ _ _ _ (sinrNum_eq hf (G k) (colOf (V k) l)) (solDen_eq hf G V Rn k l q hq)

/-! ### signs -/

theorem streamPow_nonneg (G : (j : Fin K) → Mat ℂ n (T j)) (V : (j : Fin K) → Mat ℂ (T j) (S j))
    (w : Fin n → ℂ) (j : Fin K) (d : Fin (S j)) : 0 ≤ streamPow G V w j d := Complex.normSq_nonneg _

theorem intfPow_nonneg (G : (j : Fin K) → Mat ℂ n (T j)) (V : (j : Fin K) → Mat ℂ (T j) (S j))
    (w : Fin n → ℂ) (k : Fin K) (l : Fin (S k)) : 0 ≤ intfPow G V w k l :=
  Finset.sum_nonneg (fun _ _ => streamPow_nonneg _ _ _ _ _)

theorem extPow_nonneg (He : Mat ℂ n e) {pe : ℝ} (h : 0 ≤ pe) (w : Fin n → ℂ) : 0 ≤ extPow He pe w :=
  mul_nonneg h (Finset.sum_nonneg (fun _ _ => Complex.normSq_nonneg _))

theorem noisePow_nonneg {σ2 : ℝ} (h : 0 ≤ σ2) (w : Fin n → ℂ) : 0 ≤ noisePow σ2 w :=
  mul_nonneg h (Finset.sum_nonneg (fun _ _ => Complex.normSq_nonneg _))

theorem noiseVar_nonneg {noise : Option ℝ} (h : ∀ v, noise = some v → 0 ≤ v) : 0 ≤ noiseVar noise := by
  cases noise with
  | none => exact le_refl _
  | some v => exact h v rfl

/-- `if D = 0 then error else ok |N / D|` with `N, D ≥ 0` and `D ≠ 0` -/
theorem ite_ok_of_pos {N D : ℝ} (hN : 0 ≤ N) (hD : 0 ≤ D) (h : D ≠ 0) :
    (if D = 0 then (.error .ZeroDivisionError : Except PyErr ℝ) else .ok |N / D|) = .ok (N / D) := by
  rw [if_neg h, abs_of_nonneg (div_nonneg hN hD)]

/-! ### rescaling the filter -/

theorem sinrCore_scale (uH : Mat ℂ 1 n) (u : Mat ℂ n 1) (G : Mat ℂ n t) (v : Mat ℂ t 1) (B : Mat ℂ n n)
    (c : ℂ) (hc : c ≠ 0) :
    (sinrCore (smul (star c) uH) (smul c u) G v B : Except PyErr ℝ) = sinrCore uH u G v B := by
  have hz : star c * c ≠ 0 := mul_ne_zero (star_ne_zero.mpr hc) hc
  have hnum : sinrNum (smul (star c) uH) G v = (star c * c) * sinrNum uH G v := by
    simp only [sinrNum, item_eq, toM_matMul, toM_cT, toM_smul, Matrix.smul_mul, conjTranspose_smul,
      Matrix.mul_smul, Matrix.smul_apply, smul_eq_mul, star_star]
    ring
  have hden : sinrDen (smul (star c) uH) (smul c u) B = (star c * c) * sinrDen uH u B := by
    simp only [sinrDen, item_eq, toM_matMul, toM_smul, Matrix.smul_mul, Matrix.mul_smul,
      Matrix.smul_apply, smul_eq_mul]
    ring
  unfold sinrCore
  rw [hnum, hden]
  by_cases h : sinrDen uH u B = 0
  · simp [h]
  · have h1 : (sinrDen uH u B == 0) = false := by rw [beq_eq_false_iff_ne]; exact h
    have h2 : (star c * c * sinrDen uH u B == 0) = false := by
      rw [beq_eq_false_iff_ne]; exact mul_ne_zero hz h
    rw [h1, h2]
    simp only [Bool.false_eq_true, if_false]
    rw [mul_div_mul_left _ _ hz]

theorem colOf_scaleCol_self (U : Mat ℂ n s) (l : Fin s) (c : ℂ) :
    colOf (scaleCol U l c) l = smul c (colOf U l) := by
  funext a b; simp [colOf, scaleCol, smul]

theorem cT_colOf_scaleCol_self (U : Mat ℂ n s) (l : Fin s) (c : ℂ) :
    cT (colOf (scaleCol U l c) l) = smul (star c) (cT (colOf U l)) := by
  funext a b; simp [cT, colOf, scaleCol, smul, Conj.conj]

theorem colOf_scaleCol_other (U : Mat ℂ n s) (l l' : Fin s) (c : ℂ) (h : l' ≠ l) :
    colOf (scaleCol U l c) l' = colOf U l' := by
  funext a b; simp [colOf, scaleCol, h]

theorem rowOf_scaleRow_self (WH : Mat ℂ s n) (l : Fin s) (c : ℂ) :
    rowOf (scaleRow WH l c) l = smul c (rowOf WH l) := by
  funext a b; simp [rowOf, scaleRow, smul]

theorem cT_rowOf_scaleRow_self (WH : Mat ℂ s n) (l : Fin s) (c : ℂ) :
    cT (rowOf (scaleRow WH l c) l) = smul (star c) (cT (rowOf WH l)) := by
  funext a b; simp [cT, rowOf, scaleRow, smul, Conj.conj]

theorem rowOf_scaleRow_other (WH : Mat ℂ s n) (l l' : Fin s) (c : ℂ) (h : l' ≠ l) :
    rowOf (scaleRow WH l c) l' = rowOf WH l' := by
  funext a b; simp [rowOf, scaleRow, h]

/-! ### the two code paths -/

theorem covTerm_eq_covTermS (G : Mat ℂ n t) (V : Mat ℂ t s) : covTerm G V = covTermS G V :=
  toM_inj (by rw [toM_covTerm, toM_covTermS])

theorem cT_colOf_cT (WH : Mat ℂ s n) (l : Fin s) : cT (colOf (cT WH) l) = rowOf WH l := by
  funext a b; simp [cT, colOf, rowOf, Conj.conj]

theorem colOf_cT (WH : Mat ℂ s n) (l : Fin s) : colOf (cT WH) l = cT (rowOf WH l) := by
  funext a b; simp [cT, colOf, rowOf]

theorem cT_cT {a b : Nat} (A : Mat ℂ a b) : cT (cT A) = A := by
  funext i j; simp [cT, Conj.conj]

theorem solBkl_eq_chBkl (G : (j : Fin K) → Mat ℂ n (T j)) (V : (j : Fin K) → Mat ℂ (T j) (S j))
    (R : Mat ℂ n n) (k : Fin K) (l : Fin (S k)) : solBkl G V R k l = chBkl G V R k l := by
  apply toM_inj
  simp only [solBkl, solFirst, solSecond, chBkl, chFirst, chSecond, toM_madd, toM_msub, toM_sumMat,
    toM_covTerm, toM_covTermS]
  abel

theorem solSinr_eq_chSinr (G : (j : Fin K) → Mat ℂ n (T j)) (V : (j : Fin K) → Mat ℂ (T j) (S j))
    (k : Fin K) (WHk : Mat ℂ (S k) n) (R R' : Mat ℂ n n) (hR : R = R') (l : Fin (S k)) :
    (solSinr G V k WHk R l : Except PyErr ℝ) = chSinr G V k (cT WHk) R' l := by
  subst hR
  simp only [solSinr, chSinr, colOf_cT, cT_cT, solBkl_eq_chBkl]

theorem solNoiseVar_eq (noise : Option ℝ) : solNoiseVar noise = noiseVar noise := by
  cases noise <;> rfl

theorem solRek_none_eq_baseRek (noise : Option ℝ) :
    (solRek (e := 0) n (solNoiseVar noise) none : Mat ℂ n n) = baseRek n noise := by
  cases noise <;> rfl

theorem solRek_some_eq_extRek (He : Mat ℂ n e) (noise : Option ℝ) :
    (solRek n (solNoiseVar noise) (some He) : Mat ℂ n n) = extRek He 1 noise := by
  apply toM_inj
  rw [solNoiseVar_eq]
  cases noise with
  | none =>
    simp only [solRek, extRek, noiseVar, toM_madd, toM_noiseCov, Complex.ofReal_zero, zero_smul, zero_add]
  | some v =>
    simp only [solRek, extRek, noiseVar, toM_madd]
    abel

end PyPhysim.Sinr.Pf
