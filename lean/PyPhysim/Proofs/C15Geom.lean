import PyPhysim.Proofs.C16Dmin
import PyPhysim.Proofs.GrayGenerated

/-! Geometric half of C15: PSK points at minimum distance are exactly ring neighbours. -/
namespace PyPhysim.C15
open PyPhysim.C01 PyPhysim.C16 PyPhysim.Gray

/-- `cos(2π d/M) < cos(2π/M)` for `2 ≤ d ≤ M-2` -/
theorem cos_step_lt (M d : Nat) (h1 : 2 ≤ d) (h2 : d + 2 ≤ M) :
    Real.cos (2 * Real.pi / M * (d:ℝ)) < Real.cos (2 * Real.pi / M) := by
  have hM : (0:ℝ) < M := by exact_mod_cast (by omega : 0 < M)
  have hpi := Real.pi_pos
  have hstep : 0 < 2 * Real.pi / (M:ℝ) := by positivity
  rcases Nat.lt_or_ge M (2 * d) with hbig | hsmall
  · have hd' : (2:ℝ) ≤ ((M - d : Nat) : ℝ) := by exact_mod_cast (by omega : 2 ≤ M - d)
    have e : 2 * Real.pi / M * (d:ℝ) = 2 * Real.pi - 2 * Real.pi / M * ((M - d : Nat) : ℝ) := by
      rw [Nat.cast_sub (by omega)]; field_simp; ring
    rw [e, Real.cos_two_pi_sub]
    apply Real.cos_lt_cos_of_nonneg_of_le_pi hstep.le
    · have : (((M - d : Nat)):ℝ) ≤ (M:ℝ) / 2 := by
        rw [Nat.cast_sub (by omega)]
        have : (M:ℝ) < 2 * d := by exact_mod_cast hbig
        linarith
      calc 2 * Real.pi / M * ((M - d : Nat) : ℝ) ≤ 2 * Real.pi / M * ((M:ℝ) / 2) :=
            mul_le_mul_of_nonneg_left this hstep.le
        _ = Real.pi := by field_simp
    · calc 2 * Real.pi / (M:ℝ) = 2 * Real.pi / M * 1 := by ring
        _ < 2 * Real.pi / M * ((M - d : Nat) : ℝ) := mul_lt_mul_of_pos_left (by linarith) hstep
  · have hd' : (2:ℝ) ≤ d := by exact_mod_cast h1
    apply Real.cos_lt_cos_of_nonneg_of_le_pi hstep.le
    · have : (d:ℝ) ≤ (M:ℝ) / 2 := by
        have : (2 * d : ℝ) ≤ M := by exact_mod_cast hsmall
        linarith
      calc 2 * Real.pi / M * (d:ℝ) ≤ 2 * Real.pi / M * ((M:ℝ) / 2) :=
            mul_le_mul_of_nonneg_left this hstep.le
        _ = Real.pi := by field_simp
    · calc 2 * Real.pi / (M:ℝ) = 2 * Real.pi / M * 1 := by ring
        _ < 2 * Real.pi / M * (d:ℝ) := mul_lt_mul_of_pos_left (by linarith) hstep

/-- two distinct natural PSK positions at (at most) the minimum distance are ring neighbours -/
theorem psk_min_pairs_adjacent (M p₁ p₂ : Nat) (h₁ : p₁ < M) (h₂ : p₂ < M) (hne : p₁ ≠ p₂) (φ : ℝ)
    (hd : dist2 (pskNaturalPoint M p₁ φ) (pskNaturalPoint (α := ℝ) M p₂ φ) ≤ (2 * Real.sin (Real.pi / M)) ^ 2) :
    ringAdjacent M p₁ p₂ = true := by
  rw [psk_dist2, ← two_sub_two_cos] at hd
  have e0 : 2 * (Real.pi / (M:ℝ)) = 2 * Real.pi / M := by ring
  rw [e0] at hd
  simp only [ringAdjacent, Bool.or_eq_true, beq_iff_eq]
  by_contra hadj
  rw [not_or] at hadj
  obtain ⟨ha, hb⟩ := hadj
  rcases Nat.lt_or_ge p₁ p₂ with hlt | hge
  · -- d = p₂ - p₁ ∈ [2, M-2]
    have hd2 : 2 ≤ p₂ - p₁ := by
      by_contra hc
      have : p₂ = p₁ + 1 := by omega
      apply ha; rw [this]; exact Nat.mod_eq_of_lt (by omega)
    have hdM : p₂ - p₁ + 2 ≤ M := by
      by_contra hc
      have h0 : p₁ = 0 := by omega
      have hM1 : p₂ + 1 = M := by omega
      apply hb; rw [hM1, Nat.mod_self, h0]
    have := cos_step_lt M (p₂ - p₁) hd2 hdM
    have e : 2 * Real.pi / M * ((p₁:ℝ) - p₂) = -(2 * Real.pi / M * ((p₂ - p₁ : Nat) : ℝ)) := by
      rw [Nat.cast_sub (le_of_lt hlt)]; ring
    rw [e, Real.cos_neg] at hd; linarith
  · have hgt : p₂ < p₁ := by omega
    have hd2 : 2 ≤ p₁ - p₂ := by
      by_contra hc
      have : p₁ = p₂ + 1 := by omega
      apply hb; rw [this]; exact Nat.mod_eq_of_lt (by omega)
    have hdM : p₁ - p₂ + 2 ≤ M := by
      by_contra hc
      have h0 : p₂ = 0 := by omega
      have hM1 : p₁ + 1 = M := by omega
      apply ha; rw [hM1, Nat.mod_self, h0]
    have := cos_step_lt M (p₁ - p₂) hd2 hdM
    have e : 2 * Real.pi / M * ((p₁:ℝ) - p₂) = 2 * Real.pi / M * ((p₁ - p₂ : Nat) : ℝ) := by
      rw [Nat.cast_sub (le_of_lt hgt)]
    rw [e] at hd; linarith

end PyPhysim.C15
