import PyPhysim.Proofs.C10Hist
/-!
Freshness of `full_F` (a stored value is `_F * sqrt(P)` for the CURRENT `_F`
and power unless it was given from outside) and consistency of `_Ns` with the
stored precoders, along every history of the repaired machine.
-/
set_option linter.unusedSimpArgs false
set_option linter.unusedVariables false
namespace PyPhysim.C10
open PyPhysim.Proto

variable {μ ρ : Type}

theorem fullFDerived_congr (O : Ops μ ρ) (K : Nat) (s t : State μ ρ) (h : FullFDerived O K s)
    (hf : t.f = s.f) (hff : t.fullF = s.fullF) (hp : t.p = s.p) : FullFDerived O K t := by
  intro X hX
  have : derivedFullF O K t = derivedFullF O K s := by
    unfold derivedFullF curP; rw [hf, hp]
  rw [this]; exact h X (hff ▸ hX)

theorem fullFDerived_of_none (O : Ops μ ρ) (K : Nat) (st : State μ ρ) (h : st.fullF = none) :
    FullFDerived O K st := by
  intro X hX; rw [h] at hX; cases hX

theorem readFullF_fullFDerived (O : Ops μ ρ) (K : Nat) (st : State μ ρ) (h : FullFDerived O K st) :
    FullFDerived O K (readFullF O K st).1 := by
  unfold readFullF
  cases hf : st.fullF with
  | some X => exact h
  | none =>
    cases hF : st.f with
    | none => exact h
    | some F =>
      simp only
      cases hs : O.scale F (curP O K st) with
      | error e => exact h
      | ok X =>
        intro X' hX'
        simp only [Option.some.injEq] at hX'
        subst hX'
        simp only [derivedFullF, hF]
        exact hs

/-- fields the `full_W_H` getter never changes -/
theorem readFullWH_keeps (cfg : Cfg) (O : Ops μ ρ) (K : Nat) (st : State μ ρ) :
    (readFullWH cfg O K st).1.f = st.f ∧ (readFullWH cfg O K st).1.ns = st.ns
    ∧ (readFullWH cfg O K st).1.p = st.p := by
  unfold readFullWH
  cases hz : st.fullWH with
  | some Z => simp
  | none =>
    simp only
    have f1 := readWH_fields O st
    cases hr : readWH O st with
    | mk st1 oy =>
      rw [hr] at f1; simp only at f1
      cases oy with
      | none => exact ⟨f1.1, f1.2.2.2.2.2, f1.2.2.1⟩
      | some Y =>
        simp only
        have f2 := readFullF_fields O K st1
        cases hr2 : readFullF O K st1 with
        | mk st2 r2 =>
          rw [hr2] at f2; simp only at f2
          have c : st2.f = st.f ∧ st2.ns = st.ns ∧ st2.p = st.p :=
            ⟨by rw [f2.1, f1.1], by rw [f2.2.2.2.2.2.2, f1.2.2.2.2.2], by rw [f2.2.1, f1.2.2.1]⟩
          cases r2 with
          | error e => by_cases ha : cfg.atomic <;> simp [ha, c]
          | ok fF =>
            simp only
            cases hc : O.comp Y fF with
            | error e => by_cases ha : cfg.atomic <;> simp [ha, c]
            | ok Z => simp [c]

theorem readFullW_keeps (cfg : Cfg) (O : Ops μ ρ) (K : Nat) (st : State μ ρ) :
    (readFullW cfg O K st).1.f = st.f ∧ (readFullW cfg O K st).1.ns = st.ns
    ∧ (readFullW cfg O K st).1.p = st.p := by
  unfold readFullW
  cases hz : st.fullW with
  | some Z => simp
  | none =>
    simp only
    have k := readFullWH_keeps cfg O K st
    cases hr : readFullWH cfg O K st with
    | mk st1 r =>
      rw [hr] at k; simp only at k
      cases r with
      | error e => by_cases ha : cfg.atomic <;> simp [ha, k]
      | ok oz =>
        cases oz with
        | none => by_cases ha : cfg.atomic <;> simp [ha, k]
        | some Z => simp [k]

theorem readFullWH_fullFDerived (O : Ops μ ρ) (K : Nat) (st : State μ ρ) (h : FullFDerived O K st) :
    FullFDerived O K (readFullWH Cfg.fixed O K st).1 := by
  unfold readFullWH
  cases hz : st.fullWH with
  | some Z => exact h
  | none =>
    simp only
    have f1 := readWH_fields O st
    cases hr : readWH O st with
    | mk st1 oy =>
      rw [hr] at f1; simp only at f1
      have h1 : FullFDerived O K st1 := fullFDerived_congr O K st st1 h f1.1 f1.2.1 f1.2.2.1
      cases oy with
      | none => exact h1
      | some Y =>
        simp only
        have h2 := readFullF_fullFDerived O K st1 h1
        cases hr2 : readFullF O K st1 with
        | mk st2 r2 =>
          rw [hr2] at h2; simp only at h2
          cases r2 with
          | error e => simpa [Cfg.fixed] using h2
          | ok fF =>
            simp only
            cases hc : O.comp Y fF with
            | error e => simpa [Cfg.fixed] using h2
            | ok Z => exact fullFDerived_congr O K st2 _ h2 rfl rfl rfl

theorem readFullW_fullFDerived (O : Ops μ ρ) (K : Nat) (st : State μ ρ) (h : FullFDerived O K st) :
    FullFDerived O K (readFullW Cfg.fixed O K st).1 := by
  unfold readFullW
  cases hz : st.fullW with
  | some Z => exact h
  | none =>
    simp only
    have h1 := readFullWH_fullFDerived O K st h
    cases hr : readFullWH Cfg.fixed O K st with
    | mk st1 r =>
      rw [hr] at h1; simp only at h1
      cases r with
      | error e => simpa [Cfg.fixed] using h1
      | ok oz =>
        cases oz with
        | none => simpa [Cfg.fixed] using h1
        | some Z => exact fullFDerived_congr O K st1 _ h1 rfl rfl rfl

/-- an operation that does not itself store a `_full_F` keeps every stored
    `_full_F` equal to `_F * sqrt(P)` for the current `_F` and power -/
theorem step_fullFDerived (O : Ops μ ρ) (K : Nat) (st : State μ ρ) (op : Op μ ρ)
    (hi : op.installsFullF = false) (h : FullFDerived O K st) :
    FullFDerived O K (step Cfg.fixed O K st op).1 := by
  cases op with
  | setP v =>
    simp only [step]
    rcases setP_cases O K st v with ⟨p, e⟩ | e <;> rw [e]
    · exact fullFDerived_of_none O K _ rfl
    · exact h
  | randomizeF drawn ns p =>
    simp only [step]
    rcases randomizeF_cases O K st drawn ns p with ⟨q, e⟩ | e <;> rw [e]
    · exact fullFDerived_of_none O K _ rfl
    · exact h
  | setInit a => exact h
  | query => exact h
  | fork => exact h
  | setPrecoders f fullF p =>
    cases fullF with
    | some X => simp [Op.installsFullF] at hi
    | none =>
      cases f with
      | none => exact h
      | some F => exact fullFDerived_of_none O K _ rfl
  | setFilters wH w =>
    simp only [step]
    rcases setFilters_cases st wH w with e | e <;> rw [e]
    · exact h
    · exact fullFDerived_congr O K st _ h rfl rfl rfl
  | solve cf ns p sol =>
    simp only [Op.installsFullF, Option.isSome_eq_false_iff, Option.isNone_iff_eq_none] at hi
    simp only [step]
    rcases solve_cases O K st cf ns p sol with e | e | ⟨q, e⟩ <;> rw [e]
    · exact h
    · exact h
    · exact fullFDerived_of_none O K _ hi
  | clear => exact fullFDerived_of_none O K _ rfl
  | readF => exact h
  | readFullF => exact readFullF_fullFDerived O K st h
  | readW =>
    have f := readW_fields O st
    exact fullFDerived_congr O K st _ h f.1 f.2.1 f.2.2.1
  | readWH =>
    have f := readWH_fields O st
    exact fullFDerived_congr O K st _ h f.1 f.2.1 f.2.2.1
  | readFullWH => exact readFullWH_fullFDerived O K st h
  | readFullW => exact readFullW_fullFDerived O K st h
  | readNs => exact h
  | readP => exact h

theorem run_fullFDerived (O : Ops μ ρ) (K : Nat) :
    ∀ (ops : List (Op μ ρ)) (st : State μ ρ), (∀ op ∈ ops, op.installsFullF = false) →
      FullFDerived O K st → FullFDerived O K (run Cfg.fixed O K st ops).1
  | [], st, _, h => h
  | op :: ops, st, hi, h =>
    run_fullFDerived O K ops _ (fun o ho => hi o (List.mem_cons_of_mem _ ho))
      (step_fullFDerived O K st op (hi op List.mem_cons_self) h)

/-- the operation discards any stored `_full_F` when it succeeds -/
def Op.resetsFullF : Op μ ρ → Bool
  | .setP _ => true
  | .randomizeF _ _ _ => true
  | .setPrecoders (some _) none _ => true
  | .solve _ _ _ sol => sol.fullF.isNone
  | .clear => true
  | _ => false

theorem step_resets (O : Ops μ ρ) (K : Nat) (st : State μ ρ) (op : Op μ ρ)
    (hr : op.resetsFullF = true) (hok : (step Cfg.fixed O K st op).2 = .unit) :
    (step Cfg.fixed O K st op).1.fullF = none := by
  cases op with
  | setP v =>
    simp only [step] at hok ⊢
    rcases setP_cases O K st v with ⟨p, e⟩ | e <;> rw [e] at hok ⊢
    · rfl
    · simp [outOf] at hok
  | randomizeF drawn ns p =>
    simp only [step] at hok ⊢
    rcases randomizeF_cases O K st drawn ns p with ⟨q, e⟩ | e <;> rw [e] at hok ⊢
    · rfl
    · simp at hok
  | setPrecoders f fullF p =>
    cases f <;> cases fullF <;> simp [Op.resetsFullF] at hr
    rfl
  | solve cf ns p sol =>
    simp only [Op.resetsFullF, Option.isNone_iff_eq_none] at hr
    simp only [step] at hok ⊢
    rcases solve_cases O K st cf ns p sol with e | e | ⟨q, e⟩ <;> rw [e] at hok ⊢
    · simp at hok
    · simp at hok
    · exact hr
  | clear => rfl
  | setInit a => simp [Op.resetsFullF] at hr
  | query => simp [Op.resetsFullF] at hr
  | fork => simp [Op.resetsFullF] at hr
  | setFilters wH w => simp [Op.resetsFullF] at hr
  | readF => simp [Op.resetsFullF] at hr
  | readFullF => simp [Op.resetsFullF] at hr
  | readW => simp [Op.resetsFullF] at hr
  | readWH => simp [Op.resetsFullF] at hr
  | readFullWH => simp [Op.resetsFullF] at hr
  | readFullW => simp [Op.resetsFullF] at hr
  | readNs => simp [Op.resetsFullF] at hr
  | readP => simp [Op.resetsFullF] at hr

/-- reading `full_F` in a state where the stored value (if any) is derived returns
    `_F * sqrt(P)` for the current `_F` and the current power -/
theorem readFullF_derived (O : Ops μ ρ) (K : Nat) (st : State μ ρ) (h : FullFDerived O K st) :
    (readFullF O K st).2 = derivedFullF O K st := by
  unfold readFullF
  cases hf : st.fullF with
  | some X => simp [h X hf]
  | none =>
    unfold derivedFullF
    cases hF : st.f with
    | none => rfl
    | some F =>
      simp only
      cases hs : O.scale F (curP O K st) <;> rfl

/-! ### stream counts -/

theorem step_nsOK (O : Ops μ ρ) (K : Nat) (st : State μ ρ) (op : Op μ ρ)
    (hop : op.shapeOK O K) (h : NsOK O st) : NsOK O (step Cfg.fixed O K st op).1 := by
  cases op with
  | setP v =>
    have f := setP_fields O K st v
    intro F hF
    simp only [step] at hF ⊢
    rw [f.2.2.2]; exact h F (f.2.2.1 ▸ hF)
  | randomizeF drawn ns p =>
    simp only [step]
    rcases randomizeF_cases O K st drawn ns p with ⟨q, e⟩ | e <;> rw [e]
    · intro F hF
      simp only [Option.some.injEq] at hF
      subst hF
      simp only [Op.shapeOK] at hop
      simp [hop]
    · exact h
  | setInit a => exact h
  | query => exact h
  | fork => exact h
  | setPrecoders f fullF p =>
    simp only [step, doSetPrecoders]
    cases f <;> cases fullF <;> first | exact h | (intro F hF; simp at hF; subst hF; simp)
  | setFilters wH w =>
    simp only [step]
    rcases setFilters_cases st wH w with e | e <;> rw [e] <;> exact h
  | solve cf ns p sol =>
    simp only [step]
    rcases solve_cases O K st cf ns p sol with e | e | ⟨q, e⟩ <;> rw [e]
    · exact h
    · exact h
    · intro F hF
      simp only [Option.some.injEq] at hF
      subst hF
      simp only [Op.shapeOK] at hop
      simp [hop]
  | clear => intro F hF; simp [step, clearRx, clearTx, Cfg.fixed] at hF
  | readF => exact h
  | readFullF =>
    have f := readFullF_fields O K st
    intro F hF
    simp only [step] at hF ⊢
    rw [f.2.2.2.2.2.2]; exact h F (f.1 ▸ hF)
  | readW =>
    have f := readW_fields O st
    intro F hF
    simp only [step] at hF ⊢
    rw [f.2.2.2.2.2]; exact h F (f.1 ▸ hF)
  | readWH =>
    have f := readWH_fields O st
    intro F hF
    simp only [step] at hF ⊢
    rw [f.2.2.2.2.2]; exact h F (f.1 ▸ hF)
  | readFullWH =>
    have f := readFullWH_keeps Cfg.fixed O K st
    intro F hF
    simp only [step] at hF ⊢
    rw [f.2.1]; exact h F (f.1 ▸ hF)
  | readFullW =>
    have f := readFullW_keeps Cfg.fixed O K st
    intro F hF
    simp only [step] at hF ⊢
    rw [f.2.1]; exact h F (f.1 ▸ hF)
  | readNs => exact h
  | readP => exact h

theorem run_nsOK (O : Ops μ ρ) (K : Nat) :
    ∀ (ops : List (Op μ ρ)) (st : State μ ρ), (∀ op ∈ ops, op.shapeOK O K) →
      NsOK O st → NsOK O (run Cfg.fixed O K st ops).1
  | [], st, _, h => h
  | op :: ops, st, hs, h =>
    run_nsOK O K ops _ (fun o ho => hs o (List.mem_cons_of_mem _ ho))
      (step_nsOK O K st op (hs op List.mem_cons_self) h)

/-! ### rejected calls -/

/-- the operation is a call that modifies the object (not a getter) -/
def Op.isMutator : Op μ ρ → Bool
  | .setP _ => true
  | .randomizeF _ _ _ => true
  | .setPrecoders _ _ _ => true
  | .setFilters _ _ => true
  | .solve _ _ _ _ => true
  | .clear => true
  | .setInit _ => true
  | _ => false

/-- a mutator that raises leaves every attribute exactly as it was -/
theorem step_rejected_unchanged (O : Ops μ ρ) (K : Nat) (st : State μ ρ) (op : Op μ ρ)
    (hm : op.isMutator = true) (e : PyErr) (he : (step Cfg.fixed O K st op).2 = .err e) :
    (step Cfg.fixed O K st op).1 = st := by
  cases op with
  | setP v =>
    simp only [step] at he ⊢
    rcases setP_cases O K st v with ⟨p, h⟩ | h <;> rw [h] at he ⊢
    · simp [outOf] at he
  | randomizeF drawn ns p =>
    simp only [step] at he ⊢
    rcases randomizeF_cases O K st drawn ns p with ⟨q, h⟩ | h <;> rw [h] at he ⊢
    · simp at he
  | setPrecoders f fullF p =>
    cases f <;> cases fullF <;> first | rfl | (simp [step, doSetPrecoders] at he)
  | setFilters wH w =>
    simp only [step] at he ⊢
    rcases setFilters_cases st wH w with h | h <;> rw [h] at he ⊢
    · simp at he
  | solve cf ns p sol =>
    simp only [step] at he ⊢
    rcases solve_cases O K st cf ns p sol with h | h | ⟨q, h⟩ <;> rw [h] at he ⊢
    · simp at he
  | clear => simp [step] at he
  | setInit a => rfl
  | query => rfl
  | fork => rfl
  | readF => simp [Op.isMutator] at hm
  | readFullF => simp [Op.isMutator] at hm
  | readW => simp [Op.isMutator] at hm
  | readWH => simp [Op.isMutator] at hm
  | readFullWH => simp [Op.isMutator] at hm
  | readFullW => simp [Op.isMutator] at hm
  | readNs => simp [Op.isMutator] at hm
  | readP => simp [Op.isMutator] at hm

/-- a history with a rejected mutator in the middle ends in the same state, and produces the same
    later outputs, as the history without it -/
theorem run_skip_rejected (O : Ops μ ρ) (K : Nat) (pre post : List (Op μ ρ)) (op : Op μ ρ)
    (hm : op.isMutator = true) (e : PyErr)
    (he : (step Cfg.fixed O K (reach Cfg.fixed O K pre) op).2 = .err e) :
    reach Cfg.fixed O K (pre ++ op :: post) = reach Cfg.fixed O K (pre ++ post)
    ∧ (run Cfg.fixed O K (reach Cfg.fixed O K (pre ++ [op])) post).2
        = (run Cfg.fixed O K (reach Cfg.fixed O K pre) post).2 := by
  have h := step_rejected_unchanged O K (reach Cfg.fixed O K pre) op hm e he
  have h1 : reach Cfg.fixed O K (pre ++ [op]) = reach Cfg.fixed O K pre := by
    simp only [reach, run_append, run]; exact h
  refine ⟨?_, by rw [h1]⟩
  simp only [reach, run_append, run]
  rw [show (step Cfg.fixed O K (run Cfg.fixed O K (State.init μ ρ) pre).1 op).1
        = (run Cfg.fixed O K (State.init μ ρ) pre).1 from h]

end PyPhysim.C10
