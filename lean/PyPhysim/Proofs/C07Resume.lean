import PyPhysim.Proofs.C07Run

/-! Helper lemmas for C07: composing a crashed run with the restart. -/
namespace PyPhysim.C07

open PyPhysim.C05 (Outcome VarState Keep Stored Saved guard after stateOf freshState IsVarRun RunsSpec logOf
  oks skips)

variable {R T : Type}

/-! ### states along a run -/

/-- the state after one more outcome -/
theorem stateOf_snoc (merge : R → R → R) (start : Option (R × Nat)) (q : List (Outcome R)) (o : Outcome R) :
    stateOf merge start (q ++ [o]) =
      match stateOf merge start q with
      | some s => some (C05.stepOut merge s o)
      | none =>
        match o with
        | .ok r => some ⟨r, 1, skips q, q.length + 1⟩
        | .skip => none := by
  cases start with
  | some ar =>
    obtain ⟨a, n⟩ := ar
    simp only [stateOf]
    rw [C05.after_append, C05.after_cons, C05.after_nil]
  | none =>
    simp only [stateOf, freshState, C05.oks_append, C05.skips_append]
    cases hq : oks q with
    | nil =>
      cases o with
      | ok r => simp [oks, skips]
      | skip => simp [oks]
    | cons r0 rs =>
      cases o with
      | ok r =>
        simp only [oks, skips, List.cons_append, List.foldl_append, List.foldl_cons, List.foldl_nil,
          List.length_append, List.length_cons, List.length_nil, C05.stepOut, C05.stepOk]
        simp
      | skip =>
        simp only [oks, skips, List.append_nil, List.length_append, List.length_cons, List.length_nil,
          C05.stepOut, C05.stepSkip]

theorem stepOut_rep_le (merge : R → R → R) (s : VarState R) (o : Outcome R) :
    (C05.stepOut merge s o).rep ≤ s.rep + 1 := by
  cases o <;> simp [C05.stepOut, C05.stepOk, C05.stepSkip]

/-- the run had to go on after every proper prefix of `p` -/
def Running (merge : R → R → R) (repMax : Nat) (keep : Keep R) (start : Option (R × Nat))
    (p : List (Outcome R)) : Prop :=
  ∀ q, q <+: p → q ≠ p → ∀ s', stateOf merge start q = some s' → guard repMax keep s' = true

/-- a state reached while the guard allowed every step has at most `repMax` repetitions -/
theorem rep_le_of_running (merge : R → R → R) (repMax : Nat) (keep : Keep R) (start : Option (R × Nat))
    (p : List (Outcome R)) (s : VarState R) (hrun : Running merge repMax keep start p)
    (hs : stateOf merge start p = some s) (hstart : ∀ a n, start = some (a, n) → n ≤ repMax)
    (hmax : 1 ≤ repMax) : s.rep ≤ repMax := by
  rcases List.eq_nil_or_concat p with rfl | ⟨q, o, rfl⟩
  · cases start with
    | none => simp [stateOf, freshState, oks] at hs
    | some ar =>
      obtain ⟨a, n⟩ := ar
      simp only [stateOf, C05.after_nil, Option.some.injEq] at hs
      rw [← hs]; exact hstart a n rfl
  · rw [List.concat_eq_append] at hs hrun
    rw [stateOf_snoc] at hs
    cases hq : stateOf merge start q with
    | some s' =>
      rw [hq] at hs
      simp only [Option.some.injEq] at hs
      have hg := hrun q (List.prefix_append _ _) (by simp) s' hq
      simp only [C05.guard, Bool.and_eq_true, decide_eq_true_eq] at hg
      have := stepOut_rep_le merge s' o
      rw [hs] at this
      omega
    | none =>
      rw [hq] at hs
      cases o with
      | ok r => simp only [Option.some.injEq] at hs; rw [← hs]; exact hmax
      | skip => simp at hs

/-- **Resuming composes**: continuing from the saved `(acc, rep)` of the state after
    `p` with the outcomes `q` gives the same merged result and count as running
    `p ++ q` in one go. -/
theorem stateOf_resume (merge : R → R → R) (start : Option (R × Nat)) (p q : List (Outcome R))
    (s : VarState R) (hs : stateOf merge start p = some s) :
    ∃ s', stateOf merge start (p ++ q) = some s' ∧
      s'.acc = (after merge ⟨s.acc, s.rep, 0, 0⟩ q).acc ∧ s'.rep = (after merge ⟨s.acc, s.rep, 0, 0⟩ q).rep := by
  cases start with
  | some ar =>
    obtain ⟨a, n⟩ := ar
    simp only [stateOf, Option.some.injEq] at hs ⊢
    refine ⟨_, rfl, ?_, ?_⟩ <;> rw [C05.after_append, hs] <;> simp [after]
  | none =>
    simp only [stateOf, freshState] at hs ⊢
    cases hp : oks p with
    | nil => rw [hp] at hs; simp at hs
    | cons r rs =>
      rw [hp] at hs
      simp only [Option.some.injEq] at hs
      subst hs
      rw [C05.oks_append, hp]
      refine ⟨_, rfl, ?_, ?_⟩
      · simp [after, List.foldl_append]
      · simp [after]; omega

/-- how the start of a restarted variation relates to the crashed run: `p` are the
    outcomes of the crashed run whose merge was durably saved -/
def ResumedFrom (merge : R → R → R) (start0 : Option (R × Nat)) (p : List (Outcome R))
    (start1 : Option (R × Nat)) : Prop :=
  (p = [] ∧ start1 = start0) ∨ ∃ s, stateOf merge start0 p = some s ∧ start1 = some (s.acc, s.rep)

/-- final state of the restarted variation = state of the one-go run over `p ++ q`,
    as far as the merged result and the repetition count are concerned -/
theorem ResumedFrom.compose {merge : R → R → R} {start0 start1 : Option (R × Nat)} {p : List (Outcome R)}
    (h : ResumedFrom merge start0 p start1) (q : List (Outcome R)) (s2 : VarState R)
    (h2 : stateOf merge start1 q = some s2) :
    ∃ s', stateOf merge start0 (p ++ q) = some s' ∧ s'.acc = s2.acc ∧ s'.rep = s2.rep := by
  rcases h with ⟨rfl, rfl⟩ | ⟨s, hs, rfl⟩
  · exact ⟨s2, by simpa using h2, rfl, rfl⟩
  · obtain ⟨s', h1, h3, h4⟩ := stateOf_resume merge start0 p q s hs
    simp only [stateOf, Option.some.injEq] at h2
    exact ⟨s', h1, by rw [h3, h2], by rw [h4, h2]⟩

section
variable [DecidableEq T]

theorem loadPart_cfg_congr (cfg cfg2 : Cfg R T) (d : Disk R T) (i : Nat) (h : cfg2.tag i = cfg.tag i) :
    loadPart cfg2 d i = loadPart cfg d i := by
  unfold loadPart; rw [h]

theorem startOf_cfg_congr (cfg cfg2 : Cfg R T) (d : Disk R T) (i : Nat) (h : cfg2.tag i = cfg.tag i) :
    startOf cfg2 d i = startOf cfg d i := by
  unfold startOf; rw [loadPart_cfg_congr cfg cfg2 d i h]

omit [DecidableEq T] in
theorem partOf_cfg_congr (cfg cfg2 : Cfg R T) (i : Nat) (s : VarState R) (h : cfg2.tag i = cfg.tag i) :
    partOf cfg i s = partOf cfg2 i s := by
  simp [partOf, h]

/-- per variation: which outcomes of the crashed run survive in the start of the restart -/
def Resumed (cfg : Cfg R T) (start0 start1 : Nat → Option (R × Nat)) :
    List Nat → List (List (Outcome R)) → Prop
  | [], [] => True
  | i :: is, seg :: segs =>
    (∃ p, p <+: seg ∧ ResumedFrom cfg.merge (start0 i) p (start1 i) ∧
        Running cfg.merge cfg.repMax (cfg.keep i) (start0 i) p) ∧
      Resumed cfg start0 start1 is segs
  | _, _ => False

omit [DecidableEq T] in
theorem Resumed.untouched (cfg : Cfg R T) (start0 start1 : Nat → Option (R × Nat)) :
    ∀ (is : List Nat) (segs : List (List (Outcome R))), segs.length = is.length →
      (∀ j ∈ is, start1 j = start0 j) → Resumed cfg start0 start1 is segs
  | [], [], _, _ => by simp [Resumed]
  | i :: is, seg :: segs, hl, h => by
    rw [Resumed]
    refine ⟨⟨[], List.nil_prefix, Or.inl ⟨rfl, h i (by simp)⟩, ?_⟩,
      Resumed.untouched cfg start0 start1 is segs (by simpa using hl) (fun j hj => h j (by simp [hj]))⟩
    intro q hq hne; exact absurd (List.prefix_nil.mp hq) hne
  | [], _ :: _, hl, _ => by simp at hl
  | _ :: _, [], hl, _ => by simp at hl

/-- **From the disk after a crash (atomic discipline) to the starts of the restart.**
    Every variation of the restart loads without error, and its start is either the
    one the crashed run had (nothing of it was saved) or the state after a prefix of
    the outcomes the crashed run consumed for it. -/
theorem CrashSpec.resumed (cfg cfg2 : Cfg R T) (hmode : cfg.mode = .atomic)
    (htag : ∀ i, cfg2.tag i = cfg.tag i) (d0 d1 : Disk R T) :
    ∀ (is : List Nat) (segs : List (List (Outcome R))),
      (∀ i ∈ is, LoadsOk cfg d0 i) →
      CrashSpec cfg (startOf cfg d0) (fun j => (d0.part j).main) (fun j => (d1.part j).main) is segs →
      Resumed cfg (startOf cfg d0) (startOf cfg2 d1) is segs ∧ ∀ i ∈ is, LoadsOk cfg2 d1 i
  | [], [], _, _ => ⟨by simp [Resumed], by intro i hi; simp at hi⟩
  | i :: is, seg :: segs, hclean, h => by
    rw [CrashSpec] at h
    rcases h with ⟨st, h1, h2, h3⟩ | ⟨h1, h2, h3⟩
    · obtain ⟨r1, r2⟩ := CrashSpec.resumed cfg cfg2 hmode htag d0 d1 is segs
        (fun j hj => hclean j (by simp [hj])) h3
      have h2' : (d1.part i).main = .valid (partOf cfg2 i st) := by
        rw [← partOf_cfg_congr cfg cfg2 i st (htag i)]; exact h2
      rw [Resumed]
      refine ⟨⟨⟨seg, List.prefix_refl _, Or.inr ⟨st, h1.1, startOf_valid cfg2 d1 i st h2'⟩, h1.2.2⟩, r1⟩, ?_⟩
      intro j hj
      rcases List.mem_cons.mp hj with rfl | hj
      · exact LoadsOk.of_valid st h2'
      · exact r2 j hj
    · have hrest : ∀ j ∈ is, startOf cfg2 d1 j = startOf cfg d0 j := by
        intro j hj
        rw [startOf_cfg_congr cfg cfg2 d1 j (htag j)]
        exact startOf_congr cfg d0 d1 j (h2 j hj)
      have hloads : ∀ j ∈ is, LoadsOk cfg2 d1 j := by
        intro j hj e
        rw [loadPart_cfg_congr cfg cfg2 d1 j (htag j), loadPart_congr cfg d0 d1 j (h2 j hj)]
        exact hclean j (by simp [hj]) e
      rw [Resumed]
      rcases h1 with h1 | ⟨hm, _⟩ | ⟨p, s, hp, hs, hmain, hrun⟩
      · refine ⟨⟨⟨[], List.nil_prefix, Or.inl ⟨rfl, ?_⟩, ?_⟩,
          Resumed.untouched cfg _ _ is segs h3 hrest⟩, ?_⟩
        · rw [startOf_cfg_congr cfg cfg2 d1 i (htag i)]
          exact startOf_congr cfg d0 d1 i h1
        · intro q hq hne; exact absurd (List.prefix_nil.mp hq) hne
        · intro j hj
          rcases List.mem_cons.mp hj with rfl | hj
          · intro e
            rw [loadPart_cfg_congr cfg cfg2 d1 j (htag j), loadPart_congr cfg d0 d1 j h1]
            exact hclean j (by simp) e
          · exact hloads j hj
      · rw [hmode] at hm; cases hm
      · have hmain' : (d1.part i).main = .valid (partOf cfg2 i s) := by
          rw [← partOf_cfg_congr cfg cfg2 i s (htag i)]; exact hmain
        refine ⟨⟨⟨p, hp, Or.inr ⟨s, hs, startOf_valid cfg2 d1 i s hmain'⟩, hrun⟩,
          Resumed.untouched cfg _ _ is segs h3 hrest⟩, ?_⟩
        intro j hj
        rcases List.mem_cons.mp hj with rfl | hj
        · exact LoadsOk.of_valid s hmain'
        · exact hloads j hj
  | [], _ :: _, _, h => by simp [CrashSpec] at h
  | _ :: _, [], _, h => by simp [CrashSpec] at h

end

/-- per variation: the final state of the restart is the merge of a durably saved
    prefix `p` of the crashed run's outcomes for that variation followed by the
    outcomes `seg2` the restart consumed for it — and `seg2` is one complete run from
    what was loaded -/
def Merged (cfg cfg2 : Cfg R T) (start0 : Nat → Option (R × Nat)) :
    List Nat → List (List (Outcome R)) → List (List (Outcome R)) → List (VarState R) → Prop
  | [], [], [], [] => True
  | i :: is, seg1 :: segs1, seg2 :: segs2, st :: sts =>
    (∃ p s', p <+: seg1 ∧ Running cfg.merge cfg.repMax (cfg.keep i) (start0 i) p ∧
        stateOf cfg.merge (start0 i) (p ++ seg2) = some s' ∧ s'.acc = st.acc ∧ s'.rep = st.rep ∧
        guard cfg2.repMax (cfg2.keep i) st = false) ∧
      Merged cfg cfg2 start0 is segs1 segs2 sts
  | _, _, _, _ => False

theorem Merged.of (cfg cfg2 : Cfg R T) (hmerge : cfg2.merge = cfg.merge) (start0 start1 : Nat → Option (R × Nat)) :
    ∀ (is : List Nat) (segs1 segs2 : List (List (Outcome R))) (sts : List (VarState R)),
      Resumed cfg start0 start1 is segs1 → RunsSpec cfg2.base start1 is segs2 sts →
      Merged cfg cfg2 start0 is segs1 segs2 sts
  | [], [], [], [], _, _ => by simp [Merged]
  | i :: is, seg1 :: segs1, seg2 :: segs2, st :: sts, h1, h2 => by
    rw [Resumed] at h1
    simp only [RunsSpec] at h2
    obtain ⟨⟨p, hp, hres, hrun⟩, h1'⟩ := h1
    obtain ⟨hvr, h2'⟩ := h2
    rw [Merged]
    refine ⟨?_, Merged.of cfg cfg2 hmerge start0 start1 is segs1 segs2 sts h1' h2'⟩
    have hst : stateOf cfg.merge (start1 i) seg2 = some st := by
      have := hvr.1
      simpa [Cfg.base, hmerge] using this
    obtain ⟨s', e1, e2, e3⟩ := hres.compose seg2 st hst
    exact ⟨p, s', hp, hrun, e1, e2, e3, by simpa [Cfg.base] using hvr.2.1⟩
  | [], [], [], _ :: _, _, h => by simp [RunsSpec] at h
  | [], [], _ :: _, _, _, h => by simp [RunsSpec] at h
  | [], _ :: _, _, _, h, _ => by simp [Resumed] at h
  | _ :: _, [], _, _, h, _ => by simp [Resumed] at h
  | _ :: _, _ :: _, [], _, _, h => by simp [RunsSpec] at h
  | _ :: _, _ :: _, _ :: _, [], _, h => by simp [RunsSpec] at h

end PyPhysim.C07
