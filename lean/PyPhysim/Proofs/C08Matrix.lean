/-
C08 — the list-of-rows matrix operations of the model are the mathematical
ones: bridge to Mathlib's `Matrix` (product, sum, product with the conjugate
transpose) over an arbitrary semiring.
-/
import Mathlib.Data.Matrix.Mul
import Mathlib.Algebra.BigOperators.Fin
import PyPhysim.Model.C08
set_option linter.unusedSectionVars false

namespace PyPhysim.C08
open Matrix

section Bridge
variable {R : Type} [Semiring R]

/-- a Mathlib matrix as the list of its rows -/
def toLists {m n : Nat} (A : Matrix (Fin m) (Fin n) R) : Mat R :=
  List.ofFn fun i => List.ofFn fun j => A i j

theorem vecAdd_ofFn {p : Nat} (u v : Fin p → R) :
    vecAdd (List.ofFn u) (List.ofFn v) = List.ofFn (fun j => u j + v j) := by
  unfold vecAdd
  apply List.ext_getElem
  · simp
  · intro i h1 h2
    simp

theorem foldl_rowMul {n p : Nat} (a : Fin n → R) (B : Fin n → Fin p → R) (u : Fin p → R) :
    ((List.ofFn a).zip (List.ofFn fun i => List.ofFn (B i))).foldl
        (fun acc xb => vecAdd acc (xb.2.map fun y => xb.1 * y)) (List.ofFn u)
      = List.ofFn (fun j => u j + ∑ i, a i * B i j) := by
  induction n generalizing u with
  | zero => simp
  | succ n ih =>
    simp only [List.ofFn_succ, List.zip_cons_cons, List.foldl_cons, List.map_ofFn]
    have : vecAdd (List.ofFn u) (List.ofFn ((fun y => a 0 * y) ∘ B 0))
        = List.ofFn (fun j => u j + a 0 * B 0 j) := vecAdd_ofFn _ _
    rw [this]
    rw [ih (fun i => a i.succ) (fun i => B i.succ)]
    congr 1
    funext j
    rw [Fin.sum_univ_succ, add_assoc]

theorem cols_toLists {n p : Nat} (B : Matrix (Fin (n + 1)) (Fin p) R) : cols (toLists B) = p := by
  simp [cols, toLists, List.ofFn_succ]

/-- the model's `np.dot` is the matrix product -/
theorem matMul_toLists {m n p : Nat} (A : Matrix (Fin m) (Fin (n + 1)) R) (B : Matrix (Fin (n + 1)) (Fin p) R) :
    matMul (toLists A) (toLists B) = toLists (A * B) := by
  unfold matMul
  simp only [toLists, List.map_ofFn]
  congr 1
  funext i
  simp only [Function.comp]
  unfold rowMul
  have hc : cols (List.ofFn fun i => List.ofFn fun j => B i j) = p := cols_toLists B
  rw [hc, ← List.ofFn_const]
  rw [foldl_rowMul (fun k => A i k) (fun k j => B k j) (fun _ => 0)]
  congr 1
  funext j
  simp [Matrix.mul_apply]


theorem matAdd_ofFn {q p : Nat} (U V : Fin q → Fin p → R) :
    matAdd (List.ofFn fun j => List.ofFn (U j)) (List.ofFn fun j => List.ofFn (V j))
      = List.ofFn fun j => List.ofFn fun k => U j k + V j k := by
  unfold matAdd
  apply List.ext_getElem
  · simp
  · intro i h1 h2
    simp [vecAdd_ofFn]

theorem foldl_conjTMul (conj : R → R) {n q p : Nat} (W : Fin n → Fin q → R) (Y : Fin n → Fin p → R)
    (U : Fin q → Fin p → R) :
    ((List.ofFn fun i => List.ofFn (W i)).zip (List.ofFn fun i => List.ofFn (Y i))).foldl
        (fun acc wy => matAdd acc (wy.1.map fun w => wy.2.map fun y => conj w * y))
        (List.ofFn fun j => List.ofFn (U j))
      = List.ofFn fun j => List.ofFn fun k => U j k + ∑ i, conj (W i j) * Y i k := by
  induction n generalizing U with
  | zero => simp
  | succ n ih =>
    simp only [List.ofFn_succ (f := fun i => List.ofFn (W i)), List.ofFn_succ (f := fun i => List.ofFn (Y i)),
      List.zip_cons_cons, List.foldl_cons, List.map_ofFn]
    have : matAdd (List.ofFn fun j => List.ofFn (U j))
        (List.ofFn ((fun w => List.ofFn ((fun y => conj w * y) ∘ Y 0)) ∘ W 0))
        = List.ofFn fun j => List.ofFn fun k => U j k + conj (W 0 j) * Y 0 k :=
      matAdd_ofFn U (fun j k => conj (W 0 j) * Y 0 k)
    rw [this]
    rw [ih (fun i => W i.succ) (fun i => Y i.succ)]
    congr 1
    funext j
    congr 1
    funext k
    rw [Fin.sum_univ_succ, add_assoc]

/-- the model's `np.dot(W.conjugate().T, Y)` is the product with the conjugate transpose -/
theorem conjTMul_toLists (conj : R → R) {n q p : Nat} (W : Matrix (Fin (n + 1)) (Fin q) R)
    (Y : Matrix (Fin (n + 1)) (Fin p) R) :
    conjTMul conj (toLists W) (toLists Y) = toLists ((W.map conj).transpose * Y) := by
  unfold conjTMul
  rw [cols_toLists, cols_toLists]
  have h0 : List.replicate q (List.replicate p (0 : R))
      = List.ofFn fun _ : Fin q => List.ofFn fun _ : Fin p => (0 : R) := by
    simp [List.ofFn_const]
  rw [h0]
  unfold toLists
  rw [foldl_conjTMul conj (fun i j => W i j) (fun i k => Y i k) (fun _ _ => 0)]
  congr 1
  funext j
  congr 1
  funext k
  simp [Matrix.mul_apply]

theorem matAdd_toLists {m n : Nat} (A B : Matrix (Fin m) (Fin n) R) :
    matAdd (toLists A) (toLists B) = toLists (A + B) := by
  unfold toLists
  rw [matAdd_ofFn]
  rfl

end Bridge
end PyPhysim.C08
