import Mathlib.Analysis.SpecialFunctions.Log.Base
import Mathlib.Analysis.SpecialFunctions.Pow.Real
import Mathlib.Tactic.FieldSimp
import Mathlib.Tactic.Linarith
import PyPhysim.Proofs.C20Chordal

/-!
Instantiation of the model's scalar classes at `ℝ` and `ℂ`, the conversion
lemmas over `ℝ`, and the principal-angle / Frobenius computations.
-/
set_option linter.unusedSectionVars false
namespace PyPhysim.LinAlg
open Matrix

/-- `math.sqrt` on the reals -/
noncomputable instance : RSqrt ℝ := ⟨Real.sqrt⟩
/-- real square root of the real part, embedded in `ℂ` (the code only ever takes
    roots of real non-negative quantities) -/
noncomputable instance : RSqrt ℂ := ⟨fun z => ((Real.sqrt z.re : ℝ) : ℂ)⟩
noncomputable instance : Transc ℝ :=
  { log10 := Real.logb 10, pow10 := fun x => (10 : ℝ) ^ x, acos := Real.arccos, sin := Real.sin }

namespace Pf

/-! ### conversions -/
theorem pow10_log10 (x : ℝ) (hx : 0 < x) : (10 : ℝ) ^ (Real.logb 10 x) = x :=
  Real.rpow_logb (by norm_num) (by norm_num) hx

theorem log10_pow10 (y : ℝ) : Real.logb 10 ((10 : ℝ) ^ y) = y :=
  Real.logb_rpow (by norm_num) (by norm_num)

/-! ### principal angles -/
theorem sumSinSq_ofFn : ∀ (n : Nat) (f : Fin n → ℝ),
    sumSinSq (List.ofFn f) = ∑ i, Real.sin (f i) * Real.sin (f i)
  | 0, f => by simp [sumSinSq]
  | n+1, f => by
    rw [List.ofFn_succ, sumSinSq, sumSinSq_ofFn n, Fin.sum_univ_succ]
    rfl

theorem principalAngles_ofFn (n : Nat) (s : Fin n → ℝ) :
    principalAngles (List.ofFn s) = List.ofFn (fun i => Real.arccos (if 1 < s i then 1 else s i)) := by
  simp only [principalAngles, List.map_ofFn]
  rfl

theorem sin_arccos_clip_sq (x : ℝ) (h0 : 0 ≤ x) :
    Real.sin (Real.arccos (if 1 < x then 1 else x)) * Real.sin (Real.arccos (if 1 < x then 1 else x))
      = 1 - (min x 1) ^ 2 := by
  have hmin : (if 1 < x then 1 else x) = min x 1 := by
    split_ifs with h
    · rw [min_eq_right (le_of_lt h)]
    · rw [min_eq_left (not_lt.mp h)]
  rw [hmin, Real.sin_arccos, Real.mul_self_sqrt]
  have h1 : min x 1 ≤ 1 := min_le_right _ _
  have h2 : 0 ≤ min x 1 := le_min h0 (by norm_num)
  nlinarith

/-- `Σ sin²(arccos(clip s_i)) = r − Σ s_i²` when `0 ≤ s_i ≤ 1` -/
theorem sumSinSq_angles (r : Nat) (s : Fin r → ℝ) (h0 : ∀ i, 0 ≤ s i) (h1 : ∀ i, s i ≤ 1) :
    sumSinSq (principalAngles (List.ofFn s)) = (r : ℝ) - ∑ i, s i * s i := by
  rw [principalAngles_ofFn, sumSinSq_ofFn]
  have : ∀ i, Real.sin (Real.arccos (if 1 < s i then 1 else s i)) *
      Real.sin (Real.arccos (if 1 < s i then 1 else s i)) = 1 - s i * s i := by
    intro i
    rw [sin_arccos_clip_sq _ (h0 i), min_eq_left (h1 i)]; ring
  simp only [this, Finset.sum_sub_distrib, Finset.sum_const, Finset.card_univ, Fintype.card_fin]
  simp

end Pf
end PyPhysim.LinAlg
