"""Python-AST -> Lean 4 translator for a small, whitelisted integer fragment.

Tie (a) of DESIGN.md: the definitions under lean/PyPhysim/Generated are
re-emitted from /repo's *current* source on every run, so the theorems stated
about them are re-checked against what the code says now.

Fragment (anything else raises TranslateError => "tie broken"):
  * parameters / locals are non-negative Python ints  <->  Lean `Nat`
  * expressions: names, int literals, >> << ^ & | + - * // %, comparisons,
    calls to other translated functions, `a.__xor__(b)`
  * statements: assignment, augmented assignment, `return e`,
    `if c: raise ValueError(..)`, `if c: return e`, `while c:` loops over
    assignments (emitted with explicit fuel; `.error .Fuel` when exhausted, the
    termination lemma lives in Proofs/)
  * module-level literal tuples/lists of ints, and whitelisted numeric literals
    extracted by pattern from expressions (Generated/Constants).
"""
import ast
import re
import hashlib
import os
import sys


class TranslateError(Exception):
    pass


BINOPS = {
    ast.RShift: '>>>', ast.LShift: '<<<', ast.BitXor: '^^^', ast.BitAnd: '&&&',
    ast.BitOr: '|||', ast.Add: '+', ast.Sub: '-', ast.Mult: '*',
    ast.FloorDiv: '/', ast.Mod: '%',
}
CMPOPS = {ast.Lt: '<', ast.LtE: '≤', ast.Gt: '>', ast.GtE: '≥', ast.Eq: '==', ast.NotEq: '!='}


def strip_doc(body):
    return [s for s in body
            if not (isinstance(s, ast.Expr) and isinstance(s.value, ast.Constant)
                    and isinstance(s.value.value, str))]


class FnTranslator:
    """Translate one FunctionDef to Lean source."""

    def __init__(self, fn, known_fns, effectful_fns, module=None):
        self.fn = fn
        self.module = module            # the module's AST: constant tuples and private helpers are looked up here
        self.inlining = []              # helpers being inlined (no recursion)
        self.known = known_fns          # names of translated functions
        self.effectful = effectful_fns  # those returning Except
        self.loops = []                 # emitted auxiliary loop defs
        self.name = fn.name
        self.loop_count = 0

    # ---------------- expressions
    def expr(self, e):
        if isinstance(e, ast.Name):
            return e.id
        if isinstance(e, ast.Constant) and isinstance(e.value, int) and not isinstance(e.value, bool):
            if e.value < 0:
                raise TranslateError('negative literal')
            return str(e.value)
        if isinstance(e, ast.BinOp) and type(e.op) in BINOPS:
            return '(%s %s %s)' % (self.expr(e.left), BINOPS[type(e.op)], self.expr(e.right))
        if isinstance(e, ast.Call):
            if isinstance(e.func, ast.Name) and e.func.id in self.known:
                if e.func.id in self.effectful:
                    raise TranslateError('effectful call inside expression: ' + e.func.id)
                return '(%s %s)' % (e.func.id, ' '.join(self.expr(a) for a in e.args))
            if (isinstance(e.func, ast.Attribute) and e.func.attr == '__xor__'
                    and len(e.args) == 1):
                return '(%s ^^^ %s)' % (self.expr(e.func.value), self.expr(e.args[0]))
            if isinstance(e.func, ast.Name) and e.func.id == 'cast' and len(e.args) == 2:
                return self.expr(e.args[1])
        raise TranslateError('unsupported expression: ' + ast.dump(e)[:120])

    def cond(self, e):
        """Python truthiness of an int expression / comparison -> Lean Bool."""
        if isinstance(e, ast.Compare) and len(e.ops) == 1 and type(e.ops[0]) in CMPOPS:
            op = CMPOPS[type(e.ops[0])]
            l, r = self.expr(e.left), self.expr(e.comparators[0])
            if op in ('==', '!='):
                return '(%s %s %s)' % (l, op, r)
            return '(decide (%s %s %s))' % (l, op, r)
        if isinstance(e, (ast.Name, ast.BinOp, ast.Call)):
            return '(%s != 0)' % self.expr(e)
        raise TranslateError('unsupported condition: ' + ast.dump(e)[:120])

    # ---------------- bounded loops and private helpers
    def loop_values(self, it):
        if isinstance(it, ast.Name) and self.module is not None:
            it = find_assign_toplevel(self.module, it.id)
        if isinstance(it, (ast.Tuple, ast.List)):
            return int_list_literal(it)
        if (isinstance(it, ast.Call) and isinstance(it.func, ast.Name) and it.func.id == 'range' and not it.keywords
                and all(isinstance(a, ast.Constant) and isinstance(a.value, int) for a in it.args)):
            vals = list(range(*[a.value for a in it.args]))
            if len(vals) > 64 or any(v < 0 for v in vals):
                raise TranslateError('range() too long or negative to unroll')
            return vals
        raise TranslateError('for loop over something that is not a literal / module constant tuple of ints')

    def helper_of(self, call):
        """the module-level private function called by `call` (to be inlined), or None"""
        if not (isinstance(call, ast.Call) and isinstance(call.func, ast.Name) and self.module is not None):
            return None
        name = call.func.id
        if name in self.known or not name.startswith('_') or call.keywords:
            return None
        try:
            fn = find_fn(self.module, name)
        except TranslateError:
            return None
        if name in self.inlining or len(self.inlining) > 3:
            raise TranslateError('recursive helper ' + name)
        return fn

    def bind_args(self, helper, call):
        params = [a.arg for a in helper.args.args]
        if (len(params) != len(call.args) or helper.args.vararg or helper.args.kwarg or helper.args.defaults
                or helper.args.kwonlyargs):
            raise TranslateError('helper %s: unsupported signature / call' % helper.name)
        out, bound = [], set()
        for p_, a in zip(params, call.args):
            free = {n.id for n in ast.walk(a) if isinstance(n, ast.Name)}
            if free & (bound - ({p_} if isinstance(a, ast.Name) and a.id == p_ else set())):
                raise TranslateError('helper %s: argument mentions a name shadowed by an earlier parameter' % helper.name)
            if not (isinstance(a, ast.Name) and a.id == p_):
                out.append(ast.Assign(targets=[ast.Name(id=p_, ctx=ast.Store())], value=a))
            bound.add(p_)
        self.inlining.append(helper.name)
        return out

    # ---------------- statements
    def is_effectful(self):
        todo, seen = [self.fn], set()
        while todo:
            f = todo.pop()
            for n in ast.walk(f):
                if isinstance(n, (ast.Raise, ast.While)):
                    return True
                if isinstance(n, ast.Call) and isinstance(n.func, ast.Name):
                    if n.func.id in self.effectful:
                        return True
                    if (self.module is not None and n.func.id.startswith('_') and n.func.id not in self.known
                            and n.func.id not in seen):
                        seen.add(n.func.id)
                        try:
                            todo.append(find_fn(self.module, n.func.id))
                        except TranslateError:
                            pass
        return False

    def assigned_vars(self, stmts):
        out = []
        for s in stmts:
            for n in ast.walk(s):
                if isinstance(n, (ast.Assign, ast.AugAssign)):
                    t = n.targets[0] if isinstance(n, ast.Assign) else n.target
                    if not isinstance(t, ast.Name):
                        raise TranslateError('non-name assignment target')
                    if t.id not in out:
                        out.append(t.id)
        return out

    def block(self, stmts, eff, tail):
        """Translate statement list; `tail` is the Lean term for falling off
        the end (used inside loops); returns a Lean term."""
        if not stmts:
            if tail is None:
                raise TranslateError('function may fall off the end')
            return tail
        s, rest = stmts[0], stmts[1:]
        if isinstance(s, ast.Return) and self.helper_of(s.value) is None:
            # effectful call in return position is allowed
            v = s.value
            if (eff and isinstance(v, ast.Call) and isinstance(v.func, ast.Name)
                    and v.func.id in self.effectful):
                return '(%s %s)' % (v.func.id, ' '.join(self.expr(a) for a in v.args))
            if isinstance(v, ast.Call) and isinstance(v.func, ast.Name) and v.func.id == 'cast':
                v = v.args[1]
            t = self.expr(v)
            return '(.ok %s)' % t if eff else t
        if isinstance(s, ast.Assign) and len(s.targets) == 1 and isinstance(s.targets[0], ast.Name):
            return 'let %s := %s\n  %s' % (s.targets[0].id, self.expr(s.value), self.block(rest, eff, tail))
        if isinstance(s, ast.AugAssign) and isinstance(s.target, ast.Name) and type(s.op) in BINOPS:
            v = s.target.id
            return 'let %s := (%s %s %s)\n  %s' % (v, v, BINOPS[type(s.op)], self.expr(s.value),
                                                    self.block(rest, eff, tail))
        if isinstance(s, ast.If) and not s.orelse and len(s.body) == 1 and isinstance(s.body[0], ast.Raise):
            exc = s.body[0].exc
            name = exc.func.id if isinstance(exc, ast.Call) else exc.id
            if name != 'ValueError':
                raise TranslateError('unsupported exception ' + name)
            return 'if %s then .error .ValueError else\n  %s' % (self.cond(s.test), self.block(rest, eff, tail))
        if isinstance(s, ast.If) and not s.orelse and len(s.body) == 1 and isinstance(s.body[0], ast.Return):
            return 'if %s then %s else\n  %s' % (self.cond(s.test), self.block(s.body, eff, tail),
                                                 self.block(rest, eff, tail))
        if isinstance(s, ast.If):
            # if/else over assignments only: both branches continue with `rest`
            a = self.block(s.body + rest, eff, tail)
            b = self.block(s.orelse + rest, eff, tail)
            return 'if %s then\n  %s\n  else\n  %s' % (self.cond(s.test), a, b)
        if isinstance(s, ast.For) and not s.orelse and isinstance(s.target, ast.Name):
            # `for v in <literal tuple / module constant tuple / range(k)>` over assignments: unrolled
            vals = self.loop_values(s.iter)
            for n in ast.walk(s):
                if isinstance(n, (ast.Break, ast.Continue, ast.Return, ast.Raise, ast.While, ast.For)) and n is not s:
                    raise TranslateError('for loop body outside the fragment (only assignments are unrolled)')
            unrolled = []
            for v in vals:
                unrolled.append(ast.Assign(targets=[ast.Name(id=s.target.id, ctx=ast.Store())], value=ast.Constant(value=v)))
                unrolled += s.body
            return self.block(unrolled + rest, eff, tail)
        call = s.value if isinstance(s, (ast.Return, ast.Assign)) else None
        helper = self.helper_of(call)
        if helper is not None and isinstance(s, ast.Return):
            # `return _helper(args)`: the helper's body is inlined (extract-function refactorings keep the tie)
            return self.block(self.bind_args(helper, call) + strip_doc(helper.body) + rest, eff, tail)
        if isinstance(s, ast.While) and not s.orelse:
            if not eff:
                raise TranslateError('while in pure function')
            self.loop_count += 1
            lname = '%s_loop%d' % (self.name, self.loop_count)
            vars_ = self.assigned_vars(s.body)
            # the loop condition variable provides the fuel
            cvars = [n.id for n in ast.walk(s.test) if isinstance(n, ast.Name)]
            if len(cvars) != 1 or cvars[0] not in vars_:
                raise TranslateError('loop condition must mention exactly one loop variable')
            tup = '(' + ', '.join(vars_) + ')' if len(vars_) > 1 else vars_[0]
            ty = ' × '.join(['Nat'] * len(vars_))
            rec = '%s fuel %s' % (lname, ' '.join(vars_))
            body = self.block(s.body, True, rec)
            self.loops.append(
                'def %s : Nat → %s → Except PyErr (%s)\n'
                '  | 0, %s => .error .Fuel\n'
                '  | fuel+1, %s =>\n  if %s then\n  %s\n  else .ok %s\n'
                % (lname, ' → '.join(['Nat'] * len(vars_)), ty,
                   ', '.join('_' for _ in vars_), ', '.join(vars_), self.cond(s.test), body, tup))
            cont = self.block(rest, eff, tail)
            return ('match %s (%s + 1) %s with\n  | .error e => .error e\n  | .ok %s =>\n  %s'
                    % (lname, cvars[0], ' '.join(vars_), tup, cont))
        raise TranslateError('unsupported statement: ' + ast.dump(s)[:120])

    def emit(self):
        args = [a.arg for a in self.fn.args.args]
        eff = self.is_effectful()
        body = self.block(strip_doc(self.fn.body), eff, None)
        ret = 'Except PyErr Nat' if eff else 'Nat'
        head = 'def %s %s: %s :=\n  %s\n' % (self.name, ''.join('(%s : Nat) ' % a for a in args), ret, body)
        return ''.join(l + '\n' for l in self.loops) + head, eff


_LOGGER_NAME = re.compile(r'(^|_)(log|logger)$', re.I)
_LOG_METHODS = {'debug', 'info', 'warning', 'warn', 'error', 'exception', 'critical', 'log'}
_PURE_CALLS = {'len', 'repr', 'str', 'type', 'id', 'int', 'float', 'bool', 'tuple', 'list', 'sorted', 'min', 'max',
               'sum', 'abs', 'round', 'format'}


def _pure(e):
    """an expression whose evaluation cannot change any state the translated code can see"""
    if isinstance(e, (ast.Constant, ast.Name)):
        return True
    if isinstance(e, ast.Attribute):
        return _pure(e.value)
    if isinstance(e, ast.Subscript):
        return _pure(e.value) and _pure(e.slice)
    if isinstance(e, (ast.Tuple, ast.List)):
        return all(_pure(x) for x in e.elts)
    if isinstance(e, ast.JoinedStr):
        return all(_pure(v.value) if isinstance(v, ast.FormattedValue) else True for v in e.values)
    if isinstance(e, ast.BinOp):
        return _pure(e.left) and _pure(e.right)
    if isinstance(e, ast.UnaryOp):
        return _pure(e.operand)
    if isinstance(e, ast.Compare):
        return _pure(e.left) and all(_pure(c) for c in e.comparators)
    if isinstance(e, ast.Call):
        f = e.func
        ok = (isinstance(f, ast.Name) and f.id in _PURE_CALLS) or \
             (isinstance(f, ast.Attribute) and f.attr in ('format', 'join') and _pure(f.value))
        return ok and all(_pure(a) for a in e.args) and all(_pure(k.value) for k in e.keywords)
    return False


def _is_logger(e):
    if isinstance(e, ast.Name):
        return bool(_LOGGER_NAME.search(e.id)) or e.id == 'logging'
    if isinstance(e, ast.Attribute):
        return bool(_LOGGER_NAME.search(e.attr))
    return False


def _is_log_call(st):
    return (isinstance(st, ast.Expr) and isinstance(st.value, ast.Call) and isinstance(st.value.func, ast.Attribute)
            and st.value.func.attr in _LOG_METHODS and _is_logger(st.value.func.value)
            and all(_pure(a) for a in st.value.args) and all(_pure(k.value) for k in st.value.keywords))


class _StripObservers(ast.NodeTransformer):
    """Removes what only OBSERVES the computation: logging calls with pure arguments (also an
    `if logger.isEnabledFor(..):` block that contains nothing else) and the annotation of annotated
    assignments (`x: T = e` -> `x = e`; a bare `x: T` is dropped).  Asserts are NOT touched: an assert can
    raise, and several modelled rejections are asserts."""

    def _body(self, body):
        out = []
        for st in body:
            st = self.visit(st)
            if st is None:
                continue
            if _is_log_call(st):
                continue
            if isinstance(st, ast.If) and not st.orelse and isinstance(st.test, ast.Call) and \
                    isinstance(st.test.func, ast.Attribute) and st.test.func.attr == 'isEnabledFor' and \
                    _is_logger(st.test.func.value) and all(isinstance(x, ast.Pass) for x in st.body):
                continue
            out.append(st)
        return out or [ast.Pass()]

    def generic_visit(self, node):
        node = super().generic_visit(node)
        for field in ('body', 'orelse', 'finalbody'):
            b = getattr(node, field, None)
            if isinstance(b, list) and b and all(isinstance(x, ast.stmt) for x in b):
                nb = self._body_novisit(b)
                setattr(node, field, nb if (nb or field == 'body') else [])
        return node

    def _body_novisit(self, body):
        out = []
        for st in body:
            if _is_log_call(st):
                continue
            if isinstance(st, ast.If) and not st.orelse and isinstance(st.test, ast.Call) and \
                    isinstance(st.test.func, ast.Attribute) and st.test.func.attr == 'isEnabledFor' and \
                    _is_logger(st.test.func.value) and all(isinstance(x, ast.Pass) for x in st.body):
                continue
            out.append(st)
        return out or [ast.Pass()]

    def visit_AnnAssign(self, node):
        if node.value is None:
            return None
        return ast.copy_location(ast.Assign(targets=[node.target], value=node.value), node)


def parse_file(path):
    with open(path) as f:
        tree = ast.parse(f.read())
    tree = _StripObservers().visit(tree)
    ast.fix_missing_locations(tree)
    return tree


# numba.vectorize lifts a scalar function elementwise over arrays (its fixed-width integer arithmetic is
# exercised by the correspondence checks, not by the translation)
PLAIN_DECORATORS = ('staticmethod', 'classmethod', 'property', 'numba.vectorize')


def find_fn(tree, name, cls=None):
    body = tree.body
    if cls is not None:
        for n in body:
            if isinstance(n, ast.ClassDef) and n.name == cls:
                body = n.body
                break
        else:
            raise TranslateError('class %s not found' % cls)
    found = [n for n in body if isinstance(n, ast.FunctionDef) and n.name == name]
    if not found:
        raise TranslateError('function %s not found' % name)
    if len(found) > 1:
        raise TranslateError('function %s defined %d times (the last definition wins at run time)' % (name, len(found)))
    for d in found[0].decorator_list:
        # a decorator may change what a call of the function computes; only the ones that do not are accepted
        if ast.unparse(d) not in PLAIN_DECORATORS:
            raise TranslateError('function %s is wrapped by decorator @%s, which the translator does not model'
                                 % (name, ast.unparse(d)))
    return found[0]


def find_assign_toplevel(tree, name):
    """value of the module-level assignment `name = ...` (exactly one)"""
    found = []
    for n in tree.body:
        if isinstance(n, ast.Assign) and len(n.targets) == 1 and isinstance(n.targets[0], ast.Name) and n.targets[0].id == name:
            found.append(n.value)
        if isinstance(n, ast.AnnAssign) and isinstance(n.target, ast.Name) and n.target.id == name and n.value is not None:
            found.append(n.value)
    if len(found) != 1:
        raise TranslateError('module constant %s: %d assignments' % (name, len(found)))
    # nothing in the module may rebind or mutate it elsewhere
    for n in ast.walk(tree):
        if isinstance(n, (ast.Global, ast.Nonlocal)) and name in n.names:
            raise TranslateError('module constant %s is declared global somewhere' % name)
        if isinstance(n, (ast.Assign, ast.AugAssign, ast.Delete)):
            for t in (n.targets if isinstance(n, (ast.Assign, ast.Delete)) else [n.target]):
                for m in ast.walk(t):
                    if isinstance(m, ast.Name) and m.id == name and isinstance(m.ctx, (ast.Store, ast.Del)) and n not in tree.body:
                        raise TranslateError('module constant %s is rebound inside a function' % name)
                    if isinstance(m, ast.Subscript) and isinstance(m.value, ast.Name) and m.value.id == name:
                        raise TranslateError('module constant %s is mutated' % name)
    return found[0]


def find_assign(tree, name):
    for n in ast.walk(tree):
        if isinstance(n, ast.Assign) and len(n.targets) == 1 and isinstance(n.targets[0], ast.Name) \
                and n.targets[0].id == name:
            return n.value
        if isinstance(n, ast.AnnAssign) and isinstance(n.target, ast.Name) and n.target.id == name \
                and n.value is not None:
            return n.value
    raise TranslateError('assignment %s not found' % name)


HEADER = ('-- GENERATED by harness/translate.py from %s — do not edit.\n'
          '-- Re-emitted from the current /repo source on every check run.\n')


def gen_conversion(repo):
    """Generated/Conversion.lean: gray maps and bit helpers."""
    misc = parse_file(os.path.join(repo, 'pyphysim/util/misc.py'))
    conv = parse_file(os.path.join(repo, 'pyphysim/util/conversion.py'))
    order = [(misc, 'xor'), (conv, 'binary2gray'), (conv, 'gray2binary'),
             (misc, 'int2bits'), (misc, 'level2bits'), (misc, 'count_bits')]
    known, effectful, out = set(), set(), []
    for tree, name in order:
        fn = find_fn(tree, name)
        known.add(name)
        tr = FnTranslator(fn, known, effectful, module=tree)
        src, eff = tr.emit()
        if eff:
            effectful.add(name)
        out.append(src)
    return (HEADER % 'pyphysim/util/misc.py, pyphysim/util/conversion.py'
            + 'import PyPhysim.Model.Proto\nopen PyPhysim.Proto\nnamespace PyPhysim.Generated\n\n'
            + '\n'.join(out) + '\nend PyPhysim.Generated\n')


def int_list_literal(node):
    if not isinstance(node, (ast.Tuple, ast.List)):
        raise TranslateError('expected literal sequence')
    vals = []
    for e in node.elts:
        if not (isinstance(e, ast.Constant) and isinstance(e.value, int)):
            raise TranslateError('non-int literal in table')
        vals.append(e.value)
    return vals


def gen_prime_table(repo):
    """Generated/PrimeTable.lean: _SMALL_PRIME_LIST of root_sequence.py."""
    tree = parse_file(os.path.join(repo, 'pyphysim/reference_signals/root_sequence.py'))
    node = find_assign(tree, '_SMALL_PRIME_LIST')
    # accepted forms: literal list/tuple, or np.array(<literal>)
    if isinstance(node, ast.Call) and node.args:
        node = node.args[0]
    vals = int_list_literal(node)
    lines = []
    for i in range(0, len(vals), 16):
        lines.append('  ' + ', '.join(str(v) for v in vals[i:i + 16]))
    return (HEADER % 'pyphysim/reference_signals/root_sequence.py'
            + 'namespace PyPhysim.Generated\n\ndef smallPrimeList : List Nat := [\n'
            + ',\n'.join(lines) + ']\n\nend PyPhysim.Generated\n')


TARGETS = {
    'Conversion': gen_conversion,
    'PrimeTable': gen_prime_table,
}


def _load_plugins():
    """harness/gen/<name>.py may add generated modules: TARGETS = {'Name': fn(repo) -> lean text}"""
    import importlib
    d = os.path.join(os.path.dirname(os.path.abspath(__file__)), 'gen')
    if not os.path.isdir(d):
        return
    sys.path.insert(0, os.path.dirname(os.path.dirname(os.path.abspath(__file__))))
    for f in sorted(os.listdir(d)):
        if f.endswith('.py') and not f.startswith('_'):
            m = importlib.import_module('harness.gen.' + f[:-3])
            TARGETS.update(getattr(m, 'TARGETS', {}))


_load_plugins()


def write_if_changed(path, text):
    old = None
    if os.path.exists(path):
        with open(path) as f:
            old = f.read()
    if old != text:
        os.makedirs(os.path.dirname(path), exist_ok=True)
        with open(path, 'w') as f:
            f.write(text)
        return True
    return False


def regenerate(repo, lean_dir, names=None):
    """Re-emit the requested generated modules. Returns {name: status} where
    status is 'unchanged' | 'rewritten' | 'error: ...'."""
    res = {}
    for name in (names or TARGETS):
        path = os.path.join(lean_dir, 'PyPhysim', 'Generated', name + '.lean')
        try:
            text = TARGETS[name](repo)
        except Exception as e:  # anything outside the fragment = broken tie, reported by the check
            res[name] = 'error: %s: %s' % (type(e).__name__, e)
            continue
        res[name] = 'rewritten' if write_if_changed(path, text) else 'unchanged'
        res[name + ':sha'] = hashlib.sha256(text.encode()).hexdigest()[:16]
    return res


if __name__ == '__main__':
    repo = os.environ.get('PYPHYSIM_REPO', '/repo')
    here = os.path.dirname(os.path.abspath(__file__))
    # VERIF_LEAN_OUT=<dir>: write <dir>/PyPhysim/Generated/*.lean instead of the framework's own lean tree
    # (tools/translator_regress.py translates patched checkouts without touching the committed files)
    out_dir = os.environ.get('VERIF_LEAN_OUT') or os.path.join(here, '..', 'lean')
    r = regenerate(repo, out_dir, sys.argv[1:] or None)
    for k, v in r.items():
        print(k, v)
    sys.exit(1 if any(str(v).startswith('error') for v in r.values()) else 0)
