"""C16 — theoretical error-rate curves (DESIGN.md §5 C16)."""
import math

import numpy as np

from harness import core

MODULE = 'PyPhysim.Properties.C16'
DRIVER = 'drv_c16'
CLAIM = {
    'technique': 'Lean 4 theorems over R: order/limit algebra for an abstract Gaussian-tail function Q, d_min geometry '
                 'of the modelled constellations, and - with Q the actual Gaussian tail of Mathlib\'s gaussianReal - '
                 'measure-theoretic proofs that the formulas are the AWGN error rates of the modelled nearest-point '
                 'detector (BPSK / square QAM exact, PSK within [exact, 2 exact]) + formulas regenerated from the '
                 'source + numeric correspondence of every coefficient and Q-argument, Q evaluated independently '
                 'with math.erfc and by quadrature of the normal density',
    'text': 'Kernel-checked for every modulator order, every SNR and every packet length: SER/BER/PER are in [0,1], '
            'antitone in SNR, tend to 0; BER <= SER <= k BER (PSK equality SER = k BER); PER = 1-(1-BER)^L, '
            'SE = K(1-PER); and the argument of Q in each formula equals d_min/(2 sigma) of the constellation the '
            'C01 model emits (d_min proved minimal over ALL pairs: 2 sin(pi/M) for PSK, one grid step 2/e for QAM), '
            'the QAM coefficient being the mean per-axis neighbour count. The formulas are tied to fundamental.py '
            'by comparing coefficient and Q-argument (model, Float) with the methods\' outputs over -30..60 dB for '
            'every order, with Q = 0.5 erfc(x/sqrt 2) from math.erfc, and d_min measured on Modulator.symbols. '
            'Robustness classes: (R15) the model curves are STRICTLY decreasing in SNR for a strictly decreasing Q - '
            'proved for the Gaussian tail itself - so distinct SNR values / packet lengths never share a value '
            '(Properties/C16Robust.lean); on the code, clusters of close-but-distinct SNR values, packet lengths and '
            'qfunc / dB2Linear arguments each get the first-principles value of THAT value to the conditioning of Q '
            '(16 eps (4+arg^2), no absolute floor) and are told apart. (R16) a caller refilling ONE argument array in '
            'place, passing dropped temporaries or one array in two roles gets the pure function of the contents at '
            'call time and earlier results never change (call machine Model/CallsC16.lean + histories on the code).',
    'note': 'The Gaussian half of the property is a theorem since round 5 (Proofs/C16Gauss, C16Exact, C16ExactQam, '
            'C16ExactPsk): Qg x = P(N > x) for N ~ N(0,1) satisfies IsQ (gaussian_tail_is_Q); bpsk_ser_is_exact; '
            'qam_ser_exact for every L >= 2 (decision cell of every grid point under independent N(0, 1/(2 gamma)) '
            'noise components: (1 - c_j Q)(1 - c_i Q), averaged); psk_ser_between_exact_and_twice for every M >= 2 '
            '(projection law of isotropic noise, pairwise error probability, Voronoi lemma); all for every labelling '
            'of the points. Trusted for this clause: that the code\'s qfunc(x) = 0.5 erfc(x / sqrt 2) IS Qg (Mathlib '
            'has no erfc) - checked numerically against math.erfc and against adaptive quadrature of the normal '
            'density over (x, oo) at 1e-10 relative down to Q = 5e-198 (oracle qfunc.gauss); that the detector of the '
            'code is the C01 model\'s demod / bpskDemod (C01 correspondence); equiprobable symbols; binary64. '
            'Order relations are compared in binary64 with absolute slack 2^-52 (1-(1-P)^2 cancels to 0.0 for '
            'P < 2^-53 while 2P/k > 0). scipy.special.erfc is an oracle checked against math.erfc. The R15 / R16 '
            'theorems live in PyPhysim.Properties.C16Robust (built and axiom-audited by the check as a second module); '
            'the tight R15 references use the exact family geometry (2 sin(pi/M), sqrt(6/(M-1))) after confirming the '
            'emitted symbols have it to 1e-9; PER is compared to -expm1(L log1p(-BER)) within (L+2) 2^-53 absolute, the '
            'rounding of the documented formula 1-(1-BER)**L itself.',
}
SLACK = 2.0 ** -52
# theorems of the robustness classes R15 / R16 (a module of their own; built and audited like MODULE)
EXTRA_MODULE = 'PyPhysim.Properties.C16Robust'


def prove_extra(ctx):
    """build EXTRA_MODULE, scan its import closure for forbidden constructs, audit the axioms of its theorems"""
    import os
    if not os.path.exists(os.path.join(core.LEAN_DIR, EXTRA_MODULE.replace('.', '/') + '.lean')):
        ctx.tie_broken('theorem', EXTRA_MODULE, 'module is missing')
        return
    names = core.theorem_names(EXTRA_MODULE)
    ctx.obligations += len(names)
    ok, out = core.lake_build([EXTRA_MODULE])
    if not ok:
        ctx.tie_broken('theorem', EXTRA_MODULE, 'lake build failed:\n' + out[-1500:])
        return
    hits = core.forbidden_scan(core.import_closure([EXTRA_MODULE]))
    if hits:
        ctx.tie_broken('audit', 'forbidden-construct', '\n'.join(hits))
    res, missing, raw = core.audit_axioms(EXTRA_MODULE, ctx.scratch)
    good = 0
    for n in names:
        ax = res.get(n)
        ctx.theorems[n] = ax
        if ax is None:
            ctx.tie_broken('audit', n, 'no #print axioms output: ' + raw[-500:])
        elif not set(ax) <= core.ALLOWED_AXIOMS:
            ctx.tie_broken('audit', n, 'axioms ' + ','.join(ax))
        else:
            good += 1
    if not any(b['kind'] == 'tie' for b in ctx.broken):
        ctx.discharged += good
    if ctx.tier == 'thorough':
        rc, out = core.run(['lake', 'env', 'leanchecker', EXTRA_MODULE], cwd=core.LEAN_DIR, timeout=3000)
        ctx.extra['leanchecker:' + EXTRA_MODULE] = 'ok' if rc == 0 else 'failed'
        if rc != 0:
            ctx.tie_broken('audit', 'leanchecker:' + EXTRA_MODULE, out[-1500:])


def _f():
    from pyphysim.modulators import fundamental
    return fundamental


def Qf(x):
    return 0.5 * math.erfc(x / math.sqrt(2.0))


def make(kind, M):
    f = _f()
    return {'BPSK': lambda: f.BPSK(), 'QPSK': lambda: f.QPSK(), 'PSK': lambda: f.PSK(M),
            'QAM': lambda: f.QAM(M)}[kind]()


def mods(psk_max, qam_max):
    out = [('BPSK', 2), ('QPSK', 4)]
    M = 2
    while M <= psk_max:
        out.append(('PSK', M))
        M *= 2
    M = 4
    while M <= qam_max:
        out.append(('QAM', M))
        M *= 4
    return out


def kbits(M):
    return max(1, (M - 1).bit_length())


def rel_close(a, b, rtol=1e-9):
    return abs(a - b) <= rtol * max(abs(a), abs(b)) + 1e-305


# --------------------------------------------------------------- oracles (implementation only)
def dmin_of(symbols):
    s = np.asarray(symbols, dtype=complex)
    d = np.abs(s[:, None] - s[None, :])
    d[np.arange(s.size), np.arange(s.size)] = np.inf
    return float(d.min())


def o_curve(case):
    """probabilities, monotone, BER<=SER<=k BER, PER/SE definitions, SER implied by the emitted constellation"""
    kind, M = case['kind'], case['M']
    m = make(kind, M)
    snr = np.array(case['snr'], dtype=float)
    order = np.argsort(snr)
    ser = np.asarray(m.calcTheoreticalSER(snr), dtype=float)
    ber = np.asarray(m.calcTheoreticalBER(snr), dtype=float)
    k = kbits(M)
    for name, v in (('SER', ser), ('BER', ber)):
        if np.any(~np.isfinite(v)) or np.any(v < 0) or np.any(v > 1 + SLACK):
            return 'not-probability:%s:%s' % (name, kind), '%s outside [0,1]' % name
        if np.any(np.diff(v[order]) > SLACK):
            return 'not-monotone:%s:%s' % (name, kind), '%s increases with SNR' % name
    if np.any(ber > ser + SLACK) or np.any(ser > k * ber + SLACK):
        i = int(np.argmax((ber > ser + SLACK) | (ser > k * ber + SLACK)))
        return 'ber-ser-order:' + kind, 'snr=%r ser=%r ber=%r k=%d' % (snr[i], ser[i], ber[i], k)
    # scalar path agrees with the array path
    s0 = float(snr[0])
    if not rel_close(float(m.calcTheoreticalSER(s0)), float(ser[0])):
        return 'scalar-array-differ:' + kind, 'SER scalar vs array at %r' % s0
    for L in case['lengths']:
        per = np.asarray(m.calcTheoreticalPER(snr, L), dtype=float)
        exp = 1.0 - (1.0 - ber) ** L
        if not np.allclose(per, exp, rtol=1e-12, atol=1e-300):
            return 'per-definition:' + kind, 'L=%d' % L
        se = np.asarray(m.calcTheoreticalSpectralEfficiency(snr, L), dtype=float)
        if not np.allclose(se, math.log2(M) * (1.0 - per), rtol=1e-12, atol=1e-300):
            return 'se-definition:' + kind, 'L=%d' % L
    # the SER implied by the constellation actually emitted
    # (SNR is Es/N0 at the library's unit mean symbol energy: sigma^2 = 1/(2 gamma); a rescaled
    #  constellation therefore shows up here as a d_min the curve does not account for)
    d = dmin_of(m.symbols)
    for i, s in enumerate(snr):
        g = 10.0 ** (s / 10.0)
        sig = math.sqrt(1.0 / (2.0 * g))
        q = Qf(d / (2.0 * sig))
        if kind == 'BPSK':
            exp = q
        elif kind in ('PSK', 'QPSK'):
            exp = 2.0 * q
        else:
            p = 2.0 * (1.0 - 1.0 / math.sqrt(M)) * q
            exp = 1.0 - (1.0 - p) ** 2
        if not (rel_close(ser[i], exp, 1e-9) or abs(ser[i] - exp) <= 4 * SLACK):
            return 'ser-not-implied-by-constellation:' + kind, 'snr=%r ser=%r implied=%r dmin=%r' % (s, ser[i], exp, d)
    return None


def o_offsets(case):
    """PSK with phase offsets (constructor argument and setPhaseOffset histories): the order M, K and the curves
    do not depend on the offset, and the SER is still the one implied by the constellation actually emitted"""
    f = _f()
    M = case['M']
    ref = f.PSK(M)
    snr = np.array(case['snr'], dtype=float)
    ser0 = np.asarray(ref.calcTheoreticalSER(snr), dtype=float)
    m = f.PSK(M, case['offsets'][0])
    for step, off in enumerate(case['offsets']):
        if step:
            m.setPhaseOffset(off)
        s = np.asarray(m.symbols)
        if s.size != M or m.M != M or abs(float(m.K) - math.log2(M)) > 1e-12:
            return 'offset:order-changed', 'offset %r: %d symbols, M=%r, K=%r' % (off, s.size, m.M, m.K)
        d = dmin_of(s)
        if not rel_close(d, 2 * math.sin(math.pi / M), 1e-9):
            return 'offset:dmin-changed', 'offset %r: d_min %r' % (off, d)
        ser = np.asarray(m.calcTheoreticalSER(snr), dtype=float)
        if not np.allclose(ser, ser0, rtol=1e-12, atol=0):
            return 'offset:curve-changed', 'offset %r' % off
        for i, sdb in enumerate(snr):
            q = Qf(d / (2.0 * math.sqrt(1.0 / (2.0 * 10.0 ** (sdb / 10.0)))))
            if not (rel_close(ser[i], 2.0 * q, 1e-9) or abs(ser[i] - 2.0 * q) <= 4 * SLACK):
                return 'offset:ser-not-implied-by-constellation', 'offset %r snr %r' % (off, sdb)
    return None


def o_limit(case):
    m = make(case['kind'], case['M'])
    v = float(m.calcTheoreticalSER(400.0))
    if not (0 <= v <= 1e-12):
        return 'no-limit-zero:' + case['kind'], 'SER(400 dB)=%r' % v
    return None


def o_qfunc(case):
    from pyphysim.util.misc import qfunc
    x = case['x']
    a, b = float(qfunc(x)), Qf(x)
    if not rel_close(a, b, 1e-12):
        return 'qfunc', 'qfunc(%r)=%r, 0.5 erfc(x/sqrt2)=%r' % (x, a, b)
    return None


def o_calls(case):
    """R1/R3/R7: SNR given as int / float32 / float64 arrays and numpy scalars gives the values of the float64
    twin; the caller's SNR array is never modified; repeated calls in any order return the same curves"""
    kind, M = case['kind'], case['M']
    m = make(kind, M)
    base = np.array(case['snr'], dtype=float)
    ref = {n: np.asarray(getattr(make(kind, M), 'calcTheoretical' + n)(base.copy()), dtype=float) for n in ('SER', 'BER')}
    L = case['L']
    ref['PER'] = np.asarray(make(kind, M).calcTheoreticalPER(base.copy(), L), dtype=float)
    for dt in ('int64', 'int16', 'float32', 'float64'):
        x = base.astype(dt)
        keep = x.copy()
        for order in (('BER', 'SER', 'PER', 'BER', 'SER'), ('PER', 'PER', 'SER', 'BER')):
            for n in order:
                v = m.calcTheoreticalPER(x, L) if n == 'PER' else getattr(m, 'calcTheoretical' + n)(x)
                v = np.asarray(v, dtype=float)
                # a float32 SNR axis legitimately limits the precision: 1-(1-BER)^L then carries an
                # absolute error of about L * eps32
                tol = 1e-4 if dt == 'float32' else 1e-9
                atol = (1e-6 + 2e-7 * L) if dt == 'float32' else 4 * SLACK
                if v.shape != base.shape or not np.allclose(v, ref[n], rtol=tol, atol=atol):
                    return 'calls:%s:%s:%s' % (n, kind, dt), 'after call order %s' % (order,)
                if not np.array_equal(x, keep):
                    return 'calls:input-modified:%s:%s' % (kind, dt), 'calcTheoretical%s changed the SNR array' % n
    for sc in (np.int16(base[0]), np.float32(base[0]), int(base[0]), float(base[0])):
        v = float(m.calcTheoreticalSER(sc))
        if not rel_close(v, float(ref['SER'][0]), 1e-5):
            return 'calls:scalar:%s:%s' % (kind, type(sc).__name__), repr(v)
    # R11 / R13: the error-rate queries made so far left the modulator as it was, and a copy / pickle of it
    # reports the same curves
    import copy
    import pickle
    fresh = make(kind, M)
    if not np.array_equal(np.asarray(m.symbols), np.asarray(fresh.symbols)) or m.M != fresh.M or m.K != fresh.K:
        return 'calls:query-mutates:%s' % kind, 'symbols / M / K changed by calcTheoretical* calls'
    for nm, c in (('deepcopy', copy.deepcopy(m)), ('pickle', pickle.loads(pickle.dumps(m)))):
        for n in ('SER', 'BER'):
            v = np.asarray(getattr(c, 'calcTheoretical' + n)(base.copy()), dtype=float)
            if not np.allclose(v, ref[n], rtol=1e-12, atol=0):
                return 'calls:%s:%s:%s' % (nm, n, kind), 'curve of the copy differs'
    # argument forms: the documented parameters given positionally or by keyword, scalar or array SNR,
    # packet_length absent / None / given -- each must give the value of the definition
    bits = math.log2(M)
    for idx in (0, len(base) // 2, len(base) - 1):
        for sc in (float(base[idx]), int(base[idx]), np.float64(base[idx]), np.array(base[idx]), base[idx:idx + 1].copy()):
            per, ber = float(ref['PER'][idx]), float(ref['BER'][idx])
            forms = [
                ('PER(snr, L)', lambda: m.calcTheoreticalPER(sc, L), per),
                ('PER(snr, packet_length=L)', lambda: m.calcTheoreticalPER(sc, packet_length=L), per),
                ('PER(SNR=snr, packet_length=L)', lambda: m.calcTheoreticalPER(SNR=sc, packet_length=L), per),
                ('SE(snr)', lambda: m.calcTheoreticalSpectralEfficiency(sc), bits * (1.0 - ber)),
                ('SE(snr, None)', lambda: m.calcTheoreticalSpectralEfficiency(sc, None), bits * (1.0 - ber)),
                ('SE(snr, packet_length=None)', lambda: m.calcTheoreticalSpectralEfficiency(sc, packet_length=None),
                 bits * (1.0 - ber)),
                ('SE(snr, L)', lambda: m.calcTheoreticalSpectralEfficiency(sc, L), bits * (1.0 - per)),
                ('SE(snr, packet_length=L)', lambda: m.calcTheoreticalSpectralEfficiency(sc, packet_length=L),
                 bits * (1.0 - per)),
                ('SE(SNR=snr, packet_length=L)', lambda: m.calcTheoreticalSpectralEfficiency(SNR=sc, packet_length=L),
                 bits * (1.0 - per)),
                ('SER(SNR=snr)', lambda: m.calcTheoreticalSER(SNR=sc), float(ref['SER'][idx])),
                ('BER(SNR=snr)', lambda: m.calcTheoreticalBER(SNR=sc), ber),
            ]
            for name, f, want in forms:
                v = np.asarray(f(), dtype=float)
                if v.size != 1 or not (rel_close(float(v.ravel()[0]), want, 1e-9) or abs(float(v.ravel()[0]) - want) <= 4 * SLACK):
                    return 'calls:form:%s:%s:%s' % (name, kind, type(sc).__name__), \
                        'snr=%r L=%r: got %r, definition gives %r' % (float(base[idx]), L, v.tolist(), want)
    return None


# --------------------------------------------------------------- R15 / R16 (values that are merely close; argument identity)
EPS = 2.0 ** -52
TINY = [0.0, 1e-15, -1e-15, 1e-13, 4e-13, 1e-12, 4e-12, 1e-9, -1e-9, 5e-9, 1e-8, -1e-8]


def cond_tol(arg):
    """relative tolerance of a value c*Q(arg) computed in binary64: Q has relative condition number ~ arg^2
    (d ln Q / d ln x -> x^2), so one rounding of the argument moves the value by about eps*arg^2.  Measured on
    the unchanged tree: <= 1.5 eps arg^2 over -30..60 dB for every modulator; 16x head room, nothing absolute."""
    return 16.0 * EPS * (4.0 + arg * arg)


def tight(v, ref, tol):
    """relative comparison; below the normal range of binary64 (Q underflows beyond arg ~ 37) only 'negligible'"""
    if not (v == v):
        return False
    if abs(ref) < 1e-290:
        return abs(v) < 1e-280
    return abs(v - ref) <= tol * abs(ref)


_GEOM = {}


def geometry(kind, M):
    """minimum distance of the family's unit-energy constellation from first principles (antipodal pair: 2;
    M points on the unit circle: chord 2 sin(pi/M); L x L grid of step h with mean energy 2(L^2-1)h^2/12 = 1:
    h = sqrt(6/(M-1))) -- after confirming, once per modulator, that the emitted `symbols` have it.  The tight
    comparisons below use the exact value: a distance measured on binary64 coordinates carries a relative error
    of about eps/d, which Q amplifies by arg^2 (for 1024-PSK more than the effect that is being looked for)."""
    if (kind, M) not in _GEOM:
        d = 2.0 if kind == 'BPSK' else 2.0 * math.sin(math.pi / M) if kind in ('PSK', 'QPSK') else math.sqrt(6.0 / (M - 1.0))
        _GEOM[(kind, M)] = (d, dmin_of(make(kind, M).symbols))
    return _GEOM[(kind, M)]


def geometry_bad(kind, M):
    d, measured = geometry(kind, M)
    if not rel_close(d, measured, 1e-9):
        return 'dmin-of-emitted-constellation:' + kind, 'M=%d: measured %r, the family has %r' % (M, measured, d)
    return None


def implied(kind, M, d, s):
    """(SER implied by a constellation of minimum distance d at Es/N0 = s dB, argument of Q) -- from first
    principles: sigma^2 = 1/(2 gamma) per real dimension, nearest-neighbour structure of the family"""
    g = 10.0 ** (s / 10.0)
    arg = d / (2.0 * math.sqrt(1.0 / (2.0 * g)))
    q = Qf(arg)
    if kind == 'BPSK':
        return q, arg
    if kind in ('PSK', 'QPSK'):
        return 2.0 * q, arg
    p = 2.0 * (1.0 - 1.0 / math.sqrt(M)) * q
    return 1.0 - (1.0 - p) ** 2, arg


def per_ref(ber, L):
    """1-(1-BER)^L evaluated without the cancellation of the literal formula"""
    return -math.expm1(L * math.log1p(-ber)) if ber < 1.0 else 1.0


def per_tol(ref, L):
    """the documented formula 1-(1-BER)**L rounds 1-BER to 2^-53 relative and raises it to the L-th power: an
    absolute error of about (L+2) 2^-53 is binary64 behaviour of the formula itself (DESIGN C16, 'Limits')"""
    return 1e-12 * abs(ref) + (L + 2.0) * 2.0 ** -53


def close_cluster(s):
    """distinct legitimate SNR values which np.isclose (atol 1e-8, rtol 1e-5), a key rounded to 6..12 decimals
    or an absolute threshold 1e-8 would identify with s"""
    if s == 0.0:
        return list(TINY)
    return [s, math.nextafter(s, math.inf), s + 1e-12, s - 3e-12, s + 1e-9, s + 4e-9, s - 9e-9,
            s * (1 - 1e-6), s * (1 - 4e-6), s * (1 - 9e-6)]


def o_close(case):
    """R15: SNR values / packet lengths that are distinct but merely close (scalars one after the other on ONE
    long-lived object, then all of them in one array): every value gets exactly the rates of a first-principles
    computation for THAT value -- the SER implied by the emitted constellation, BER/PER/SE of a fresh object /
    of their definitions -- to within the rounding of the formula (cond_tol), which separates the values"""
    kind, M = case['kind'], case['M']
    vals = [float(v) for v in case['snr']]
    g = geometry_bad(kind, M)
    if g:
        return g
    m = make(kind, M)
    fresh = make(kind, M)
    d = geometry(kind, M)[0]
    k = kbits(M)
    sref, bref, args = [], [], []
    for s in vals:
        e, a = implied(kind, M, d, s)
        sref.append(e)
        args.append(a)
        bref.append(float(make(kind, M).calcTheoreticalBER(s)) if case.get('fresh_each') else
                    float(fresh.calcTheoreticalBER(s)))
    extra = 4 * SLACK if kind == 'QAM' else 0.0   # 1-(1-P)^2 of the code cancels: absolute 2^-52 (see CLAIM)

    def bad(n, i, v):
        if n == 'SER':
            ok = tight(v, sref[i], cond_tol(args[i])) or abs(v - sref[i]) <= extra
        else:
            ok = tight(v, bref[i], cond_tol(args[i]))   # scalar and array pow / erfc may round differently
            # the bit error rate of a value lies in the band the property states, around the implied SER
            if bref[i] < 1e-290:     # Q underflows (arg > 37): only 'negligible' is comparable
                ok = ok and 0.0 <= v < 1e-280
            else:
                ok = ok and v <= sref[i] * (1 + cond_tol(args[i])) + extra and sref[i] <= k * v * (1 + cond_tol(args[i])) + extra
        return not ok

    order = list(range(len(vals)))
    for idxs, tag in ((order, 'scalar'), (order[::-1], 'scalar-reversed')):
        for i in idxs:
            for n in ('SER', 'BER'):
                v = float(getattr(m, 'calcTheoretical' + n)(vals[i]))
                if bad(n, i, v):
                    return 'R15:snr:%s:%s:%s' % (n, kind, tag), 'snr=%r (neighbours %r): %s=%r, for this value %r' % (
                        vals[i], vals[max(0, i - 1):i + 2], n, v, (sref if n == 'SER' else bref)[i])
    arr = np.array(vals, dtype=float)
    for obj, tag in ((m, 'array'), (make(kind, M), 'array-fresh')):
        for n in ('SER', 'BER'):
            out = np.asarray(getattr(obj, 'calcTheoretical' + n)(arr.copy()), dtype=float)
            if out.shape != arr.shape:
                return 'R15:snr:%s:%s:%s' % (n, kind, tag), 'shape %r' % (out.shape,)
            for i in order:
                if bad(n, i, float(out[i])):
                    return 'R15:snr:%s:%s:%s' % (n, kind, tag), 'snr[%d]=%r in %r: %s=%r, for this value %r' % (
                        i, vals[i], vals, n, float(out[i]), (sref if n == 'SER' else bref)[i])
    # packet lengths that are close (L, L+1, L(1+1e-6)): each gives the PER / SE of ITS length
    bits = math.log2(M)
    for L in case.get('lengths', []):
        for obj in (m, make(kind, M)):
            per = np.asarray(obj.calcTheoreticalPER(arr.copy(), L), dtype=float)
            se = np.asarray(obj.calcTheoreticalSpectralEfficiency(arr.copy(), L), dtype=float)
            for i in order:
                want = per_ref(bref[i], L)
                if not abs(float(per[i]) - want) <= per_tol(want, L):
                    return 'R15:length:PER:' + kind, 'snr=%r L=%r: PER=%r, 1-(1-BER)^L=%r' % (vals[i], L, float(per[i]), want)
                if not abs(float(se[i]) - bits * (1.0 - want)) <= bits * per_tol(want, L) + 1e-12 * bits:
                    return 'R15:length:SE:' + kind, 'snr=%r L=%r: SE=%r, K(1-PER)=%r' % (vals[i], L, float(se[i]), bits * (1 - want))
        for i in (0, len(vals) - 1):
            v = float(m.calcTheoreticalPER(vals[i], L))
            want = per_ref(bref[i], L)
            if not abs(v - want) <= per_tol(want, L):
                return 'R15:length:PER:%s:scalar' % kind, 'snr=%r L=%r: PER=%r, 1-(1-BER)^L=%r' % (vals[i], L, v, want)
    return None


def separated(case):
    """number of pairs of the case which the oracle tells apart: reference values further apart than 4 tolerances
    (the margin is computed from the first-principles values, not from the implementation)"""
    kind, M = case['kind'], case['M']
    d = geometry(kind, M)[0]
    r = [implied(kind, M, d, float(s)) for s in case['snr']]
    n = 0
    for i in range(len(r)):
        for j in range(i):
            (a, x), (b, y) = r[i], r[j]
            if min(a, b) > 1e-290 and abs(a - b) > 4 * max(cond_tol(x), cond_tol(y)) * max(a, b) \
                    and abs(float(case['snr'][i]) - float(case['snr'][j])) <= 1e-8 + 1e-5 * abs(float(case['snr'][j])):
                n += 1
    return n


def separated_lengths(case):
    """number of (SNR value, close pair of packet lengths) whose packet error rates the oracle tells apart"""
    kind, M = case['kind'], case['M']
    m = make(kind, M)
    n = 0
    for s in case['snr']:
        b = float(m.calcTheoreticalBER(float(s)))
        for L1 in case.get('lengths', []):
            for L2 in case.get('lengths', []):
                if L1 < L2 and near(L1, L2) and abs(per_ref(b, L1) - per_ref(b, L2)) > 4 * (
                        per_tol(per_ref(b, L1), L1) + per_tol(per_ref(b, L2), L2)):
                    n += 1
    return n


def o_closefn(case):
    """R15 for the two library functions under the curves: qfunc and dB2Linear at close-but-distinct arguments
    (scalars in sequence, then one array): each value gets 0.5 erfc(x/sqrt 2) resp. 10^(v/10) of ITS argument"""
    from pyphysim.util.conversion import dB2Linear
    from pyphysim.util.misc import qfunc
    xs = [float(x) for x in case['x']]
    fn, ref, tol = {'qfunc': (qfunc, Qf, cond_tol),
                    'dB2Linear': (dB2Linear, lambda v: 10.0 ** (v / 10.0), lambda v: 8 * EPS * (2.0 + abs(v)))}[case['fn']]
    outs = [[float(fn(x)) for x in xs], [float(fn(x)) for x in xs[::-1]][::-1],
            [float(v) for v in np.asarray(fn(np.array(xs)), dtype=float)]]
    for tag, out in zip(('scalar', 'scalar-reversed', 'array'), outs):
        for x, v in zip(xs, out):
            if not tight(v, ref(x), tol(x)):
                return 'R15:%s:%s' % (case['fn'], tag), '%s(%r)=%r, for this value %r (arguments %r)' % (case['fn'], x, v, ref(x), xs)
    return None


CALLS = {'SER': lambda m, x, L: m.calcTheoreticalSER(x), 'BER': lambda m, x, L: m.calcTheoreticalBER(x),
         'PER': lambda m, x, L: m.calcTheoreticalPER(x, L), 'SE0': lambda m, x, L: m.calcTheoreticalSpectralEfficiency(x),
         'SE': lambda m, x, L: m.calcTheoreticalSpectralEfficiency(x, L)}


def alloc(shape, dtype, layout):
    """the caller's preallocated argument buffer: its own array, or a strided window of a larger work area"""
    n = int(np.prod(shape)) if shape else 1
    if layout == 'view':
        big = np.zeros(2 * n + 3, dtype=dtype)
        return big[1:1 + 2 * n:2].reshape(shape) if shape else np.zeros((), dtype=dtype)
    return np.zeros(shape, dtype=dtype)


def outcome(f):
    try:
        return 'ok', f()
    except Exception as e:  # identity must not matter for rejections either
        return 'raise:' + type(e).__name__, None


def o_refill(case):
    """R16: the caller keeps ONE argument array and refills it in place before every call (same object, new
    contents), passes a just-dropped temporary (its id is reused), overwrites the argument right after the call,
    and uses one array in two roles.  The k-th result equals what a fresh modulator returns for a copy of the
    contents at call time (and the SER those contents imply); no earlier result changes afterwards; results
    alias neither the argument nor each other; the argument is not modified."""
    kind, M = case['kind'], case['M']
    dt, shape = case['dtype'], tuple(case['shape'])
    objs = [make(kind, M) for _ in range(case.get('objects', 1))]
    buf = alloc(shape, dt, case.get('layout', 'own'))
    g = geometry_bad(kind, M)
    if g:
        return g
    d = geometry(kind, M)[0]
    kept = []
    cls = '%s:%s:%s' % (kind, dt, 'x'.join(map(str, shape)) or '0d')
    for k, st in enumerate(case['history']):
        m = objs[st.get('obj', 0) % len(objs)]
        fill = np.array(st['fill'], dtype=dt).reshape(shape)
        if st.get('arg', 'buffer') == 'temp':
            x = np.array(fill)            # a temporary: dropped after the call, the next one reuses its address
        else:
            buf[...] = fill               # same object, new contents
            x = buf
        contents = np.array(x, copy=True)
        L = st.get('L', 1)
        r = CALLS[st['call']](m, x, L)
        ref = CALLS[st['call']](make(kind, M), np.array(contents, copy=True), L)
        ra, fa = np.asarray(r, dtype=float), np.asarray(ref, dtype=float)
        if ra.shape != fa.shape or not np.allclose(ra, fa, rtol=1e-12, atol=0.0):
            return 'R16:result-not-of-current-contents:%s:%s' % (st['call'], cls), \
                'call %d (%s, argument %s): contents %r give %r, a fresh modulator gives %r for a copy' % (
                    k, st['call'], st.get('arg', 'buffer'), contents.tolist(), ra.tolist(), fa.tolist())
        if st['call'] == 'SER' and dt == 'float64':
            for s, v in zip(contents.ravel().tolist(), ra.ravel().tolist()):
                e, a = implied(kind, M, d, s)
                if not (tight(v, e, cond_tol(a)) or abs(v - e) <= (4 * SLACK if kind == 'QAM' else 0.0)):
                    return 'R16:ser-not-implied-by-contents:' + cls, 'call %d: snr=%r ser=%r implied=%r' % (k, s, v, e)
        if not np.array_equal(x, contents):
            return 'R16:argument-modified:%s:%s' % (st['call'], cls), 'call %d changed its SNR argument' % k
        if isinstance(r, np.ndarray):
            if np.shares_memory(r, x):
                return 'R16:result-aliases-argument:%s:%s' % (st['call'], cls), 'call %d' % k
            for j, (old, _) in enumerate(kept):
                if isinstance(old, np.ndarray) and np.shares_memory(r, old):
                    return 'R16:result-aliases-earlier-result:%s:%s' % (st['call'], cls), 'calls %d and %d' % (j, k)
        kept.append((r, np.array(ra, copy=True)))
        # an equal-content but different array object gives the same values again
        r2 = np.asarray(CALLS[st['call']](m, np.array(contents, copy=True), L), dtype=float)
        if r2.shape != ra.shape or not np.allclose(r2, ra, rtol=1e-12, atol=0.0):
            return 'R16:equal-contents-different-object:%s:%s' % (st['call'], cls), \
                'call %d repeated with a copy of the argument: %r, then %r' % (k, ra.tolist(), r2.tolist())
        # the caller reuses the argument at once
        if st.get('arg', 'buffer') == 'temp':
            del x
        else:
            buf[...] = np.array(59 if k % 2 else -29, dtype=dt)
        for j, (old, snap) in enumerate(kept):
            if not np.array_equal(np.asarray(old, dtype=float), snap):
                return 'R16:earlier-result-changed:' + cls, 'result of call %d changed after call %d / after the ' \
                    'argument was overwritten' % (j, k)
    return None


def o_roles(case):
    """R16: ONE array object passed in two roles -- SNR (in dB) and packet length -- behaves as two equal arrays"""
    kind, M = case['kind'], case['M']
    v = np.array(case['values'], dtype=case['dtype']).reshape(tuple(case['shape']))
    for name in ('PER', 'SE'):
        x = np.array(v, copy=True)
        a = outcome(lambda: CALLS[name](make(kind, M), x, x))
        b = outcome(lambda: CALLS[name](make(kind, M), np.array(v, copy=True), np.array(v, copy=True)))
        if a[0] != b[0]:
            return 'R16:two-roles:%s:%s' % (name, kind), 'same object: %s, two equal arrays: %s' % (a[0], b[0])
        if a[0] == 'ok':
            ra, rb = np.asarray(a[1], dtype=float), np.asarray(b[1], dtype=float)
            if ra.shape != rb.shape or not np.allclose(ra, rb, rtol=1e-12, atol=0.0):
                return 'R16:two-roles:%s:%s' % (name, kind), 'values %r: same object %r, two equal arrays %r' % (
                    v.tolist(), ra.tolist(), rb.tolist())
            if v.size == 1:   # and it is the value of the definition for an integer packet length
                s = float(v.ravel()[0])
                L = int(v.ravel()[0])
                want = per_ref(float(make(kind, M).calcTheoreticalBER(s)), L)
                got = float(ra.ravel()[0]) if name == 'PER' else 1.0 - float(ra.ravel()[0]) / math.log2(M)
                if not abs(got - want) <= per_tol(want, L) + 4 * SLACK:
                    return 'R16:two-roles:%s:%s' % (name, kind), 'snr = L = %r: PER %r, definition %r' % (L, got, want)
        if not np.array_equal(x, v):
            return 'R16:argument-modified:two-roles:' + kind, name
    return None


def o_refillfn(case):
    """R16 for qfunc / dB2Linear: one argument buffer refilled in place between calls; temporaries; results kept"""
    from pyphysim.util.conversion import dB2Linear
    from pyphysim.util.misc import qfunc
    fn, ref, tol = {'qfunc': (qfunc, Qf, cond_tol),
                    'dB2Linear': (dB2Linear, lambda v: 10.0 ** (v / 10.0), lambda v: 8 * EPS * (2.0 + abs(v)))}[case['fn']]
    shape = tuple(case['shape'])
    buf = alloc(shape, 'float64', case.get('layout', 'own'))
    kept = []
    for k, st in enumerate(case['history']):
        fill = np.array(st['fill'], dtype=float).reshape(shape)
        if st.get('arg', 'buffer') == 'temp':
            x = np.array(fill)
        else:
            buf[...] = fill
            x = buf
        contents = np.array(x, copy=True)
        r = fn(x)
        ra = np.asarray(r, dtype=float)
        if ra.shape != contents.shape:
            return 'R16:%s:shape' % case['fn'], 'call %d' % k
        for s, v in zip(contents.ravel().tolist(), ra.ravel().tolist()):
            if not tight(v, ref(s), tol(s)):
                return 'R16:%s:result-not-of-current-contents' % case['fn'], 'call %d: %s(%r)=%r, expected %r' % (
                    k, case['fn'], s, v, ref(s))
        if not np.array_equal(x, contents):
            return 'R16:%s:argument-modified' % case['fn'], 'call %d' % k
        if isinstance(r, np.ndarray) and (np.shares_memory(r, x) or any(
                isinstance(o, np.ndarray) and np.shares_memory(r, o) for o, _ in kept)):
            return 'R16:%s:result-aliases' % case['fn'], 'call %d' % k
        kept.append((r, np.array(ra, copy=True)))
        if st.get('arg', 'buffer') == 'temp':
            del x
        else:
            buf[...] = 7.0
        for j, (old, snap) in enumerate(kept):
            if not np.array_equal(np.asarray(old, dtype=float), snap):
                return 'R16:%s:earlier-result-changed' % case['fn'], 'result of call %d changed after call %d' % (j, k)
    return None


def o_qfunc_gauss(case):
    from harness.props import c16_gauss
    return c16_gauss.o_qfunc_is_gaussian_tail(case)


ORACLES = {'qfunc.gauss': o_qfunc_gauss, 'close': o_close, 'closefn': o_closefn, 'refill': o_refill, 'roles': o_roles, 'refillfn': o_refillfn,
           'offsets': o_offsets, 'calls': o_calls, 'curves': o_curve, 'limit': o_limit, 'qfunc': o_qfunc}


def run_oracle(ctx, call, case, key=None):
    ctx.count((call, key if key is not None else repr(case)))
    try:
        r = ORACLES[call](case)
    except Exception as e:
        r = ('exception:' + type(e).__name__, repr(e)[:300])
    if r is not None:
        ctx.fail(call, r[0], case, r[1])
        ctx.branch('oracle-fail:' + call)
    else:
        ctx.branch('oracle-ok:' + call)


def replay(ctx, rep):
    return ORACLES[rep['call']](rep['case']) is not None


# --------------------------------------------------------------- correspondence
def parse_ca(rep):
    c, a = rep.split()
    return core.s2f(c[2:]), core.s2f(a[4:])


def correspondence(ctx, psk_max, qam_max, snrs, lengths):
    drv = core.Driver(DRIVER)
    for kind, M in mods(psk_max, qam_max):
        m = make(kind, M)
        k = kbits(M)
        if kind == 'BPSK':
            lines = ['bpsk %s' % core.f2s(s) for s in snrs]
        elif kind in ('PSK', 'QPSK'):
            lines = ['psk %d %s' % (M, core.f2s(s)) for s in snrs]
        else:
            lines = ['qam %d %s' % (M, core.f2s(s)) for s in snrs]
        out = drv.ask(lines)
        ser = np.asarray(m.calcTheoreticalSER(np.array(snrs)), dtype=float)
        ber = np.asarray(m.calcTheoreticalBER(np.array(snrs)), dtype=float)
        for i, s in enumerate(snrs):
            c, a = parse_ca(out[i])
            q = Qf(a)
            if kind == 'QAM':
                p = c * q
                mser = core.s2f(drv.ask(['qamser %s' % core.f2s(p)])[0]) if i % 16 == 0 else 1.0 - (1.0 - p) * (1.0 - p)
                mber = 2.0 * p / k
            elif kind == 'BPSK':
                mser, mber = c * q, c * q
            else:
                mser = c * q
                mber = 1.0 / k * mser
            ok = (rel_close(ser[i], mser, 1e-9) or abs(ser[i] - mser) <= 4 * SLACK) and rel_close(ber[i], mber, 1e-9)
            ctx.corr('SER/BER.' + kind, {'M': M, 'snr': s}, 'match' if ok else 'ser=%r ber=%r' % (ser[i], ber[i]),
                     'match' if ok else 'ser=%r ber=%r' % (mser, mber), key=('curve', kind, M, i))
            ctx.branch('curve:' + kind)
        # PER / SE
        for L in lengths:
            i = ctx.rng.below(len(snrs))
            per = float(m.calcTheoreticalPER(snrs[i], L))
            se = float(m.calcTheoreticalSpectralEfficiency(snrs[i], L))
            mper = core.s2f(drv.ask(['per %s %d' % (core.f2s(float(ber[i])), L)])[0])
            mse = core.s2f(drv.ask(['se %s %s' % (core.f2s(math.log2(M)), core.f2s(mper))])[0])
            # 1-(1-BER)^L cancels for tiny BER, and (1-BER)^L is L roundings in the model (repeated product) and
            # a pow call in numpy: each side carries an absolute rounding error of up to about (L+2) 2^-53
            # (thorough, seed 2: L = 10^4, PER = 4.2e-7, the two sides 8.7e-14 apart)
            ok = (rel_close(per, mper, 1e-9) or abs(per - mper) <= (L + 2.0) * SLACK) and rel_close(se, mse, 1e-9)
            ctx.corr('PER/SE.' + kind, {'M': M, 'snr': snrs[i], 'L': L}, 'match' if ok else (per, se),
                     'match' if ok else (mper, mse), key=('per', kind, M, L))
        se0 = float(m.calcTheoreticalSpectralEfficiency(snrs[0]))
        ok = rel_close(se0, math.log2(M) * (1.0 - float(ber[0])), 1e-12)
        ctx.corr('SE.nolength.' + kind, {'M': M}, 'match' if ok else se0, 'match', key=('se0', kind, M))
        # d_min of the emitted constellation = d_min of the model's, and arg = d_min/(2 sigma)
        if kind in ('PSK', 'QAM') and (M <= 1024 or ctx.tier == 'thorough'):
            md = core.s2f(drv.ask(['dmin psk %d' % M if kind == 'PSK' else 'dmin qam %d' % int(round(M ** 0.5))])[0])
            idm = dmin_of(m.symbols)
            ok = rel_close(md, idm, 1e-9)
            ctx.corr('dmin.' + kind, {'M': M}, 'match' if ok else idm, 'match' if ok else md, key=('dmin', kind, M))
            s = snrs[len(snrs) // 2]
            c, a = parse_ca(drv.ask([('psk %d %s' if kind == 'PSK' else 'qam %d %s') % (M, core.f2s(s))])[0])
            sig = math.sqrt(1.0 / (2.0 * 10.0 ** (s / 10.0)))
            ok = rel_close(a, idm / (2.0 * sig), 1e-9)
            ctx.corr('arg=dmin/2sigma.' + kind, {'M': M, 'snr': s}, 'match' if ok else idm / (2 * sig),
                     'match' if ok else a, key=('argd', kind, M))


def model_rates_batch(drv, reqs):
    """reqs: [(kind, M, [snr...])] -> per request a list of (SER, BER, Q-argument) of the Lean model (Float):
    coefficient and argument from the driver, Q from math.erfc, the QAM square from the driver's `qamser`.
    One driver round trip for all coefficient lines, one for all QAM squares."""
    lines = []
    for kind, M, svals in reqs:
        if kind == 'BPSK':
            lines += ['bpsk %s' % core.f2s(s) for s in svals]
        elif kind in ('PSK', 'QPSK'):
            lines += ['psk %d %s' % (M, core.f2s(s)) for s in svals]
        else:
            lines += ['qam %d %s' % (M, core.f2s(s)) for s in svals]
    out = iter(drv.ask(lines))
    cas = [[parse_ca(next(out)) for _ in svals] for _, _, svals in reqs]
    qlines = ['qamser %s' % core.f2s(c * Qf(a)) for (kind, _, _), ca in zip(reqs, cas) if kind == 'QAM' for c, a in ca]
    qout = iter(drv.ask(qlines))
    res = []
    for (kind, M, svals), ca in zip(reqs, cas):
        k = kbits(M)
        if kind == 'QAM':
            res.append([(core.s2f(next(qout)), 2.0 * (c * Qf(a)) / k, a) for c, a in ca])
        elif kind == 'BPSK':
            res.append([(c * Qf(a), c * Qf(a), a) for c, a in ca])
        else:
            res.append([(c * Qf(a), 1.0 / k * (c * Qf(a)), a) for c, a in ca])
    return res


def model_per_batch(drv, reqs):
    """reqs: [([ber...], L)] -> per request the model's 1-(1-ber)^L for each ber (one driver round trip)"""
    out = iter(drv.ask(['per %s %d' % (core.f2s(b), L) for bers, L in reqs for b in bers]))
    return [[core.s2f(next(out)) for _ in bers] for bers, L in reqs]


def near(a, b):
    """what np.isclose with its defaults calls equal"""
    return abs(a - b) <= 1e-8 + 1e-5 * abs(b)


def corr_close(ctx, drv, cases):
    """R15 correspondence: the model is a function of the exact SNR value -- close-but-distinct values, as
    scalars in sequence and as one array on a long-lived object, against the model's value for each of them;
    values the model tells apart (strictly antitone, Properties/C16Robust.lean) are told apart by the code"""
    rates = model_rates_batch(drv, [(c['kind'], c['M'], [float(v) for v in c['snr']]) for c in cases])
    lreq, lidx = [], []
    for ci, case in enumerate(cases):
        for L in case.get('corr_lengths', []):
            lreq.append(([r[1] for r in rates[ci]], L))
            lidx.append((ci, L))
    mpers = dict(zip(lidx, model_per_batch(drv, lreq)))
    for ci, case in enumerate(cases):
        kind, M = case['kind'], case['M']
        vals = [float(v) for v in case['snr']]
        mr = rates[ci]
        m = make(kind, M)
        sc = [(float(m.calcTheoreticalSER(s)), float(m.calcTheoreticalBER(s))) for s in vals]
        ar = list(zip(np.asarray(m.calcTheoreticalSER(np.array(vals)), dtype=float).tolist(),
                      np.asarray(m.calcTheoreticalBER(np.array(vals)), dtype=float).tolist()))
        extra = 4 * SLACK if kind == 'QAM' else 0.0
        for i, s in enumerate(vals):
            ms, mb, a = mr[i]
            for tag, (vs, vb) in (('scalar', sc[i]), ('array', ar[i])):
                ok = (tight(vs, ms, cond_tol(a)) or abs(vs - ms) <= extra) and tight(vb, mb, cond_tol(a))
                ctx.corr('R15.close-snr.%s.%s' % (tag, kind), {'M': M, 'snr': s, 'cluster': [v for v in vals if near(v, s)]},
                         'match' if ok else 'ser=%r ber=%r' % (vs, vb), 'match' if ok else 'ser=%r ber=%r' % (ms, mb),
                         key=('r15', kind, M, tag, i, s))
            for j in range(i):
                (mj, _, aj), sj = mr[j], vals[j]
                if near(s, sj) and min(mj, ms) > 1e-290 and \
                        abs(mj - ms) > 4 * max(cond_tol(a), cond_tol(aj)) * max(mj, ms) + 2 * extra:
                    ok = (sc[i][0] < sc[j][0]) == (s > sj) and (ar[i][0] < ar[j][0]) == (s > sj)
                    ctx.corr('R15.strict-order.' + kind, {'M': M, 'snr': [sj, s]}, 'match' if ok else (sc[j][0], sc[i][0]),
                             'match' if ok else 'strictly %s' % ('smaller' if s > sj else 'larger'),
                             key=('r15ord', kind, M, i, j, s))
                    ctx.branch('corr:R15:close-values-told-apart')
        ctx.branch('corr:R15:close-but-distinct-snr')
        bits = math.log2(M)
        for L in case.get('corr_lengths', []):
            per = np.asarray(m.calcTheoreticalPER(np.array(vals), L), dtype=float)
            se = np.asarray(m.calcTheoreticalSpectralEfficiency(np.array(vals), L), dtype=float)
            mper = mpers[(ci, L)]
            for i, s in enumerate(vals):
                slack = 1e-9 * abs(mper[i]) + (L + 2.0) * SLACK
                ok = abs(per[i] - mper[i]) <= slack and abs(se[i] - bits * (1.0 - mper[i])) <= bits * slack
                ctx.corr('R15.close-length.' + kind, {'M': M, 'snr': s, 'L': L}, 'match' if ok else (per[i], se[i]),
                         'match' if ok else (mper[i], bits * (1.0 - mper[i])), key=('r15len', kind, M, L, i))
            ctx.branch('corr:R15:close-packet-lengths')


def corr_refill(ctx, drv, cases):
    """R16 correspondence: a history of calls on ONE modulator with ONE argument buffer refilled in place; the
    model's answer for call k is the pure function of the contents at call k (Properties/C16Robust.lean).
    All results are compared after the whole history has run: they must have stayed what they were."""
    recs = []
    for ci, case in enumerate(cases):
        if case['dtype'] != 'float64':
            continue
        kind, M = case['kind'], case['M']
        shape = tuple(case['shape'])
        objs = [make(kind, M) for _ in range(case.get('objects', 1))]
        buf = alloc(shape, 'float64', case.get('layout', 'own'))
        for k, st in enumerate(case['history']):
            fill = np.array(st['fill'], dtype=float).reshape(shape)
            if st.get('arg', 'buffer') == 'temp':
                x = np.array(fill)
            else:
                buf[...] = fill
                x = buf
            L = st.get('L', 1)
            try:
                r = CALLS[st['call']](objs[st.get('obj', 0) % len(objs)], x, L)
            except Exception as e:
                r = 'raised ' + type(e).__name__
            recs.append((case, k, st, fill.ravel().tolist(), r, L))
            if x is buf:
                buf[...] = 33.0
            del x
        ctx.branch('corr:R16:argument-buffer-refilled-in-place')
    rates = model_rates_batch(drv, [(c['kind'], c['M'], vals) for c, _, _, vals, _, _ in recs])
    pidx = [i for i, rec in enumerate(recs) if rec[2]['call'] in ('PER', 'SE')]
    mpers = dict(zip(pidx, model_per_batch(drv, [([r[1] for r in rates[i]], recs[i][5]) for i in pidx])))
    for ri, (case, k, st, vals, r, L) in enumerate(recs):
        kind, M = case['kind'], case['M']
        bits = math.log2(M)
        got = r if isinstance(r, str) else np.asarray(r, dtype=float).ravel().tolist()
        for i, s in enumerate(vals):
            ms, mb, a = rates[ri][i]
            if isinstance(got, str) or len(got) != len(vals):
                ok, want, g = False, '%d values' % len(vals), got
            else:
                g = got[i]
                if st['call'] == 'SER':
                    want = ms
                    ok = tight(g, ms, cond_tol(a)) or abs(g - ms) <= (4 * SLACK if kind == 'QAM' else 0.0)
                elif st['call'] == 'BER':
                    want = mb
                    ok = tight(g, mb, cond_tol(a))
                elif st['call'] == 'SE0':
                    want = bits * (1.0 - mb)
                    ok = abs(g - want) <= bits * (cond_tol(a) * mb + 2 * SLACK)
                else:
                    mp = mpers[ri][i]
                    want = mp if st['call'] == 'PER' else bits * (1.0 - mp)
                    ok = abs(g - want) <= (bits if st['call'] == 'SE' else 1.0) * (1e-9 * abs(mp) + (L + 2.0) * SLACK)
            ctx.corr('R16.refilled-buffer.%s.%s' % (st['call'], kind),
                     {'M': M, 'call': k, 'snr': s, 'shape': case['shape'], 'history': case['history']},
                     'match' if ok else g, 'match' if ok else want, key=('r16', kind, M, case.get('id'), k, i))


# --------------------------------------------------------------- generators of the R15 / R16 cases
R_MODS = (1 << 10, 4 ** 5)
BASES = [0.0, -29.9, -10.0, 0.3, 3.0, 10.0, 20.0, 36.6, 59.9]
CLOSE_LENGTHS = [1000, 1001, 10 ** 6, 10 ** 6 + 1]


def gen_close(ctx, quick):
    """one case per (modulator, base value): the base and its close-but-distinct neighbours, in shuffled order"""
    out = []
    for kind, M in mods(*R_MODS):
        bases = BASES + [0.1 + 0.2] + [ctx.rng.uniform(-29, 59) for _ in range(4 if quick else 40)]
        for b in bases:
            vals = close_cluster(b)
            ctx.rng.shuffle(vals)
            case = {'kind': kind, 'M': M, 'snr': vals}
            if b in (3.0, 10.0, 20.0, 36.6):
                case['lengths'] = CLOSE_LENGTHS
            if M <= 16:
                case['fresh_each'] = True
            out.append(case)
    return out


def gen_closefn(ctx, quick):
    out = []
    for fn, bases in (('qfunc', [0.0, 0.3, 1.0, 2.5, 5.0, 10.0, 20.0, 36.0, -3.0]),
                      ('dB2Linear', [0.0, 0.3, 3.0, 10.0, -30.0, 60.0, 120.0, -140.0])):
        for b in bases + [ctx.rng.uniform(-6, 36) for _ in range(2 if quick else 20)]:
            xs = close_cluster(b)
            ctx.rng.shuffle(xs)
            out.append({'fn': fn, 'x': xs})
    return out


def fills(ctx, dt, n):
    if dt == 'int64':
        return [float(ctx.rng.randint(-30, 60)) for _ in range(n)]
    if dt == 'float32':
        return [float(np.float32(ctx.rng.uniform(-30, 60))) for _ in range(n)]
    return [ctx.rng.uniform(-30, 60) for _ in range(n)]


def gen_refill(ctx, quick):
    """histories of 2..4 calls per modulator: the deterministic scenario set (every call kind, element type,
    0-d / 1-d / 2-d / strided buffer, one and two modulators, buffer and temporaries) + seeded random ones"""
    plans = [
        ('float64', [4], 'own', 1, [('SER', 'buffer'), ('SER', 'buffer'), ('BER', 'buffer'), ('SER', 'buffer')]),
        ('float64', [2, 3], 'view', 2, [('BER', 'buffer'), ('PER', 'buffer'), ('SE', 'buffer'), ('SE0', 'buffer')]),
        ('float64', [], 'own', 1, [('SER', 'buffer'), ('SER', 'buffer'), ('BER', 'buffer')]),
        ('int64', [3], 'own', 1, [('SER', 'buffer'), ('PER', 'buffer'), ('SER', 'buffer')]),
        ('float32', [5], 'view', 1, [('BER', 'buffer'), ('BER', 'buffer'), ('SE0', 'buffer')]),
        ('float64', [4], 'own', 1, [('SER', 'temp'), ('SER', 'temp'), ('BER', 'temp'), ('BER', 'temp')]),
        ('float64', [6], 'own', 2, [('PER', 'buffer'), ('PER', 'temp'), ('PER', 'buffer'), ('SE', 'buffer')]),
    ]
    out = []
    for kind, M in mods(*R_MODS):
        todo = list(plans)
        for _ in range(3 if quick else 40):
            dt = ctx.rng.choice(['float64', 'float64', 'int64', 'float32'])
            shape = ctx.rng.choice([[], [1], [3], [7], [2, 2], [3, 1, 2]])
            todo.append((dt, shape, ctx.rng.choice(['own', 'view']), ctx.rng.choice([1, 2]),
                         [(ctx.rng.choice(['SER', 'BER', 'PER', 'SE', 'SE0']), ctx.rng.choice(['buffer', 'buffer', 'temp']))
                          for _ in range(ctx.rng.randint(2, 4))]))
        for pi, (dt, shape, layout, nobj, calls) in enumerate(todo):
            n = int(np.prod(shape)) if shape else 1
            hist = []
            for ci, (call, arg) in enumerate(calls):
                st = {'call': call, 'arg': arg, 'fill': fills(ctx, dt, n), 'obj': ci % nobj}
                if call in ('PER', 'SE'):
                    st['L'] = ctx.rng.choice([1, 7, 100, 1000])
                hist.append(st)
            out.append({'kind': kind, 'M': M, 'dtype': dt, 'shape': shape, 'layout': layout, 'objects': nobj,
                        'history': hist, 'id': pi})
    return out


def gen_roles(ctx, quick):
    out = []
    for kind, M in mods(*R_MODS):
        for dt, shape, vals in (('int64', [], [7]), ('int64', [1], [12]), ('int64', [4], [1, 5, 10, 20]), ('float64', [], [5.0]),
                                ('int32', [], [ctx.rng.randint(1, 30)])):
            out.append({'kind': kind, 'M': M, 'dtype': dt, 'shape': shape, 'values': vals})
    return out


def gen_refillfn(ctx, quick):
    out = []
    for fn, lo, hi in (('qfunc', -6.0, 36.0), ('dB2Linear', -140.0, 120.0)):
        for shape, layout, args in (([5], 'own', ['buffer'] * 4), ([2, 2], 'view', ['buffer', 'temp', 'buffer']),
                                    ([], 'own', ['buffer'] * 3), ([3], 'own', ['temp'] * 4)):
            n = int(np.prod(shape)) if shape else 1
            for _ in range(1 if quick else 10):
                out.append({'fn': fn, 'shape': shape, 'layout': layout,
                            'history': [{'arg': a, 'fill': [ctx.rng.uniform(lo, hi) for _ in range(n)]} for a in args]})
    return out


R_BRANCHES = ['R15:close-but-distinct-snr', 'R15:close-values-told-apart', 'R15:close-packet-lengths',
              'R15:close-packet-lengths-told-apart',
              'R15:close-arguments-of-qfunc-dB2Linear', 'R15:close-phase-offsets',
              'R16:argument-buffer-refilled-in-place', 'R16:temporary-argument-id-reused',
              'R16:one-array-in-two-roles', 'R16:function-argument-buffer-refilled']
R_CORR_BRANCHES = ['corr:R15:close-but-distinct-snr', 'corr:R15:close-values-told-apart', 'corr:R15:close-packet-lengths',
                   'corr:R16:argument-buffer-refilled-in-place']


def robustness(ctx, quick, with_corr=True):
    """classes R15 (distinct values that are merely close) and R16 (argument identity / buffer reuse)"""
    close = gen_close(ctx, quick)
    refill = gen_refill(ctx, quick)
    if with_corr:
        try:
            drv = core.Driver(DRIVER)
            per_mod = {}
            for c in close:     # one model request per modulator: all its clusters
                e = per_mod.setdefault((c['kind'], c['M']), {'kind': c['kind'], 'M': c['M'], 'snr': [], 'corr_lengths': [1000, 1001]})
                e['snr'] += c['snr']
            corr_close(ctx, drv, list(per_mod.values()))
            corr_refill(ctx, drv, refill)
        except core.Infra as e:
            if not ctx.broken:
                raise
            ctx.notes.append('R15/R16 correspondence skipped: %s' % e)
    for c in close:
        run_oracle(ctx, 'close', c, key=('close', c['kind'], c['M'], c['snr'][0]))
        ctx.branch('R15:close-but-distinct-snr')
        if separated(c):
            ctx.branch('R15:close-values-told-apart')
        if 'lengths' in c:
            ctx.branch('R15:close-packet-lengths')
            if separated_lengths(c):
                ctx.branch('R15:close-packet-lengths-told-apart')
    for c in gen_closefn(ctx, quick):
        run_oracle(ctx, 'closefn', c, key=('closefn', c['fn'], c['x'][0]))
        ctx.branch('R15:close-arguments-of-qfunc-dB2Linear')
    for M in (2, 8, 64):
        offs = [0.3, 0.1 + 0.2, 0.3 + 1e-9, 1e-15, 1e-12, 1e-9, 0.0, math.pi / 8, math.pi / 8 * (1 + 1e-6), 2.4 * (1 + 4e-6), 2.4]
        run_oracle(ctx, 'offsets', {'M': M, 'offsets': offs, 'snr': [-10.0, 0.0, 10.0, 20.0]}, key=('offsets-close', M))
        ctx.branch('R15:close-phase-offsets')
    for c in refill:
        run_oracle(ctx, 'refill', c, key=('refill', c['kind'], c['M'], c['id']))
        ctx.branch('R16:argument-buffer-refilled-in-place')
        if any(st['arg'] == 'temp' for st in c['history']):
            ctx.branch('R16:temporary-argument-id-reused')
    for c in gen_roles(ctx, quick):
        run_oracle(ctx, 'roles', c, key=('roles', c['kind'], c['M'], c['dtype'], tuple(c['shape'])))
        ctx.branch('R16:one-array-in-two-roles')
    for c in gen_refillfn(ctx, quick):
        run_oracle(ctx, 'refillfn', c)
        ctx.branch('R16:function-argument-buffer-refilled')


def check(ctx):
    quick = ctx.tier == 'quick'
    ctx.rule = ('modulators BPSK, QPSK, PSK 2..2^10, QAM 4..4^k; SNR grid over [-30,60] dB plus seeded points, '
                'scalar and array paths; packet lengths 1..10^4; non-trivial = distinct (formula, modulator, M, SNR index). '
                'R15: per modulator, clusters of close-but-distinct SNR values (adjacent doubles, +-1e-12..1e-8, relative '
                '1e-6..1e-5, tiny magnitudes around 0 dB) at 14 (thorough 50) base points, as scalars in sequence on one object and in '
                'one array; close packet lengths (L, L+1 at 10^3 and 10^6); close arguments of qfunc / dB2Linear; each '
                'compared with the first-principles value for THAT value to 16 eps (4+arg^2) relative (the conditioning '
                'of Q), pairs further apart than 4 tolerances counted as told apart. R16: per modulator 7 deterministic '
                '+ 3 (thorough 40) seeded histories of 2..4 calls (SER/BER/PER/SE) on ONE argument array refilled in place / on '
                'dropped temporaries, float64/int64/float32, 0-d..3-d, own or strided, one or two modulators; one '
                'array as SNR and packet length; the same for qfunc / dB2Linear')
    psk_max, qam_max = (1 << 10, 4 ** 5) if quick else (1 << 12, 4 ** 6)
    n = 46 if quick else 361
    snrs = [-30.0 + 90.0 * i / (n - 1) for i in range(n)] + [ctx.rng.uniform(-30, 60) for _ in range(10)]
    lengths = [1, 2, 10, 1000] if quick else [1, 2, 3, 10, 100, 1000, 10000]
    core.prove(ctx, MODULE, generated=['C16Formulas'], drivers=[DRIVER], scratch=ctx.scratch)
    prove_extra(ctx)
    ctx.required_branches = ['curve:BPSK', 'curve:PSK', 'curve:QAM', 'curve:QPSK',
                             'qfunc-is-the-gaussian-tail-integral'] + R_BRANCHES + R_CORR_BRANCHES
    try:
        correspondence(ctx, psk_max, qam_max, snrs, lengths)
    except core.Infra as e:
        if not ctx.broken:
            raise
        ctx.notes.append('correspondence skipped: %s' % e)
        ctx.required_branches = list(R_BRANCHES)
    robustness(ctx, quick)
    if ctx.notes and any('R15/R16 correspondence skipped' in n for n in ctx.notes):
        ctx.required_branches = [b for b in ctx.required_branches if b not in R_CORR_BRANCHES]
    for kind, M in mods(psk_max, qam_max):
        run_oracle(ctx, 'curves', {'kind': kind, 'M': M, 'snr': snrs, 'lengths': lengths}, key=('curves', kind, M))
        run_oracle(ctx, 'limit', {'kind': kind, 'M': M}, key=('limit', kind, M))
        if kind == 'PSK':
            offs = [ctx.rng.uniform(-7, 7) for _ in range(8)] + [1.739, 1.813, math.pi / 8, 0.1]
            ctx.rng.shuffle(offs)
            run_oracle(ctx, 'offsets', {'M': M, 'offsets': offs[:6 if M > 64 else 12], 'snr': [-10.0, 0.0, 10.0, 20.0]},
                       key=('offsets', M))
        run_oracle(ctx, 'calls', {'kind': kind, 'M': M, 'snr': [float(v) for v in range(-30, 61, 6)],
                                  'L': ctx.rng.choice([1, 7, 100])}, key=('calls', kind, M))
    for x in [0.0, 0.1, 1.0, 2.5, 5.0, 10.0, 20.0, 37.0, -1.0, -6.0] + [ctx.rng.uniform(-8, 38) for _ in range(40)]:
        run_oracle(ctx, 'qfunc', {'x': x})
    from harness.props import c16_gauss
    for x in c16_gauss.GRID + [ctx.rng.uniform(-8, 38) for _ in range(10 if ctx.tier == 'quick' else 200)]:
        run_oracle(ctx, 'qfunc.gauss', {'x': x})
        ctx.branch('qfunc-is-the-gaussian-tail-integral')
    ctx.sample({'call': 'SER/BER.QAM', 'M': 16, 'snr': 10.0, 'compare': 'coef*Q(arg) from the Lean model vs calcTheoreticalSER'})
    ctx.sample({'call': 'curves', 'kind': 'PSK', 'M': 8, 'checks': 'in [0,1], antitone, BER<=SER<=k BER, PER, SE, SER from measured d_min'})


def search(ctx):
    robustness(ctx, False, with_corr=False)
    snrs = [-30.0 + 0.05 * i for i in range(1801)]
    for kind, M in mods(1 << 12, 4 ** 6):
        run_oracle(ctx, 'curves', {'kind': kind, 'M': M, 'snr': snrs, 'lengths': [1, 7, 1000]})
