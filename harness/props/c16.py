"""C16 — theoretical error-rate curves (DESIGN.md §5 C16)."""
import math

import numpy as np

from harness import core

MODULE = 'PyPhysim.Properties.C16'
DRIVER = 'drv_c16'
CLAIM = {
    'technique': 'Lean 4 theorems over R with an abstract Gaussian-tail function Q (order/limit algebra, d_min '
                 'geometry of the modelled constellations) + numeric correspondence of every coefficient and '
                 'Q-argument, Q evaluated independently with math.erfc',
    'text': 'Kernel-checked for every modulator order, every SNR and every packet length: SER/BER/PER are in [0,1], '
            'antitone in SNR, tend to 0; BER <= SER <= k BER (PSK equality SER = k BER); PER = 1-(1-BER)^L, '
            'SE = K(1-PER); and the argument of Q in each formula equals d_min/(2 sigma) of the constellation the '
            'C01 model emits (d_min proved minimal over ALL pairs: 2 sin(pi/M) for PSK, one grid step 2/e for QAM), '
            'the QAM coefficient being the mean per-axis neighbour count. The formulas are tied to fundamental.py '
            'by comparing coefficient and Q-argument (model, Float) with the methods\' outputs over -30..60 dB for '
            'every order, with Q = 0.5 erfc(x/sqrt 2) from math.erfc, and d_min measured on Modulator.symbols.',
    'note': 'Partial: Q is abstract (IsQ: antitone, Q 0 = 1/2, >= 0, -> 0); that the formulas are the exact AWGN '
            'error rates for BPSK/QAM and a bound within [exact, 2 exact] for PSK is a statement about Gaussian '
            'integrals and is NOT proved - only its algebraic half (formula structure vs constellation geometry). '
            'Order relations are compared in binary64 with absolute slack 2^-52 (1-(1-P)^2 cancels to 0.0 for '
            'P < 2^-53 while 2P/k > 0). scipy.special.erfc is an oracle checked against math.erfc.',
}
SLACK = 2.0 ** -52


def _f():
    from pyphysim.modulators import fundamental
    return fundamental


def Qf(x):
    return 0.5 * math.erfc(x / math.sqrt(2.0))


def make(kind, M):
    f = _f()
    return {'BPSK': lambda: f.BPSK(), 'QPSK': lambda: f.QPSK(), 'PSK': lambda: f.PSK(M),
            'QAM': lambda: f.QAM(M)}[kind]()


def mods(psk_max, qam_max):
    out = [('BPSK', 2), ('QPSK', 4)]
    M = 2
    while M <= psk_max:
        out.append(('PSK', M))
        M *= 2
    M = 4
    while M <= qam_max:
        out.append(('QAM', M))
        M *= 4
    return out


def kbits(M):
    return max(1, (M - 1).bit_length())


def rel_close(a, b, rtol=1e-9):
    return abs(a - b) <= rtol * max(abs(a), abs(b)) + 1e-305


# --------------------------------------------------------------- oracles (implementation only)
def dmin_of(symbols):
    s = np.asarray(symbols, dtype=complex)
    d = np.abs(s[:, None] - s[None, :])
    d[np.arange(s.size), np.arange(s.size)] = np.inf
    return float(d.min())


def o_curve(case):
    """probabilities, monotone, BER<=SER<=k BER, PER/SE definitions, SER implied by the emitted constellation"""
    kind, M = case['kind'], case['M']
    m = make(kind, M)
    snr = np.array(case['snr'], dtype=float)
    order = np.argsort(snr)
    ser = np.asarray(m.calcTheoreticalSER(snr), dtype=float)
    ber = np.asarray(m.calcTheoreticalBER(snr), dtype=float)
    k = kbits(M)
    for name, v in (('SER', ser), ('BER', ber)):
        if np.any(~np.isfinite(v)) or np.any(v < 0) or np.any(v > 1 + SLACK):
            return 'not-probability:%s:%s' % (name, kind), '%s outside [0,1]' % name
        if np.any(np.diff(v[order]) > SLACK):
            return 'not-monotone:%s:%s' % (name, kind), '%s increases with SNR' % name
    if np.any(ber > ser + SLACK) or np.any(ser > k * ber + SLACK):
        i = int(np.argmax((ber > ser + SLACK) | (ser > k * ber + SLACK)))
        return 'ber-ser-order:' + kind, 'snr=%r ser=%r ber=%r k=%d' % (snr[i], ser[i], ber[i], k)
    # scalar path agrees with the array path
    s0 = float(snr[0])
    if not rel_close(float(m.calcTheoreticalSER(s0)), float(ser[0])):
        return 'scalar-array-differ:' + kind, 'SER scalar vs array at %r' % s0
    for L in case['lengths']:
        per = np.asarray(m.calcTheoreticalPER(snr, L), dtype=float)
        exp = 1.0 - (1.0 - ber) ** L
        if not np.allclose(per, exp, rtol=1e-12, atol=1e-300):
            return 'per-definition:' + kind, 'L=%d' % L
        se = np.asarray(m.calcTheoreticalSpectralEfficiency(snr, L), dtype=float)
        if not np.allclose(se, math.log2(M) * (1.0 - per), rtol=1e-12, atol=1e-300):
            return 'se-definition:' + kind, 'L=%d' % L
    # the SER implied by the constellation actually emitted
    # (SNR is Es/N0 at the library's unit mean symbol energy: sigma^2 = 1/(2 gamma); a rescaled
    #  constellation therefore shows up here as a d_min the curve does not account for)
    d = dmin_of(m.symbols)
    for i, s in enumerate(snr):
        g = 10.0 ** (s / 10.0)
        sig = math.sqrt(1.0 / (2.0 * g))
        q = Qf(d / (2.0 * sig))
        if kind == 'BPSK':
            exp = q
        elif kind in ('PSK', 'QPSK'):
            exp = 2.0 * q
        else:
            p = 2.0 * (1.0 - 1.0 / math.sqrt(M)) * q
            exp = 1.0 - (1.0 - p) ** 2
        if not (rel_close(ser[i], exp, 1e-9) or abs(ser[i] - exp) <= 4 * SLACK):
            return 'ser-not-implied-by-constellation:' + kind, 'snr=%r ser=%r implied=%r dmin=%r' % (s, ser[i], exp, d)
    return None


def o_offsets(case):
    """PSK with phase offsets (constructor argument and setPhaseOffset histories): the order M, K and the curves
    do not depend on the offset, and the SER is still the one implied by the constellation actually emitted"""
    f = _f()
    M = case['M']
    ref = f.PSK(M)
    snr = np.array(case['snr'], dtype=float)
    ser0 = np.asarray(ref.calcTheoreticalSER(snr), dtype=float)
    m = f.PSK(M, case['offsets'][0])
    for step, off in enumerate(case['offsets']):
        if step:
            m.setPhaseOffset(off)
        s = np.asarray(m.symbols)
        if s.size != M or m.M != M or abs(float(m.K) - math.log2(M)) > 1e-12:
            return 'offset:order-changed', 'offset %r: %d symbols, M=%r, K=%r' % (off, s.size, m.M, m.K)
        d = dmin_of(s)
        if not rel_close(d, 2 * math.sin(math.pi / M), 1e-9):
            return 'offset:dmin-changed', 'offset %r: d_min %r' % (off, d)
        ser = np.asarray(m.calcTheoreticalSER(snr), dtype=float)
        if not np.allclose(ser, ser0, rtol=1e-12, atol=0):
            return 'offset:curve-changed', 'offset %r' % off
        for i, sdb in enumerate(snr):
            q = Qf(d / (2.0 * math.sqrt(1.0 / (2.0 * 10.0 ** (sdb / 10.0)))))
            if not (rel_close(ser[i], 2.0 * q, 1e-9) or abs(ser[i] - 2.0 * q) <= 4 * SLACK):
                return 'offset:ser-not-implied-by-constellation', 'offset %r snr %r' % (off, sdb)
    return None


def o_limit(case):
    m = make(case['kind'], case['M'])
    v = float(m.calcTheoreticalSER(400.0))
    if not (0 <= v <= 1e-12):
        return 'no-limit-zero:' + case['kind'], 'SER(400 dB)=%r' % v
    return None


def o_qfunc(case):
    from pyphysim.util.misc import qfunc
    x = case['x']
    a, b = float(qfunc(x)), Qf(x)
    if not rel_close(a, b, 1e-12):
        return 'qfunc', 'qfunc(%r)=%r, 0.5 erfc(x/sqrt2)=%r' % (x, a, b)
    return None


def o_calls(case):
    """R1/R3/R7: SNR given as int / float32 / float64 arrays and numpy scalars gives the values of the float64
    twin; the caller's SNR array is never modified; repeated calls in any order return the same curves"""
    kind, M = case['kind'], case['M']
    m = make(kind, M)
    base = np.array(case['snr'], dtype=float)
    ref = {n: np.asarray(getattr(make(kind, M), 'calcTheoretical' + n)(base.copy()), dtype=float) for n in ('SER', 'BER')}
    L = case['L']
    ref['PER'] = np.asarray(make(kind, M).calcTheoreticalPER(base.copy(), L), dtype=float)
    for dt in ('int64', 'int16', 'float32', 'float64'):
        x = base.astype(dt)
        keep = x.copy()
        for order in (('BER', 'SER', 'PER', 'BER', 'SER'), ('PER', 'PER', 'SER', 'BER')):
            for n in order:
                v = m.calcTheoreticalPER(x, L) if n == 'PER' else getattr(m, 'calcTheoretical' + n)(x)
                v = np.asarray(v, dtype=float)
                # a float32 SNR axis legitimately limits the precision: 1-(1-BER)^L then carries an
                # absolute error of about L * eps32
                tol = 1e-4 if dt == 'float32' else 1e-9
                atol = (1e-6 + 2e-7 * L) if dt == 'float32' else 4 * SLACK
                if v.shape != base.shape or not np.allclose(v, ref[n], rtol=tol, atol=atol):
                    return 'calls:%s:%s:%s' % (n, kind, dt), 'after call order %s' % (order,)
                if not np.array_equal(x, keep):
                    return 'calls:input-modified:%s:%s' % (kind, dt), 'calcTheoretical%s changed the SNR array' % n
    for sc in (np.int16(base[0]), np.float32(base[0]), int(base[0]), float(base[0])):
        v = float(m.calcTheoreticalSER(sc))
        if not rel_close(v, float(ref['SER'][0]), 1e-5):
            return 'calls:scalar:%s:%s' % (kind, type(sc).__name__), repr(v)
    # R11 / R13: the error-rate queries made so far left the modulator as it was, and a copy / pickle of it
    # reports the same curves
    import copy
    import pickle
    fresh = make(kind, M)
    if not np.array_equal(np.asarray(m.symbols), np.asarray(fresh.symbols)) or m.M != fresh.M or m.K != fresh.K:
        return 'calls:query-mutates:%s' % kind, 'symbols / M / K changed by calcTheoretical* calls'
    for nm, c in (('deepcopy', copy.deepcopy(m)), ('pickle', pickle.loads(pickle.dumps(m)))):
        for n in ('SER', 'BER'):
            v = np.asarray(getattr(c, 'calcTheoretical' + n)(base.copy()), dtype=float)
            if not np.allclose(v, ref[n], rtol=1e-12, atol=0):
                return 'calls:%s:%s:%s' % (nm, n, kind), 'curve of the copy differs'
    # argument forms: the documented parameters given positionally or by keyword, scalar or array SNR,
    # packet_length absent / None / given -- each must give the value of the definition
    bits = math.log2(M)
    for idx in (0, len(base) // 2, len(base) - 1):
        for sc in (float(base[idx]), int(base[idx]), np.float64(base[idx]), np.array(base[idx]), base[idx:idx + 1].copy()):
            per, ber = float(ref['PER'][idx]), float(ref['BER'][idx])
            forms = [
                ('PER(snr, L)', lambda: m.calcTheoreticalPER(sc, L), per),
                ('PER(snr, packet_length=L)', lambda: m.calcTheoreticalPER(sc, packet_length=L), per),
                ('PER(SNR=snr, packet_length=L)', lambda: m.calcTheoreticalPER(SNR=sc, packet_length=L), per),
                ('SE(snr)', lambda: m.calcTheoreticalSpectralEfficiency(sc), bits * (1.0 - ber)),
                ('SE(snr, None)', lambda: m.calcTheoreticalSpectralEfficiency(sc, None), bits * (1.0 - ber)),
                ('SE(snr, packet_length=None)', lambda: m.calcTheoreticalSpectralEfficiency(sc, packet_length=None),
                 bits * (1.0 - ber)),
                ('SE(snr, L)', lambda: m.calcTheoreticalSpectralEfficiency(sc, L), bits * (1.0 - per)),
                ('SE(snr, packet_length=L)', lambda: m.calcTheoreticalSpectralEfficiency(sc, packet_length=L),
                 bits * (1.0 - per)),
                ('SE(SNR=snr, packet_length=L)', lambda: m.calcTheoreticalSpectralEfficiency(SNR=sc, packet_length=L),
                 bits * (1.0 - per)),
                ('SER(SNR=snr)', lambda: m.calcTheoreticalSER(SNR=sc), float(ref['SER'][idx])),
                ('BER(SNR=snr)', lambda: m.calcTheoreticalBER(SNR=sc), ber),
            ]
            for name, f, want in forms:
                v = np.asarray(f(), dtype=float)
                if v.size != 1 or not (rel_close(float(v.ravel()[0]), want, 1e-9) or abs(float(v.ravel()[0]) - want) <= 4 * SLACK):
                    return 'calls:form:%s:%s:%s' % (name, kind, type(sc).__name__), \
                        'snr=%r L=%r: got %r, definition gives %r' % (float(base[idx]), L, v.tolist(), want)
    return None


ORACLES = {'offsets': o_offsets, 'calls': o_calls, 'curves': o_curve, 'limit': o_limit, 'qfunc': o_qfunc}


def run_oracle(ctx, call, case, key=None):
    ctx.count((call, key if key is not None else repr(case)))
    try:
        r = ORACLES[call](case)
    except Exception as e:
        r = ('exception:' + type(e).__name__, repr(e)[:300])
    if r is not None:
        ctx.fail(call, r[0], case, r[1])
        ctx.branch('oracle-fail:' + call)
    else:
        ctx.branch('oracle-ok:' + call)


def replay(ctx, rep):
    return ORACLES[rep['call']](rep['case']) is not None


# --------------------------------------------------------------- correspondence
def parse_ca(rep):
    c, a = rep.split()
    return core.s2f(c[2:]), core.s2f(a[4:])


def correspondence(ctx, psk_max, qam_max, snrs, lengths):
    drv = core.Driver(DRIVER)
    for kind, M in mods(psk_max, qam_max):
        m = make(kind, M)
        k = kbits(M)
        if kind == 'BPSK':
            lines = ['bpsk %s' % core.f2s(s) for s in snrs]
        elif kind in ('PSK', 'QPSK'):
            lines = ['psk %d %s' % (M, core.f2s(s)) for s in snrs]
        else:
            lines = ['qam %d %s' % (M, core.f2s(s)) for s in snrs]
        out = drv.ask(lines)
        ser = np.asarray(m.calcTheoreticalSER(np.array(snrs)), dtype=float)
        ber = np.asarray(m.calcTheoreticalBER(np.array(snrs)), dtype=float)
        for i, s in enumerate(snrs):
            c, a = parse_ca(out[i])
            q = Qf(a)
            if kind == 'QAM':
                p = c * q
                mser = core.s2f(drv.ask(['qamser %s' % core.f2s(p)])[0]) if i % 16 == 0 else 1.0 - (1.0 - p) * (1.0 - p)
                mber = 2.0 * p / k
            elif kind == 'BPSK':
                mser, mber = c * q, c * q
            else:
                mser = c * q
                mber = 1.0 / k * mser
            ok = (rel_close(ser[i], mser, 1e-9) or abs(ser[i] - mser) <= 4 * SLACK) and rel_close(ber[i], mber, 1e-9)
            ctx.corr('SER/BER.' + kind, {'M': M, 'snr': s}, 'match' if ok else 'ser=%r ber=%r' % (ser[i], ber[i]),
                     'match' if ok else 'ser=%r ber=%r' % (mser, mber), key=('curve', kind, M, i))
            ctx.branch('curve:' + kind)
        # PER / SE
        for L in lengths:
            i = ctx.rng.below(len(snrs))
            per = float(m.calcTheoreticalPER(snrs[i], L))
            se = float(m.calcTheoreticalSpectralEfficiency(snrs[i], L))
            mper = core.s2f(drv.ask(['per %s %d' % (core.f2s(float(ber[i])), L)])[0])
            mse = core.s2f(drv.ask(['se %s %s' % (core.f2s(math.log2(M)), core.f2s(mper))])[0])
            # 1-(1-BER)^L cancels for tiny BER: both sides carry an absolute rounding error of a few ulp of 1
            ok = (rel_close(per, mper, 1e-9) or abs(per - mper) <= 4 * SLACK) and rel_close(se, mse, 1e-9)
            ctx.corr('PER/SE.' + kind, {'M': M, 'snr': snrs[i], 'L': L}, 'match' if ok else (per, se),
                     'match' if ok else (mper, mse), key=('per', kind, M, L))
        se0 = float(m.calcTheoreticalSpectralEfficiency(snrs[0]))
        ok = rel_close(se0, math.log2(M) * (1.0 - float(ber[0])), 1e-12)
        ctx.corr('SE.nolength.' + kind, {'M': M}, 'match' if ok else se0, 'match', key=('se0', kind, M))
        # d_min of the emitted constellation = d_min of the model's, and arg = d_min/(2 sigma)
        if kind in ('PSK', 'QAM') and (M <= 1024 or ctx.tier == 'thorough'):
            md = core.s2f(drv.ask(['dmin psk %d' % M if kind == 'PSK' else 'dmin qam %d' % int(round(M ** 0.5))])[0])
            idm = dmin_of(m.symbols)
            ok = rel_close(md, idm, 1e-9)
            ctx.corr('dmin.' + kind, {'M': M}, 'match' if ok else idm, 'match' if ok else md, key=('dmin', kind, M))
            s = snrs[len(snrs) // 2]
            c, a = parse_ca(drv.ask([('psk %d %s' if kind == 'PSK' else 'qam %d %s') % (M, core.f2s(s))])[0])
            sig = math.sqrt(1.0 / (2.0 * 10.0 ** (s / 10.0)))
            ok = rel_close(a, idm / (2.0 * sig), 1e-9)
            ctx.corr('arg=dmin/2sigma.' + kind, {'M': M, 'snr': s}, 'match' if ok else idm / (2 * sig),
                     'match' if ok else a, key=('argd', kind, M))


def check(ctx):
    quick = ctx.tier == 'quick'
    ctx.rule = ('modulators BPSK, QPSK, PSK 2..2^10, QAM 4..4^k; SNR grid over [-30,60] dB plus seeded points, '
                'scalar and array paths; packet lengths 1..10^4; non-trivial = distinct (formula, modulator, M, SNR index)')
    psk_max, qam_max = (1 << 10, 4 ** 5) if quick else (1 << 12, 4 ** 6)
    n = 46 if quick else 361
    snrs = [-30.0 + 90.0 * i / (n - 1) for i in range(n)] + [ctx.rng.uniform(-30, 60) for _ in range(10)]
    lengths = [1, 2, 10, 1000] if quick else [1, 2, 3, 10, 100, 1000, 10000]
    core.prove(ctx, MODULE, generated=['C16Formulas'], drivers=[DRIVER], scratch=ctx.scratch)
    ctx.required_branches = ['curve:BPSK', 'curve:PSK', 'curve:QAM', 'curve:QPSK']
    try:
        correspondence(ctx, psk_max, qam_max, snrs, lengths)
    except core.Infra as e:
        if not ctx.broken:
            raise
        ctx.notes.append('correspondence skipped: %s' % e)
        ctx.required_branches = []
    for kind, M in mods(psk_max, qam_max):
        run_oracle(ctx, 'curves', {'kind': kind, 'M': M, 'snr': snrs, 'lengths': lengths}, key=('curves', kind, M))
        run_oracle(ctx, 'limit', {'kind': kind, 'M': M}, key=('limit', kind, M))
        if kind == 'PSK':
            offs = [ctx.rng.uniform(-7, 7) for _ in range(8)] + [1.739, 1.813, math.pi / 8, 0.1]
            ctx.rng.shuffle(offs)
            run_oracle(ctx, 'offsets', {'M': M, 'offsets': offs[:6 if M > 64 else 12], 'snr': [-10.0, 0.0, 10.0, 20.0]},
                       key=('offsets', M))
        run_oracle(ctx, 'calls', {'kind': kind, 'M': M, 'snr': [float(v) for v in range(-30, 61, 6)],
                                  'L': ctx.rng.choice([1, 7, 100])}, key=('calls', kind, M))
    for x in [0.0, 0.1, 1.0, 2.5, 5.0, 10.0, 20.0, 37.0, -1.0, -6.0] + [ctx.rng.uniform(-8, 38) for _ in range(40)]:
        run_oracle(ctx, 'qfunc', {'x': x})
    ctx.sample({'call': 'SER/BER.QAM', 'M': 16, 'snr': 10.0, 'compare': 'coef*Q(arg) from the Lean model vs calcTheoreticalSER'})
    ctx.sample({'call': 'curves', 'kind': 'PSK', 'M': 8, 'checks': 'in [0,1], antitone, BER<=SER<=k BER, PER, SE, SER from measured d_min'})


def search(ctx):
    snrs = [-30.0 + 0.05 * i for i in range(1801)]
    for kind, M in mods(1 << 12, 4 ** 6):
        run_oracle(ctx, 'curves', {'kind': kind, 'M': M, 'snr': snrs, 'lengths': [1, 7, 1000]})
