"""C17 — robustness classes R15 and R16 (helper module of harness/props/c17.py; not a property module).

R15 — distinct values that are merely close.  Families of pairwise DIFFERENT
scalars that `np.isclose` / a rounded key / an absolute threshold would identify
(tiny magnitudes 1e-9 … 5e-324, values that differ by a relative 1e-6, adjacent
doubles, values that differ beyond the 12th decimal, integers beyond 2^53, adjacent
float32 / float16 scalars).  Every member must be written, read back, compared,
named and — after a setter call on a long-lived object — saved as exactly ITSELF,
and the members must stay different from each other through every route.

R16 — argument identity and buffer reuse.  A caller keeps ONE array / list / set /
dict object, refills it in place between calls and hands it over again (or hands
the same object over in two roles).  What is written / returned depends on the
contents at call time only: it equals what a fresh object built from a copy of the
contents gives, and nothing that was returned, loaded or written earlier changes
when the buffer is refilled later.

All comparisons are exact (token for token, binary64 values as p/q): there is no
tolerance in this module.
"""
import copy
import json
import math
import os
import pickle
import zlib

import numpy as np


def B():
    from harness.props import c17
    return c17


NOTES = {}


def note(name):
    """branch names reported by an oracle (flushed into ctx.branch by the runner)"""
    NOTES[name] = NOTES.get(name, 0) + 1


def flush_notes(ctx):
    for k, n in NOTES.items():
        ctx.branch(k, n)
    NOTES.clear()


# ------------------------------------------------------------------ R15 values
def fl(x):
    return ['float', B().fhex(x)]


def nxt(x, up=True):
    return math.nextafter(x, math.inf if up else -math.inf)


def npf(dt, x):
    with np.errstate(all='ignore'):
        return ['npfloat', dt, B().fhex(float(np.dtype(dt).type(x)))]


def nxt_np(dt, x, up=True):
    t = np.dtype(dt).type
    return float(np.nextafter(t(x), t(np.inf if up else -np.inf)))


def dedupe(specs):
    c = B()
    out, seen = [], set()
    for s in specs:
        v = c.build(s)
        if v != v or (isinstance(v, (float, np.floating)) and (v == 0 and str(float(v)).startswith('-'))):
            continue                      # NaN is not reflexive; -0.0 == 0.0 for the classes' ==
        k = c.scalar_key(v)
        if k not in seen:
            seen.add(k)
            out.append(s)
    return out


def close_families():
    """deterministic families; every family has one spec type and >= 2 pairwise different members"""
    out = []

    def add(tag, specs):
        specs = dedupe(specs)
        assert len(specs) >= 2, tag
        out.append({'tag': tag, 'values': specs})
    add('tiny-magnitudes', [fl(x) for x in (1e-9, 1e-10, 4e-12, 4e-13, 1e-15, 1e-300, 5e-324, 0.0)])
    add('tiny-both-signs', [fl(x) for x in (-1e-9, -4e-12, -1e-15, 1e-15, 0.0)])
    add('carrier-frequency', [fl(x) for x in (2.4e9, 2.4e9 + 2e4, 2.4e9 + 1.0, nxt(2.4e9), 2.4e9 - 2e3)])
    add('adjacent-doubles', [fl(x) for x in (0.3, 0.30000000000000004, 0.1, nxt(0.1), 0.7, nxt(0.7, False))])
    add('beyond-12th-decimal', [fl(x) for x in (0.123456789012, 0.1234567890123, 0.12345678901234,
                                                0.123456789012345, 0.1234567890120001)])
    add('near-one', [fl(x) for x in (1.0, nxt(1.0), nxt(1.0, False), 1.0 + 1e-13, 1.0 + 1e-9, 1.000001, 1.00001)])
    add('relative-1e-6', [fl(x) for x in (1000.0, 1000.001, 1000.0001, 1000.01)])
    add('snr-dB', [fl(x) for x in (10.0, 10.000001, 10.00000001, 9.99999999999, -10.0, -10.000001)])
    add('large', [fl(x) for x in (1e12, 1e12 + 1, 1e12 * (1 + 1e-6), nxt(1e12))])
    add('huge', [fl(x) for x in (1e300, nxt(1e300), 1e300 * (1 + 1e-6))])
    add('int-beyond-2^53', [['int', i] for i in (2 ** 53, 2 ** 53 + 1, 2 ** 53 + 2, 2 ** 53 - 1)])
    add('int-carrier', [['int', i] for i in (2400000000, 2400020000, 2400000001)])
    add('int-relative-1e-5', [['int', i] for i in (100000, 100001, 1000000, 1000001, 1000010)])
    add('int-1e18', [['int', i] for i in (10 ** 18, 10 ** 18 + 1, 10 ** 18 + 10 ** 12)])
    add('float32-adjacent', [npf('float32', x) for x in (0.3, nxt_np('float32', 0.3), 0.1, nxt_np('float32', 0.1, False))])
    add('float32-tiny', [npf('float32', x) for x in (1e-9, 1e-10, 4e-12, 4e-13, 1e-38, 0.0)])
    add('float16-adjacent', [npf('float16', x) for x in (1.0, nxt_np('float16', 1.0), nxt_np('float16', 1.0, False), 6e-8)])
    add('float64-scalar-tiny', [npf('float64', x) for x in (1e-9, 4e-12, 4e-13, 1e-15, 0.0)])
    add('float64-scalar-adjacent', [npf('float64', x) for x in (0.3, 0.30000000000000004, 2.4e9, 2.4e9 + 2e4)])
    add('int64-scalar', [['npint', 'int64', i] for i in (2 ** 53, 2 ** 53 + 1, 2 ** 62, 2 ** 62 + 1)])
    add('int32-scalar', [['npint', 'int32', i] for i in (100000, 100001, 2 ** 31 - 1, 2 ** 31 - 2)])
    add('uint64-scalar', [['npint', 'uint64', i] for i in (2 ** 64 - 1, 2 ** 64 - 2, 2 ** 64 - 20000)])
    return out


def gen_close_family(rng):
    """a random magnitude with its neighbours under every usual kind of closeness / rounding"""
    c = rng.below(20)
    if c < 3:
        n = rng.randint(10 ** 5, 10 ** rng.randint(6, 18))
        ints = [n, n + 1, n - 1, n + n // 10 ** 6 + 1, n + n // 10 ** 9 + 2]
        if c == 0:
            dt = 'int64' if n >= 2 ** 31 - 2000 else rng.choice(['int32', 'int64', 'uint32', 'uint64'])
            specs = [['npint', dt, i] for i in ints]
        else:
            specs = [['int', i] for i in ints]
        return {'tag': 'random-int', 'values': dedupe(specs)}
    sign = -1.0 if rng.chance(0.25) else 1.0
    x = sign * 10.0 ** rng.uniform(-15, 12) * (1.0 + rng.uniform())
    if c < 6:
        dt = rng.choice(['float32', 'float32', 'float16'])
        if dt == 'float16':
            x = sign * 10.0 ** rng.uniform(-4, 4)
        xs = [x, nxt_np(dt, x), nxt_np(dt, x, False), x * (1 + 1e-3), x * (1 + 1e-6), 0.0]
        return {'tag': 'random-' + dt, 'values': dedupe([npf(dt, y) for y in xs])}
    xs = [x, nxt(x), nxt(x, False), x * (1 + 1e-6), x * (1 + 3e-9), x * (1 - 9e-6), x + 1e-9, x - 1e-12,
          round(x, 12), round(x, 8), float('%.12g' % x), float('%.6g' % x), float('%.15g' % x)]
    if c < 9:
        return {'tag': 'random-float64-scalar', 'values': dedupe([npf('float64', y) for y in xs])[:7]}
    return {'tag': 'random-float', 'values': dedupe([fl(y) for y in xs])[:7]}


def tname(spec):
    return spec[0] + (':' + spec[1] if spec[0] in ('npint', 'npfloat') else '')


def rendering(v):
    """first principles: what `'{x}'.format(x=v)` puts into a file name for a scalar"""
    return format(v, '')


def _wrap(v, first, how):
    if how == 'scalar':
        return v
    if how == 'list':
        return [v, first]
    return np.array([v, first])


# ------------------------------------------------------------------ R15 oracle
def o_close(case):
    """case = {'tag', 'values': [spec ...]}: pairwise different scalars of one type that are close to each other"""
    c = B()
    P, R, SR, S, misc = c._impl()
    specs = case['values']
    vals = [c.build(s) for s in specs]
    n = len(vals)
    tn = tname(specs[0])
    if len({c.scalar_key(v) for v in vals}) != n or n < 2:
        return 'harness:R15:family-not-distinct', repr(vals)

    def enc(v):
        return json.dumps(v, cls=S.NumpyOrSetEncoder)

    def dec(t):
        return json.loads(t, object_hook=S.json_numpy_or_set_obj_hook)
    pairs = [(i, j) for i in range(n) for j in range(n) if i != j]
    # ---- value layer
    texts = [enc(v) for v in vals]
    for i in range(n):
        d = c.deep_same(vals[i], dec(texts[i]))
        if d:
            return 'R15:json-value-changed:' + tn, d
    for i, j in pairs:
        if texts[i] == texts[j]:
            return 'R15:json-text-identifies-close-values:' + tn, '%r and %r are both written as %s' % (vals[i], vals[j], texts[i])
    d = c.deep_same(list(vals), dec(enc(list(vals))))
    if d:
        return 'R15:json-value-changed:list:' + tn, d
    st = dec(enc(set(vals)))
    if not isinstance(st, set) or len(st) != n or c.deep_same(set(vals), st):
        return 'R15:set-of-close-values:' + tn, 'the set %r came back as %r' % (set(vals), st)
    arr = np.array(vals)
    if arr.dtype.kind in 'iuf':
        w = dec(enc(arr))
        d = c.deep_same(arr, w) or (None if w.dtype == arr.dtype else 'dtype %s became %s' % (arr.dtype, w.dtype))
        if d:
            return 'R15:json-value-changed:array:' + tn, d
    # ---- parameters: round trip exact, and the classes' == / != keep close values apart
    for how in ('scalar', 'list', 'array'):
        if how == 'array' and arr.dtype.kind not in 'iuf':
            continue
        ps = [P.create({'x': _wrap(v, vals[0], how), 'M': 4}) for v in vals]
        qs = [P.from_json(p.to_json()) for p in ps]
        for i in range(n):
            d = c.params_same(ps[i], qs[i])
            if d:
                return 'R15:params-value-changed:%s:%s' % (how, tn), d
            if (qs[i] == ps[i]) is not True or (qs[i] != ps[i]) is not False:
                return 'R15:params-loaded-not-equal:%s:%s' % (how, tn), 'x = %r' % (vals[i],)
        for i, j in pairs:
            if (ps[i] == ps[j]) is not False or (ps[i] != ps[j]) is not True or (qs[i] == ps[j]) is not False:
                return ('R15:params-eq-identifies-close-values:%s:%s' % (how, tn),
                        'parameter sets with x = %r and x = %r compare equal' % (vals[i], vals[j]))
    # ---- unpacked: one child per value, every child keeps its own value
    for how in ('list', 'array'):
        if how == 'array' and arr.dtype.kind not in 'iuf':
            continue
        p = P.create({'x': list(vals) if how == 'list' else np.array(vals), 'M': 4})
        p.set_unpack_parameter('x')
        kids = p.get_unpacked_params_list()
        if len(kids) != n:
            return 'R15:unpacked-close-values:%s:%s' % (how, tn), '%d values gave %d variations' % (n, len(kids))
        loaded = []
        for i, k in enumerate(kids):
            q = P.from_json(k.to_json())
            d = c.params_same(k, q) or c.deep_same(vals[i], q['x']) or c.deep_same(i, q._unpack_index)
            if d:
                return 'R15:unpacked-close-values:%s:%s' % (how, tn), 'child %d: %s' % (i, d)
            loaded.append(q)
        for i, j in pairs:
            if (loaded[i] == kids[j]) is not False:
                return ('R15:params-eq-identifies-close-values:child:%s' % tn,
                        'the loaded child for x = %r equals the child for x = %r' % (vals[i], vals[j]))
    # ---- results
    small = all(abs(float(v)) < 1e150 for v in vals)
    makers = [('MISC', lambda v: R.create('m', R.MISCTYPE, v)), ('MISC-list', lambda v: R.create('m', R.MISCTYPE, [v, 0]))]
    if small:
        makers += [('SUM', lambda v: R.create('s', R.SUMTYPE, v)),
                   ('SUM-accumulate', lambda v: R.create('s', R.SUMTYPE, v, accumulate_values=True)),
                   ('RATIO', lambda v: R.create('r', R.RATIOTYPE, v, 3)),
                   ('RATIO-accumulate', lambda v: R.create('r', R.RATIOTYPE, v, 7, accumulate_values=True))]
        if all(1e-150 < float(v) for v in vals):
            makers.append(('RATIO-total', lambda v: R.create('r', R.RATIOTYPE, 1, v)))
    for what, mk in makers:
        rs = [mk(v) for v in vals]
        qs = [R.from_json(r.to_json()) for r in rs]
        for i in range(n):
            d = c.result_same(rs[i], qs[i])
            if d:
                return 'R15:result-value-changed:%s:%s' % (what, tn), d
            if (qs[i] == rs[i]) is not True or (qs[i] != rs[i]) is not False:
                return 'R15:result-loaded-not-equal:%s:%s' % (what, tn), 'value %r' % (vals[i],)
        for i, j in pairs:
            if (rs[i] == rs[j]) is not False or (rs[i] != rs[j]) is not True or (qs[i] == rs[j]) is not False:
                return ('R15:result-eq-identifies-close-values:%s:%s' % (what, tn),
                        'results updated with %r and with %r compare equal' % (vals[i], vals[j]))
    # ---- SimulationResults and files: one file per value in one folder
    base = os.path.join(c._tmpdir(), 'r15%08x' % zlib.crc32(json.dumps(case, sort_keys=True).encode()))
    try:
        return _close_files(case, c, P, R, SR, misc, vals, tn, base, pairs)
    finally:
        c._cleanup(base)


def _sim_with(c, P, R, SR, v):
    s = SR()
    s.set_parameters(P.create({'x': v, 'M': 4}))
    s.add_new_result('ber', R.RATIOTYPE, 3, 100)
    s.add_new_result('n', R.SUMTYPE, 2)
    s.runned_reps = [5]
    return s


def _close_files(case, c, P, R, SR, misc, vals, tn, base, pairs):
    n = len(vals)
    tpl = base + '_{x}_{M}'
    expected = [base + '_' + rendering(v) + '_4' for v in vals]
    if len(set(expected)) != n:
        return 'harness:R15:renderings-collide', repr(expected)     # (cannot happen: repr is injective per type)
    sims = [_sim_with(c, P, R, SR, v) for v in vals]
    for i, j in pairs:
        if (sims[i] == sims[j]) is not False or (sims[i] != sims[j]) is not True:
            return 'R15:sim-eq-identifies-close-values:' + tn, 'x = %r and x = %r' % (vals[i], vals[j])
    for ext in ('.json', '.pickle'):
        names = []
        for i, s in enumerate(sims):
            nm = s.get_filename_with_replaced_params(tpl + ext)
            if nm != expected[i] + ext or misc.replace_dict_values(tpl + ext, s.params.parameters, True) != nm:
                return ('R15:filename-not-the-exact-value:' + tn,
                        'x = %r gives %r instead of %r' % (vals[i], os.path.basename(nm), os.path.basename(expected[i] + ext)))
            actual = s.save_to_file(tpl + ext)
            if actual != nm:
                return 'R15:filename-not-the-exact-value:save:' + tn, '%r / %r' % (actual, nm)
            names.append(actual)
        if len(set(names)) != n:
            return 'R15:filename-identifies-close-values:' + tn, 'names %r' % ([os.path.basename(x) for x in names],)
        for i, nm in enumerate(names):
            q = SR.load_from_file(nm)
            d = c.sim_same(sims[i], q)
            if d:
                return 'R15:file-holds-another-value:%s:%s' % (ext, tn), 'file written for x = %r: %s' % (vals[i], d)
            if (q == sims[i]) is not True:
                return 'R15:sim-loaded-not-equal:%s:%s' % (ext, tn), 'x = %r' % (vals[i],)
            for j in range(n):
                if j != i and (q == sims[j]) is not False:
                    return 'R15:sim-eq-identifies-close-values:loaded:' + tn, 'x = %r and x = %r' % (vals[i], vals[j])
    c._cleanup(base)
    # ---- one long-lived object: a setter called with a close-but-different value takes effect
    s = _sim_with(c, P, R, SR, vals[0])
    p = s.params
    written = []
    for k in list(range(n)) + [0]:
        v = vals[k]
        if len(written) % 2:
            p['x'] = v
        else:
            p.add('x', v)
        if c.deep_same(v, p['x']):
            return 'R15:setter-close-value-ignored:getitem:' + tn, 'after p[x] = %r the object holds %r' % (v, p['x'])
        q = P.from_json(p.to_json())
        d = c.deep_same(v, q['x']) or c.deep_same(v, p.to_dict()['parameters']['x']) \
            or c.deep_same(v, pickle.loads(pickle.dumps(p, protocol=2))['x']) \
            or c.deep_same(v, SR.from_json(s.to_json()).params['x'])
        if d:
            return 'R15:setter-close-value-ignored:saved-form:' + tn, 'after p[x] = %r: %s' % (v, d)
        ext = '.json' if len(written) % 2 else '.pickle'
        nm = s.get_filename_with_replaced_params(tpl + ext)
        if nm != base + '_' + rendering(v) + '_4' + ext:
            return 'R15:setter-close-value-ignored:filename:' + tn, 'after p[x] = %r the name is %r' % (v, os.path.basename(nm))
        actual = s.save_to_file(tpl + ext)
        if actual != nm:
            return 'R15:setter-close-value-ignored:save:' + tn, '%r / %r' % (actual, nm)
        written.append((actual, v))
        # every file written so far still holds the value it was written for (the latest file of each name)
        latest = {}
        for a, w in written:
            latest[a] = w
        for a, w in latest.items():
            q = SR.load_from_file(a)
            d = c.deep_same(w, q.params['x'])
            if d:
                return ('R15:later-save-changed-earlier-file:' + tn,
                        'file %r was written for x = %r: %s' % (os.path.basename(a), w, d))
    return None


# ------------------------------------------------------------- R15 correspondence
def float_table(dicts):
    """float renderings (CPython / numpy repr: a parameter of the model) for the `fname` / `file` / `file2` ops"""
    c = B()
    items, seen = [], set()
    for d in dicts:
        for v in d.values():
            if isinstance(v, (float, np.floating)) and not (isinstance(v, np.floating) and v.dtype.itemsize > 8):
                w = 64 if not isinstance(v, np.generic) else v.dtype.itemsize * 8
                it = 'L3 i%d f%s %s' % (w, c.tok_float(v), c.tok_str(format(v, '')))
                if it not in seen:
                    seen.add(it)
                    items.append(it)
    return ' '.join(['L%d' % len(items)] + items)


def corr_file2(ctx, b, s, mutate, tpl, ext, case, name, key):
    """one long-lived SimulationResults saved, changed by `mutate()` (a setter call / an in-place refill), saved
    again under the same template; the model threads both saves through one file store"""
    c = B()
    SR = c._impl()[2]
    try:
        in1 = c.sim_in(s)
        d1 = dict(s.params.parameters)
        segs, _ = c.template_segments(tpl, s.params.parameters)
        if segs is None:
            ctx.branch('template:unmodelled-field')
            return
        depth = len(c.params_chain(s._params))
    except c.NotSendable:
        ctx.branch('not-sendable')
        return
    made = []
    try:
        with c.time_limit(10.0):
            n1 = s.save_to_file(tpl + ext)
            made.append(n1)
            mutate()
            in2 = c.sim_in(s)
            d2 = dict(s.params.parameters)
            n2 = s.save_to_file(tpl + ext)
            made.append(n2)
            l1, l2 = SR.load_from_file(n1), SR.load_from_file(n2)
            impl = 'ok name1=%s name2=%s loaded1=ok %s loaded2=ok %s' % (c.tok_str(n1), c.tok_str(n2), c.sim_state(l1), c.sim_state(l2))
    except c.NotSendable:
        ctx.branch('not-sendable')
        return
    except Exception as e:
        impl = c.exc_name(e)
        in2, d2 = in1, d1
    finally:
        for f in made:
            try:
                os.remove(f)
            except OSError:
                pass
    line = 'file2 %d L6 %s %s %s %s %s %s' % (depth + 1, in1, in2, c.tok_str(tpl), segs, c.tok_str(ext), float_table([d1, d2]))
    b.add(name, case, line, impl, key=key)


def corr_close(ctx, b, case):
    c = B()
    P, R, SR, S, misc = c._impl()
    specs = case['values']
    vals = [c.build(s) for s in specs]
    key = json.dumps(case, sort_keys=True)
    for s in specs:
        c.corr_value(ctx, b, s, variants=False)
    c.corr_value(ctx, b, ['list', specs], variants=False)
    c.corr_value(ctx, b, ['set', specs], variants=False)
    int4 = ['int', 4]
    for i, s in enumerate(specs):
        c.corr_params(ctx, b, {'params': [['x', s], ['M', int4]], 'unpack': [], 'child': None, 'via_add': False}, variants=False)
        c.corr_params(ctx, b, {'params': [['x', ['list', specs]], ['M', int4]], 'unpack': ['x'], 'child': i, 'via_add': False},
                      variants=False)
    # setter histories on one long-lived object: the model applies `set` itself
    hist = []
    for m, s in enumerate(specs[1:] + specs[:1]):
        hist.append([0, 'set' if m % 2 else 'add', 'x', s])
        c.corr_params_ops(ctx, b, {'params': [['x', specs[0]], ['M', int4]], 'unpack': [], 'child': None, 'via_add': False,
                                   'post_ops': list(hist)})
    # file names of every member, and two saves of one object around a setter call
    tpl = os.path.join(c._tmpdir(), 'r15c%08x_{x}_{M}' % zlib.crc32(key.encode()))
    segs = None
    for i, v in enumerate(vals):
        env = {'x': v, 'M': 4}
        segs, _ = c.template_segments(tpl, env)
        s = SR()
        s.set_parameters(P.create(env))
        b.add('get_filename_with_replaced_params', {'template': tpl, 'params': [['x', specs[i]], ['M', int4]]},
              'fname L4 %s %s %s %s' % (c.tok(env), c.tok_str(tpl), segs, float_table([env])),
              c.safe(lambda: 'ok ' + c.tok_str(s.get_filename_with_replaced_params(tpl))), key=('fname-close', key, i))
    for i in range(len(vals)):
        j = (i + 1) % len(vals)
        s = _sim_with(c, P, R, SR, vals[i])

        def mutate():
            if i % 2:
                s.params['x'] = vals[j]
            else:
                s.params.add('x', vals[j])
        corr_file2(ctx, b, s, mutate, tpl, ('.json', '.pickle', '')[i % 3], dict(case, step=i),
                   'save_to_file; setter(close value); save_to_file; load both', ('file2-close', key, i))
    ctx.branch('corr:R15:close-but-distinct-values')


# ------------------------------------------------------------------ R16 helpers
def refill(buf, new):
    """the caller's in-place refill of ONE preallocated object"""
    if isinstance(buf, np.ndarray):
        buf[...] = new
    elif isinstance(buf, list):
        buf[:] = new
    elif isinstance(buf, (set, dict)):
        buf.clear()
        buf.update(new)
    else:
        raise TypeError(type(buf).__name__)


def fresh_params(p):
    """a fresh object built from a COPY of the contents the object holds now (one level)"""
    P = B()._impl()[0]
    f = P()
    for n, v in p.parameters.items():
        f.add(n, copy.deepcopy(v))
    for n in p._unpacked_parameters_set:
        f.set_unpack_parameter(n)
    return f


class Kept:
    """results handed out earlier: none of them may change when the buffer is refilled later"""

    def __init__(self):
        self.items = []

    def add(self, what, obj, state_fn):
        self.items.append((what, obj, state_fn, state_fn(obj)))

    def changed(self):
        for what, obj, fn, st in self.items:
            if fn(obj) != st:
                return what
        return None


def _tokT(v):
    return B().tok(v, True)


# ------------------------------------------------------------------ R16 oracle
def o_refill(case):
    """case = {'kind': ..., 'fills': [...]}; see the kinds below"""
    c = B()
    base = os.path.join(c._tmpdir(), 'r16%08x' % zlib.crc32(json.dumps(case, sort_keys=True).encode()))
    try:
        return KINDS[case['kind']](case, c, base)
    finally:
        c._cleanup(base)


def _r16_encoder(case, c, base):
    """json.dumps(buffer, cls=NumpyOrSetEncoder): the same array / list / set object refilled between the calls,
    alone, inside containers and in two roles of one call"""
    S = c._impl()[3]
    fills = case['fills']
    buf = c.build(fills[0])
    kept = Kept()
    wraps = [('bare', lambda x: x), ('in-list', lambda x: [x, 1]), ('two-roles', lambda x: [x, x]),
             ('dict-two-roles', lambda x: {'a': x, 'b': [x]})]
    for k, f in enumerate(fills):
        refill(buf, c.build(f))
        for wn, wrap in wraps:
            text = json.dumps(wrap(buf), cls=S.NumpyOrSetEncoder)
            fresh = json.dumps(wrap(c.build(f)), cls=S.NumpyOrSetEncoder)
            if c.text_tree(text) != c.text_tree(fresh):
                return ('R16:encoder:%s:%s' % ('first-call' if k == 0 else 'stale-after-refill', wn),
                        'call %d on the refilled buffer gives %s, a fresh object with the same contents %s' % (k + 1, text[:150], fresh[:150]))
            w = json.loads(text, object_hook=S.json_numpy_or_set_obj_hook)
            if _tokT(w) != _tokT(json.loads(fresh, object_hook=S.json_numpy_or_set_obj_hook)):
                return 'R16:decoder:differs-from-fresh:' + wn, 'call %d' % (k + 1)
            kept.add('loaded value of call %d (%s)' % (k + 1, wn), w, _tokT)
    ch = kept.changed()
    if ch:
        return 'R16:encoder:earlier-result-changed-by-refill', ch
    note('oracle:R16:encoder-buffer-refilled')
    return None


def _plain_tree(S, v):
    """the decoded JSON object of a value WITHOUT the hook: what the hook is called with"""
    return json.loads(json.dumps(v, cls=S.NumpyOrSetEncoder))


def _r16_hook(case, c, base):
    """json_numpy_or_set_obj_hook(dct): one dict object refilled in place between calls, and handed over twice"""
    S = c._impl()[3]
    hook = S.json_numpy_or_set_obj_hook
    fills = case['fills']
    d = _plain_tree(S, c.build(fills[0]))
    if not isinstance(d, dict):
        return 'harness:R16:hook-needs-array-or-set', repr(fills[0])
    kept = Kept()
    for k, f in enumerate(fills):
        new = _plain_tree(S, c.build(f))
        if isinstance(d.get('data'), list) and k % 2:
            d['data'][:] = new['data']           # the nested list object itself is reused
            for kk in new:
                if kk != 'data':
                    d[kk] = new[kk]
        else:
            refill(d, new)
        before = json.dumps(d, sort_keys=True)
        a1 = hook(d)
        try:
            a2 = hook(d)                         # the same object a second time
        except Exception as e:
            return ('R16:hook:second-call-on-same-object-raises',
                    '%s: %s (the dict is now %s)' % (type(e).__name__, str(e)[:80], json.dumps(d, sort_keys=True)[:120]))
        if json.dumps(d, sort_keys=True) != before:
            return 'R16:hook:modifies-argument', 'the dict changed from %s to %s' % (before[:120], json.dumps(d, sort_keys=True)[:120])
        ref = hook(copy.deepcopy(new))
        if _tokT(a1) != _tokT(ref):
            return 'R16:hook:%s' % ('first-call' if k == 0 else 'stale-after-refill'), 'call %d gives %r, expected %r' % (k + 1, a1, ref)
        if _tokT(a2) != _tokT(ref):
            return 'R16:hook:second-call-on-same-object-differs', '%r then %r' % (a1, a2)
        d2 = c.deep_same(c.plain_deep(c.build(f)), a1)
        if d2:
            return 'R16:hook:value-changed', d2
        kept.add('value returned by call %d' % (k + 1), a1, _tokT)
        kept.add('value returned by the repeated call %d' % (k + 1), a2, _tokT)
    ch = kept.changed()
    if ch:
        return 'R16:hook:earlier-result-changed-by-refill', ch
    note('oracle:R16:hook-dict-refilled')
    return None


def _build_live_params(case, c):
    """one parameters object that holds the caller's buffers by reference (add / [] keep the object they are
    given); `alias` puts the same object under a second name"""
    P = c._impl()[0]
    first = case['fills'][0]
    bufs = {n: c.build(sp) for n, sp in first.items()}
    p = P()
    for i, (n, bobj) in enumerate(bufs.items()):
        if i % 2:
            p[n] = bobj
        else:
            p.add(n, bobj)
    for g, h in (case.get('alias') or {}).items():
        p.add(g, bufs[h])
    p.add('M', 4)
    for n in case.get('unpack', []):
        p.set_unpack_parameter(n)
    return p, bufs


def _r16_params(case, c, base):
    """SimulationParameters.to_json / to_dict / pickle / from_json / from_dict on one long-lived object"""
    P = c._impl()[0]
    p, bufs = _build_live_params(case, c)
    kept = Kept()
    prev = None
    for k, step in enumerate(case['fills']):
        for n, sp in step.items():
            refill(bufs[n], c.build(sp))
        now = c.params_state(p)
        if prev is not None and now != prev:
            note('oracle:R16:refill-visible-through-object')
        prev = now
        fresh = fresh_params(p)
        text, dct, pk = p.to_json(), p.to_dict(), pickle.dumps(p, protocol=2)
        tag = 'first-call' if k == 0 else 'stale-after-refill'
        if c.text_tree(text) != c.text_tree(fresh.to_json()):
            return 'R16:params:to_json:' + tag, 'call %d differs from a fresh object holding a copy of the contents' % (k + 1)
        if _tokT(dct) != _tokT(fresh.to_dict()):
            return 'R16:params:to_dict:' + tag, 'call %d' % (k + 1)
        q, qd, qp = P.from_json(text), P.from_dict(dct), pickle.loads(pk)
        for what, o in (('from_json', q), ('from_dict', qd), ('pickle', qp)):
            d = c.params_same(p, o)
            if d:
                return 'R16:params:%s:%s' % (what, tag), 'call %d: %s' % (k + 1, d)
            if c.eq_usable(p) and (o == p) is not True:
                return 'R16:params:%s:not-equal' % what, 'call %d' % (k + 1)
            kept.add('%s of call %d' % (what, k + 1), o, c.params_state)
        if c.params_state(p) != now:
            return 'R16:params:saving-modifies-object', 'call %d' % (k + 1)
        kept.add('to_dict() of call %d' % (k + 1), dct, _tokT)
        if case.get('unpack'):
            kids = p.get_unpacked_params_list()
            if kids:
                kid = kids[k % len(kids)]
                qk = P.from_json(kid.to_json())
                d = c.params_same(kid, qk)
                if d:
                    return 'R16:params:child:' + tag, d
                kept.add('own values of the child made at call %d' % (k + 1), kid, lambda o: _tokT(dict(o.parameters)))
                kept.add('own values of the loaded child of call %d' % (k + 1), qk, lambda o: _tokT(dict(o.parameters)))
    ch = kept.changed()
    if ch:
        return 'R16:params:earlier-result-changed-by-refill', ch
    note('oracle:R16:params-buffer-refilled')
    if case.get('alias'):
        note('oracle:R16:same-object-in-two-roles')
    return None


def _r16_result(case, c, base):
    """Result objects: a MISC result that holds the buffer; numeric results updated from ONE 0-d array object that
    is refilled between the calls (also as value and total of the same call)"""
    R = c._impl()[1]
    fills = case['fills']
    kept = Kept()
    rtype = case['type']
    if rtype == 2:
        buf = c.build(fills[0])
        r = R('m', R.MISCTYPE, accumulate_values=bool(case.get('acc')))
        for k, f in enumerate(fills):
            refill(buf, c.build(f))
            r.update(buf)
            fresh = copy.deepcopy(r)                       # equal contents, different objects
            text = r.to_json()
            tag = 'first-call' if k == 0 else 'stale-after-refill'
            if c.text_tree(text) != c.text_tree(fresh.to_json()):
                return 'R16:result:to_json:' + tag, 'call %d differs from a copy of the result' % (k + 1)
            for what, o in (('from_json', R.from_json(text)), ('from_dict', R.from_dict(r.to_dict())),
                            ('pickle', pickle.loads(pickle.dumps(r, protocol=2)))):
                d = c.result_same(r, o)
                if d:
                    return 'R16:result:%s:%s' % (what, tag), 'call %d: %s' % (k + 1, d)
                kept.add('%s of call %d' % (what, k + 1), o, c.result_state)
            kept.add('to_dict() of call %d' % (k + 1), r.to_dict(), _tokT)
        ch = kept.changed()
        if ch:
            return 'R16:result:earlier-result-changed-by-refill', ch
        note('oracle:R16:result-buffer-refilled')
        return None
    # numeric / choice results: the argument is ONE 0-d array refilled in place
    buf = np.array(c.build(fills[0]))
    if buf.ndim != 0:
        return 'harness:R16:needs-0d', repr(fills[0])
    two = bool(case.get('two_roles')) and rtype == 1
    kw = dict(choice_num=case['choice_num']) if rtype == 3 else {}
    r = R('r', rtype, accumulate_values=bool(case.get('acc')), **kw)
    fresh = R('r', rtype, accumulate_values=bool(case.get('acc')), **kw)
    for k, f in enumerate(fills):
        refill(buf, c.build(f))
        x = c.build(f)
        x = x.item() if isinstance(x, (np.generic, np.ndarray)) else x
        if rtype == 1:
            tot = buf if two else 7
            r.update(buf, tot)
            fresh.update(x, x if two else 7)
        else:
            r.update(buf)
            fresh.update(x)
        if c.result_state(r) != c.result_state(fresh):
            return ('R16:result:update-%s' % ('same-object-as-value-and-total' if two else 'refilled-0d-argument'),
                    'after call %d the result differs from a fresh result updated with the plain numbers' % (k + 1))
        q = R.from_json(r.to_json())
        d = c.result_same(r, q)
        if d:
            return 'R16:result:from_json', d
        kept.add('loaded result of call %d' % (k + 1), q, c.result_state)
    ch = kept.changed()
    if ch:
        return 'R16:result:earlier-result-changed-by-refill', ch
    note('oracle:R16:result-0d-argument-refilled')
    if two:
        note('oracle:R16:same-object-in-two-roles')
    return None


def _build_live_sim(case, c):
    """a long-lived SimulationResults: parameters hold the buffers H (also as G: the same object), a MISC result
    holds the buffer V, runned_reps is the list object rr which is also the parameter `reps` (two roles)"""
    P, R, SR = c._impl()[0], c._impl()[1], c._impl()[2]
    first = case['fills'][0]
    bufs = {n: c.build(sp) for n, sp in first.items()}
    p = P()
    p.add('H', bufs['H'])
    if case.get('alias'):
        p['G'] = bufs['H']
        p.add('reps', bufs['rr'])
    p.add('k', 0)
    p.add('M', 4)
    s = SR()
    s.set_parameters(p)
    misc_r = R('last', R.MISCTYPE, accumulate_values=bool(case.get('acc')))
    s.append_result(misc_r)
    ber = R.create('ber', R.RATIOTYPE, 3, 100)
    s.append_result(ber)
    if case.get('alias'):
        s.append_result(ber)                 # the same Result object twice under one name
    s.runned_reps = bufs['rr']
    return s, p, bufs, misc_r


def _r16_sim(case, c, base):
    """SimulationResults.to_json / to_dict / save_to_file / load_from_file on one long-lived object"""
    SR = c._impl()[2]
    s, p, bufs, misc_r = _build_live_sim(case, c)
    kept = Kept()
    files = {}
    tpl = base + ('_same' if case.get('same_name') else '_{k}')
    prev = None
    for k, step in enumerate(case['fills']):
        for n, sp in step.items():
            refill(bufs[n], c.build(sp))
        misc_r.update(bufs['V'])
        if not case.get('same_name'):
            p['k'] = k
        if not case.get('acc'):
            s.current_rep = k
        now = c.sim_state(s, fname=False)
        if prev is not None and now != prev:
            note('oracle:R16:refill-visible-through-object')
        prev = now
        fresh = copy.deepcopy(s)
        tag = 'first-call' if k == 0 else 'stale-after-refill'
        text = s.to_json()
        if c.text_tree(text) != c.text_tree(fresh.to_json()):
            return 'R16:sim:to_json:' + tag, 'call %d differs from a copy of the object' % (k + 1)
        if _tokT(s.to_dict()) != _tokT(fresh.to_dict()):
            return 'R16:sim:to_dict:' + tag, 'call %d' % (k + 1)
        for what, o in (('from_json', SR.from_json(text)), ('from_dict', SR.from_dict(s.to_dict()))):
            d = c.sim_same(s, o)
            if d:
                return 'R16:sim:%s:%s' % (what, tag), 'call %d: %s' % (k + 1, d)
            kept.add('%s of call %d' % (what, k + 1), o, c.sim_state)
        for ext in ('.json', '.pickle'):
            actual = s.save_to_file(tpl + ext)
            q = SR.load_from_file(actual)
            d = c.sim_same(s, q)
            if d:
                return 'R16:sim:file%s:%s' % (ext, tag), 'save %d: %s' % (k + 1, d)
            fa = fresh.save_to_file(tpl + '_fresh' + ext)
            qf = SR.load_from_file(fa)
            if c.sim_state(qf, fname=False) != c.sim_state(q, fname=False):
                return 'R16:sim:file%s:differs-from-fresh:%s' % (ext, tag), 'save %d' % (k + 1)
            kept.add('object loaded from the file of save %d (%s)' % (k + 1, ext), q, c.sim_state)
            files[actual] = c.sim_state(q)
        if c.sim_state(s, fname=False) != now:
            return 'R16:sim:saving-modifies-object', 'call %d' % (k + 1)
    ch = kept.changed()
    if ch:
        return 'R16:sim:earlier-result-changed-by-refill', ch
    for actual, st in files.items():
        if c.sim_state(SR.load_from_file(actual)) != st:
            return 'R16:sim:earlier-file-changed-by-later-save', os.path.basename(actual)
    if not case.get('same_name') and len(files) != 2 * len(case['fills']):
        return 'R16:sim:files-missing', '%d files for %d saves' % (len(files), 2 * len(case['fills']))
    note('oracle:R16:sim-buffer-refilled')
    if case.get('alias'):
        note('oracle:R16:same-object-in-two-roles')
    return None


def _r16_names(case, c, base):
    """replace_dict_values / get_filename_with_replaced_params: ONE dict object whose entry is replaced between the
    calls (the values are close to each other: R15 x R16)"""
    P, R, SR, S, misc = c._impl()
    vals = [c.build(sp) for sp in case['fills']]
    tpl = base + '_{x}_{M}' + case.get('ext', '.json')
    d = {'x': vals[0], 'M': 4, 'H': np.arange(3.0)}
    s = SR()
    s.set_parameters(P.create({'x': vals[0], 'M': 4}))
    inner = s.params.parameters                      # the dict the object itself works on
    names = []
    for k, v in enumerate(vals + vals[:1]):
        d['x'] = v
        inner['x'] = v
        exp = base + '_' + rendering(v) + '_4' + case.get('ext', '.json')
        tag = 'first-call' if k == 0 else 'stale-after-refill'
        for what, got in (('replace_dict_values', misc.replace_dict_values(tpl, d, True)),
                          ('replace_dict_values-keywords', misc.replace_dict_values(name=tpl, dictionary=d, filename_mode=True)),
                          ('get_filename_with_replaced_params', s.get_filename_with_replaced_params(tpl))):
            if got != exp:
                return ('R16:names:%s:%s' % (what, tag),
                        'call %d with x = %r gives %r, expected %r' % (k + 1, v, os.path.basename(got), os.path.basename(exp)))
        if d['x'] is not v or set(d) != {'x', 'M', 'H'}:
            return 'R16:names:modifies-argument', repr(d)
        names.append(exp)
    note('oracle:R16:names-dict-refilled')
    return None


def _mutate_tree(t):
    """change every mutable piece of a dict form in place (the caller reuses the dict for the next object)"""
    if isinstance(t, dict):
        for k in list(t):
            if isinstance(t[k], (dict, list, set, np.ndarray)):
                _mutate_tree(t[k])
            elif isinstance(t[k], bool) or t[k] is None or isinstance(t[k], str):
                pass
            elif isinstance(t[k], (int, float)) and k in ('runned_reps', 'current_rep'):
                t[k] = t[k] + 1
    elif isinstance(t, list):
        for x in t:
            _mutate_tree(x)
        if not t or not isinstance(t[0], dict):
            t.append(9)
    elif isinstance(t, set):
        t.add('refilled')
    elif isinstance(t, np.ndarray) and t.flags.writeable and t.size and t.dtype.kind in 'iuf':
        t += 1


def _r16_from_dict(case, c, base):
    """from_dict(d): the dict handed over is kept by the caller, changed in place and handed over again"""
    P, R, SR = c._impl()[0], c._impl()[1], c._impl()[2]
    what = case['what']
    if what == 'params':
        obj, cls, st, same = c.build_params(case['spec']), P, c.params_state, c.params_same
    elif what == 'result':
        obj, cls, st, same = c.build_result(case['spec']), R, c.result_state, c.result_same
    else:
        if c.unbuildable(case['spec']) is not None:
            return None
        obj, cls, st, same = c.build_sim(case['spec']), SR, c.sim_state, c.sim_same
    d = obj.to_dict()
    kept = Kept()
    for k in range(3):
        before = _tokT_any(d)
        ref = cls.from_dict(copy.deepcopy(d))
        q = cls.from_dict(d)
        if _tokT_any(d) != before:
            return 'R16:from_dict:modifies-argument:' + what, 'call %d' % (k + 1)
        if st(q) != st(ref):
            return 'R16:from_dict:%s:%s' % ('first-call' if k == 0 else 'stale-after-refill', what), 'call %d' % (k + 1)
        kept.add('object returned by call %d' % (k + 1), q, st)
        _mutate_tree(d)
        ch = kept.changed()
        if ch:
            return 'R16:from_dict:result-aliases-argument:' + what, ch + ' changed when the dict was changed afterwards'
        if what == 'result' and case['spec']['type'] == 3:
            break                                      # (a changed count vector is no longer a state the updates reach)
    note('oracle:R16:from_dict-argument-reused')
    return None


def _tokT_any(d):
    try:
        return _tokT(d)
    except Exception:
        return repr(d)


KINDS = {'encoder': _r16_encoder, 'hook': _r16_hook, 'params': _r16_params, 'result': _r16_result,
         'sim': _r16_sim, 'names': _r16_names, 'from_dict': _r16_from_dict}


# ------------------------------------------------------------ R16 correspondence
def corr_refill(ctx, b, case):
    """the model has no identity: a refill in place is the assignment of the new contents.  For every call of the
    history the model predicts, from the state BEFORE the refill and the new contents, what the real long-lived
    object writes and what is read back AFTER the real in-place refill"""
    c = B()
    P, R, SR, S, misc = c._impl()
    kind = case['kind']
    key = json.dumps(case, sort_keys=True)
    if kind == 'encoder':
        buf = c.build(case['fills'][0])
        for k, f in enumerate(case['fills']):
            refill(buf, c.build(f))
            try:
                line = c.tok(c.build(f), strict=True)
            except c.NotSendable:
                continue
            for wn, wrap, pre in (('bare', lambda x: x, ''), ('two-roles', lambda x: [x, x], 'L2 ')):
                ln = pre + line + ((' ' + line) if pre else '')
                b.add('NumpyOrSetEncoder(tree) on a refilled buffer', case, 'enc ' + ln,
                      c.safe(lambda: c.text_tree(json.dumps(wrap(buf), cls=S.NumpyOrSetEncoder))), key=('r16enc', key, k, wn))
                b.add('hook∘encoder on a refilled buffer', case, 'json ' + ln,
                      c.safe(lambda: 'ok ' + c.tok(json.loads(json.dumps(wrap(buf), cls=S.NumpyOrSetEncoder),
                                                              object_hook=S.json_numpy_or_set_obj_hook), True)),
                      prefix='wf=1', key=('r16json', key, k, wn))
        ctx.branch('corr:R16:encoder-buffer-refilled')
    elif kind == 'params':
        p, bufs = _build_live_params(case, c)
        alias = case.get('alias') or {}
        for k, step in enumerate(case['fills']):
            try:
                before = c.params_in(p)
                ops = []
                for n, sp in step.items():
                    for name in [n] + [g for g, h in alias.items() if h == n]:
                        ops.append([0, 'set', name, c.strip_layout(sp) if isinstance(bufs[n], np.ndarray) else sp])
                line = 'paramsops 2 L2 %s %s' % (before, c.post_ops_tokens(ops))
            except c.NotSendable:
                ctx.branch('not-sendable')
                return
            for n, sp in step.items():
                refill(bufs[n], c.build(sp))
            b.add('in-place refill of a parameter buffer; from_json∘to_json', case, line,
                  c.safe(lambda: 'wf=1 tree=%s loaded=ok %s' % (c.text_tree(p.to_json()), c.params_state(P.from_json(p.to_json())))),
                  key=('r16params', key, k))
        ctx.branch('corr:R16:params-buffer-refilled')
        if alias:
            ctx.branch('corr:R16:same-object-in-two-roles')
    elif kind == 'result':
        if case['type'] != 2:
            return
        buf = c.build(case['fills'][0])
        r = R('m', R.MISCTYPE, accumulate_values=bool(case.get('acc')))
        for k, f in enumerate(case['fills']):
            refill(buf, c.build(f))
            r.update(buf)
            try:
                line = c.result_in(r)
            except c.NotSendable:
                return
            b.add('Result.to_json(tree) holding a refilled buffer', case, 'resultenc ' + line,
                  c.safe(lambda: c.text_tree(r.to_json())), key=('r16renc', key, k))
            b.add('Result.from_json∘to_json holding a refilled buffer', case, 'result ' + line,
                  c.safe(lambda: 'ok ' + c.result_state(R.from_json(r.to_json()))), prefix='good=1', key=('r16result', key, k))
        ctx.branch('corr:R16:result-buffer-refilled')
    elif kind == 'sim':
        s, p, bufs, misc_r = _build_live_sim(case, c)
        tpl = os.path.join(c._tmpdir(), 'r16c%08x' % zlib.crc32(key.encode()) + ('_same' if case.get('same_name') else '_{k}'))
        step_no = [0]

        def advance():
            k = step_no[0]
            for n, sp in case['fills'][k].items():
                refill(bufs[n], c.build(sp))
            misc_r.update(bufs['V'])
            if not case.get('same_name'):
                p['k'] = k
            if not case.get('acc'):
                s.current_rep = k
            step_no[0] += 1
        advance()
        for k in range(1, len(case['fills'])):
            try:
                line = c.sim_in(s)
            except c.NotSendable:
                return
            b.add('SimulationResults.to_json(tree) holding refilled buffers', case, 'simenc ' + line,
                  c.safe(lambda: c.text_tree(s.to_json())), key=('r16senc', key, k))
            b.add('SimulationResults.from_json∘to_json holding refilled buffers', case, 'sim 2 ' + line,
                  c.safe(lambda: 'ok ' + c.sim_state(SR.from_json(s.to_json()))), prefix='wf=1', key=('r16sim', key, k))
            corr_file2(ctx, b, s, advance, tpl, ('.json', '.pickle')[k % 2], case,
                       'save_to_file; in-place refill; save_to_file; load both', ('r16file2', key, k))
        ctx.branch('corr:R16:sim-buffer-refilled')
    elif kind == 'names':
        vals = [c.build(sp) for sp in case['fills']]
        tpl = os.path.join(c._tmpdir(), 'r16n_{x}_{M}' + case.get('ext', '.json'))
        s = SR()
        s.set_parameters(P.create({'x': vals[0], 'M': 4}))
        inner = s.params.parameters
        for k, v in enumerate(vals + vals[:1]):
            inner['x'] = v
            env = {'x': v, 'M': 4}
            segs, _ = c.template_segments(tpl, env)
            b.add('get_filename_with_replaced_params after the parameter dict was changed in place', case,
                  'fname L4 %s %s %s %s' % (c.tok(env), c.tok_str(tpl), segs, float_table([env])),
                  c.safe(lambda: 'ok ' + c.tok_str(s.get_filename_with_replaced_params(tpl))), key=('r16fname', key, k))
        ctx.branch('corr:R16:names-dict-refilled')


# --------------------------------------------------------------- R16 generators
def _arr(dt, shape, flat, layout=None):
    c = B()
    if dt in c.FLOAT_DTYPES:
        flat = [c.fhex(x) for x in flat]
    sp = ['array', dt, list(shape), list(flat)]
    return sp + [layout] if layout else sp


def refill_scenarios():
    """small deterministic set (quick tier): every kind, every container, 2-4 calls"""
    f64 = [_arr('float64', [3], [1.0, 2.5, -3.0]), _arr('float64', [3], [4e-12, 4e-13, 0.0]),
           _arr('float64', [3], [4e-12, 4e-13, 5e-324]), _arr('float64', [3], [0.3, 0.30000000000000004, 2.4e9])]
    i16 = [_arr('int16', [2, 2], [1, 2, 3, 4], 'F'), _arr('int16', [2, 2], [4, 3, 2, 1]), _arr('int16', [2, 2], [4, 3, 2, 0])]
    f32 = [_arr('float32', [2], [0.5, 1.5]), _arr('float32', [2], [0.25, 1.5])]
    zero_d = [_arr('float64', [], [2.5]), _arr('float64', [], [0.5]), _arr('float64', [], [0.5000000000000001])]
    i0 = [_arr('int64', [], [3]), _arr('int64', [], [300]), _arr('int64', [], [3])]
    idx = [_arr('int16', [], [1]), _arr('int16', [], [0]), _arr('int16', [], [2]), _arr('int16', [], [1])]
    lists = [['list', [['int', 1], ['float', B().fhex(0.5)]]], ['list', [['int', 2], ['str', 'a'], ['none']]], ['list', []],
             ['list', [['int', 2]]]]
    sets = [['set', [['int', 1], ['int', 2]]], ['set', [['int', 2], ['str', 'a']]], ['set', []]]
    rr = [['list', [['int', 5]]], ['list', [['int', 10]]], ['list', [['int', 10], ['int', 0]]], ['list', [['int', 11], ['int', 1]]]]
    out = []
    for fills in (f64, i16, f32, zero_d, lists, sets):
        out.append({'kind': 'encoder', 'fills': fills})
    for fills in (f64, i16, sets, zero_d):
        out.append({'kind': 'hook', 'fills': fills})
    out.append({'kind': 'params', 'fills': [{'H': a} for a in f64], 'alias': {'G': 'H'}, 'unpack': ['H']})
    out.append({'kind': 'params', 'fills': [{'H': a, 'L': l} for a, l in zip(i16, lists)], 'alias': {'L2': 'L'}, 'unpack': []})
    out.append({'kind': 'params', 'fills': [{'S': s_, 'z': z} for s_, z in zip(sets, zero_d)], 'unpack': ['S']})
    out.append({'kind': 'params', 'fills': [{'H': a} for a in f32], 'unpack': []})
    for acc in (False, True):
        out.append({'kind': 'result', 'type': 2, 'acc': acc, 'fills': f64})
        out.append({'kind': 'result', 'type': 2, 'acc': acc, 'fills': lists[:3]})
        out.append({'kind': 'result', 'type': 0, 'acc': acc, 'fills': zero_d})
        out.append({'kind': 'result', 'type': 1, 'acc': acc, 'fills': i0, 'two_roles': True})
        out.append({'kind': 'result', 'type': 1, 'acc': acc, 'fills': zero_d, 'two_roles': False})
        out.append({'kind': 'result', 'type': 3, 'acc': acc, 'choice_num': 3, 'fills': idx})
    for alias in (False, True):
        for same in (False, True):
            out.append({'kind': 'sim', 'alias': alias, 'same_name': same, 'acc': alias != same,
                        'fills': [{'H': a, 'V': v, 'rr': r} for a, v, r in zip(f64, i16 + i16[:1], rr)][:(3 if same else 4)]})
    fam = close_families()
    for i in (0, 2, 3, 10, 14, 16):
        out.append({'kind': 'names', 'fills': fam[i]['values'][:4], 'ext': ('.json', '.pickle', '')[i % 3]})
    c = B()
    out.append({'kind': 'from_dict', 'what': 'params', 'spec': c.corpus_params()[9]})
    out.append({'kind': 'from_dict', 'what': 'params', 'spec': c.corpus_params()[5]})
    for rs in c.corpus_results()[8:]:
        out.append({'kind': 'from_dict', 'what': 'result', 'spec': rs})
    out.append({'kind': 'from_dict', 'what': 'sim', 'spec': c.boundary_sims()[0]})
    out.append({'kind': 'from_dict', 'what': 'sim', 'spec': {
        'params': c.corpus_params()[12], 'results': [[c.corpus_results()[8]], [c.corpus_results()[13], c.corpus_results()[13]]],
        'runned_reps': ['list', [['int', 3], ['int', 4]]], 'current_rep': 2, 'template': None, 'prev_filename': None}})
    return out


def _rand_fill(rng, dt, shape):
    c = B()
    size = 1
    for n in shape:
        size *= n
    flat = []
    for _ in range(size):
        if dt == 'bool':
            flat.append(rng.chance(0.5))
        elif dt in c.FLOAT_DTYPES:
            flat.append(c.gen_npfloat(rng, dt)[2])
        else:
            flat.append(c.gen_npint(rng, dt)[2])
    return ['array', dt, list(shape), flat]


def _near(rng, spec):
    """the same array with ONE element moved to a neighbour (adjacent value / +1): R15 inside R16"""
    c = B()
    dt, shape, flat = spec[1], spec[2], list(spec[3])
    if not flat:
        return spec
    i = rng.below(len(flat))
    if dt in c.FLOAT_DTYPES:
        x = float.fromhex(flat[i])
        y = nxt_np(dt, x) if x == x and abs(x) != float('inf') else 0.0
        if abs(y) == float('inf'):
            y = nxt_np(dt, x, False)
        flat[i] = c.fhex(y)
    elif dt == 'bool':
        flat[i] = not flat[i]
    else:
        info = np.iinfo(dt)
        flat[i] = flat[i] + 1 if flat[i] < int(info.max) else flat[i] - 1
    return ['array', dt, shape, flat]


def gen_refill(rng):
    """random histories of 2-4 calls (thorough tier, and a few per quick run)"""
    c = B()
    dt = rng.choice(c.INT_DTYPES + c.FLOAT_DTYPES + ['bool', 'float64', 'float64'])
    shape = rng.choice([[3], [1], [2, 2], [2, 3], [4], [1, 3], [2, 1, 2]])
    k = rng.randint(2, 4)
    fills = [_rand_fill(rng, dt, shape)]
    while len(fills) < k:
        nf = _near(rng, fills[-1]) if rng.chance(0.4) else _rand_fill(rng, dt, shape)
        if nf[3] != fills[-1][3]:
            fills.append(nf)
    lay = rng.choice([None, None, 'F', 'T'])
    if lay and len(shape) >= 2:
        fills[0] = fills[0] + [lay]
    kind = rng.choice(['encoder', 'hook', 'params', 'params', 'result', 'sim', 'sim'])
    if kind in ('encoder', 'hook'):
        return {'kind': kind, 'fills': fills}
    if kind == 'params':
        case = {'kind': 'params', 'fills': [{'H': a} for a in fills], 'unpack': ['H'] if rng.chance(0.5) else []}
        if rng.chance(0.5):
            case['alias'] = {'G': 'H'}
        if rng.chance(0.5):
            lists = [['list', [c.gen_value(rng, 1, allow_array=False) for _ in range(rng.randint(0, 3))]] for _ in fills]
            for st, l in zip(case['fills'], lists):
                st['L'] = l
        return case
    if kind == 'result':
        return {'kind': 'result', 'type': 2, 'acc': rng.chance(0.5), 'fills': fills}
    rr = [['list', [['int', rng.randint(0, 50)] for _ in range(rng.randint(1, 3))]] for _ in fills]
    vdt = rng.choice(['int32', 'float64', 'uint8'])
    vs = [_rand_fill(rng, vdt, [2]) for _ in fills]
    return {'kind': 'sim', 'alias': rng.chance(0.5), 'same_name': rng.chance(0.4), 'acc': rng.chance(0.5),
            'fills': [{'H': a, 'V': v, 'rr': r} for a, v, r in zip(fills, vs, rr)]}


ORACLES = {'close-but-distinct-values': o_close, 'argument-identity-and-buffer-reuse': o_refill}

REQUIRED = ['oracle:R15:close-but-distinct-values', 'corr:R15:close-but-distinct-values',
            'oracle:R16:encoder-buffer-refilled', 'oracle:R16:hook-dict-refilled', 'oracle:R16:params-buffer-refilled',
            'oracle:R16:result-buffer-refilled', 'oracle:R16:result-0d-argument-refilled', 'oracle:R16:sim-buffer-refilled',
            'oracle:R16:names-dict-refilled', 'oracle:R16:from_dict-argument-reused', 'oracle:R16:same-object-in-two-roles',
            'oracle:R16:refill-visible-through-object',
            'corr:R16:encoder-buffer-refilled', 'corr:R16:params-buffer-refilled', 'corr:R16:result-buffer-refilled',
            'corr:R16:sim-buffer-refilled', 'corr:R16:names-dict-refilled', 'corr:R16:same-object-in-two-roles']


def cases(ctx):
    """the R15 families and R16 histories of this run (the same lists for the correspondence and the oracles)"""
    from harness import core
    thorough = ctx.tier == 'thorough'
    rng = core.Rng(ctx.seed, 'C17/r15r16')
    fams = close_families() + [gen_close_family(rng) for _ in range(400 if thorough else 12)]
    scen = refill_scenarios() + [gen_refill(rng) for _ in range(600 if thorough else 16)]
    return [f for f in fams if len(f['values']) >= 2], scen


def corr_pass(ctx, b):
    c = B()
    fams, scen = cases(ctx)
    for case in fams:
        c.guarded(ctx, 'close-but-distinct-values', lambda x: x, corr_close, b, case)
        if len(b.lines) > 1500:
            b.flush()
    b.flush()
    for case in scen:
        c.guarded(ctx, 'argument-identity-and-buffer-reuse', lambda x: x, corr_refill, b, case)
        if len(b.lines) > 1500:
            b.flush()
    b.flush()


def oracle_pass(ctx):
    c = B()
    fams, scen = cases(ctx)
    for case in fams:
        if c.run_oracle(ctx, 'close-but-distinct-values', case) is None:
            ctx.branch('oracle:R15:close-but-distinct-values')
    for case in scen:
        c.run_oracle(ctx, 'argument-identity-and-buffer-reuse', case)
        flush_notes(ctx)


def search_pass(ctx, n):
    """deeper failing-input search (used when a proof / correspondence broke)"""
    c = B()
    rng = ctx.rng.fork('r15r16-search')
    for _ in range(n):
        case = gen_close_family(rng)
        if len(case['values']) >= 2:
            c.run_oracle(ctx, 'close-but-distinct-values', case)
        c.run_oracle(ctx, 'argument-identity-and-buffer-reuse', gen_refill(rng))
    flush_notes(ctx)
