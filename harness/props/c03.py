"""C03 — TDL channel output is the convolution with the impulse response it reports
(DESIGN.md §5 C03).

Ties to the source
  (a) regeneration: Generated/Slice.lean is re-emitted from
      TdlChannel.corrupt_data_in_freq_domain (block-size expressions for
      None / slice / index array, samples generated and skipped per block); the
      slice / schedule theorems are stated about those definitions.
  (b) exact correspondence: the real TdlChannel / SuChannel / MuChannel /
      MuMimoChannel objects are driven with *scripted* fading generators (the
      draw of the Rayleigh generator resp. the Jakes waveform is replaced by a
      Gaussian-integer function of (link, absolute sample position, tap, rx,
      tx); all position bookkeeping - generate / skip / similar generators -
      stays the real code), perfect-square tap powers, path losses with exact
      square roots, Gaussian-integer signals and - for the frequency domain -
      np.fft.fft replaced by an exact integer-twiddle kernel of the same shape.
      Every value is then exact in binary64 and compared as a rational with the
      compiled Lean model at Gaussian rationals.
  (c) first-principles oracles on the untouched real code (real Jakes and
      Rayleigh generators, real FFT, real dB profiles).
"""
import math
from fractions import Fraction

import numpy as np

from harness import core

MODULE = 'PyPhysim.Properties.C03'
DRIVER = 'drv_c03'
CLAIM = {
    'technique': 'Lean 4 theorems over an arbitrary commutative semiring / Q / Int about a hand model '
                 '+ block-size and fading-schedule expressions regenerated from the source '
                 '+ exact (rational) differential correspondence on scripted Gaussian-integer fading',
    'text': 'Proved for every channel state (hence after any history), tap profile, antenna set-up, direction, '
            'path loss, fading process and input: the modelled corrupt_data output equals the time-varying '
            'convolution with the impulse response reported afterwards, has n + last-delay entries per row and is '
            'linear in the input (SISO, MIMO, switched); SuChannel scales output and reported response by the same '
            'factor; MuChannel/MuMimoChannel outputs are the entrywise sums over the links in both directions; the '
            'frequency-domain output is the per-block product with the FFT kernel of the same reported response for '
            'None / index-array / slice selections, where the block size regenerated from the source is proved equal '
            'to the number of selected carriers for every slice (Python slice.indices / range semantics) and block b '
            'uses the fading sample at position pos + b*stride; discretisation gives strictly increasing integer '
            'delays (round-half-even), merged powers and power sum 1 (over Q). The model is tied to the code by exact '
            'comparison of whole operation histories on the real TdlChannel / SuChannel / MuChannel / MuMimoChannel '
            'objects and by first-principles oracles on the untouched code.',
    'note': 'Trusted-base additions: the hand model (tied by correspondence only); harness/gen/c03.py (tiny integer '
            'expression fragment incl. len(range(*indexes)) -> pyRangeLen); Python slice/range/numpy-indexing '
            'semantics of Model/C03Py (compared exhaustively with CPython/numpy for all slices on axes <= 16 in the '
            'thorough tier). Parameters, not modelled code: the fading waveform/draw (theorems hold for every '
            'process; the harness replaces it by a scripted Gaussian-integer function of link/position/tap/antennas '
            'while all position bookkeeping stays the real code), sqrt of tap power and of path loss, np.fft.fft '
            '(theorems hold for every kernel; the path-loss clause in the frequency domain assumes the kernel is '
            'homogeneous, checked numerically together with shape and DFT values), the dB round trip of tap powers '
            '(compared at 1e-12). Partial: the multiuser frequency-domain clause is instantiated for SISO links '
            '(MIMO links follow from mu_superposition + freq_mimo_spec but are not spelled out); a Python exception '
            'ends the modelled history; n = 0 transmissions, fft_size = 0, boolean / 2-D index arrays and unsorted '
            'hand-made profiles are outside model and correspondence; binary64 rounding is outside every theorem.',
}

SEEDMOD = 1 << 20


# --------------------------------------------------------------------------- scripted process
def proc_vals(seed, link, pos, i, r, t):
    """Gaussian integer of the scripted fading process (vectorised over numpy int64 arrays)."""
    z = seed + 7919 * link + 104729 * pos + 1299709 * i + 15485863 * r + 32452843 * t
    re = ((z * 48271) // 128) % 13 - 6
    im = ((z * 69621) // 8) % 11 - 5
    return re + 1j * im


class Script:
    def __init__(self, seed, first_link=0):
        self.seed = seed
        self.next_link = first_link

    def new_link(self):
        l = self.next_link
        self.next_link += 1
        return l

    def values(self, link, positions, shape):
        """array of shape `shape + (len(positions),)`; shape = (taps,) or (taps, nr, nt) or None"""
        positions = np.asarray(positions, dtype=np.int64)
        if shape is None or len(shape) == 0:
            return proc_vals(self.seed, link, positions, 0, 0, 0)
        if len(shape) == 1:
            i = np.arange(shape[0], dtype=np.int64)[:, None]
            return proc_vals(self.seed, link, positions[None, :], i, 0, 0)
        if len(shape) == 3:
            i = np.arange(shape[0], dtype=np.int64)[:, None, None, None]
            r = np.arange(shape[1], dtype=np.int64)[None, :, None, None]
            t = np.arange(shape[2], dtype=np.int64)[None, None, :, None]
            return proc_vals(self.seed, link, positions[None, None, None, :], i, r, t)
        # shapes used only before a TdlChannel installs its own (constructor draw)
        return np.zeros(tuple(shape) + (positions.size,), dtype=complex)


def _generators():
    from pyphysim.channels import fading_generators as fg

    class ScriptedRayleigh(fg.RayleighSampleGenerator):
        """RayleighSampleGenerator whose *draw* is scripted: sample number `pos` of the
        stream is proc(link, pos, ...); skip_samples_for_next_generation and the
        shape handling are the real code."""

        def __init__(self, script, shape=None, link=None):
            self._script = script
            self._link = script.new_link() if link is None else link
            self._pos = 0
            super().__init__(shape)

        def generate_more_samples(self, num_samples=None):
            n = 1 if num_samples is None else int(num_samples)
            v = self._script.values(self._link, np.arange(self._pos, self._pos + n), self.shape)
            self._pos += n
            self._samples = v[..., 0] if num_samples is None else v

        def get_similar_fading_generator(self):
            return ScriptedRayleigh(self._script, self._shape)

    class ScriptedJakes(fg.JakesSampleGenerator):
        """JakesSampleGenerator whose waveform h(t) is scripted as a function of the
        absolute sample index round(t / Ts); the time bookkeeping
        (_generate_time_samples, skip_samples_for_next_generation, _current_time)
        is the real code."""

        def __init__(self, script, Ts, shape=None, link=None):
            self._script = script
            self._link = script.new_link() if link is None else link
            super().__init__(Fd=5.0, Ts=Ts, L=4, shape=shape)

        def generate_more_samples(self, num_samples=None):
            t = self._generate_time_samples(num_samples)
            pos = np.rint(np.asarray(t).reshape(-1) / self.Ts).astype(np.int64)
            self._samples = self._script.values(self._link, pos, self.shape)

        def get_similar_fading_generator(self):
            return ScriptedJakes(self._script, self._Ts, self._shape)

    return ScriptedRayleigh, ScriptedJakes


def scripted_fft(a, n=None, axis=-1):
    """exact integer-twiddle stand-in for np.fft.fft (same cropping / padding, same shape)"""
    a = np.moveaxis(np.asarray(a), axis, 0)
    N = a.shape[0] if n is None else int(n)
    if N < 1:
        raise ValueError('Invalid number of FFT data points (%d) specified.' % N)
    m = min(a.shape[0], N)
    k = np.arange(N, dtype=np.int64)[:, None]
    d = np.arange(m, dtype=np.int64)[None, :]
    tw = ((k * d) % N + 1) + 1j * ((k + 2 * d) % 3 - 1)
    out = np.tensordot(tw.astype(complex), a[:m].astype(complex), axes=(1, 0))
    return np.moveaxis(out, 0, axis)


class patched_fft:
    def __enter__(self):
        self.orig = np.fft.fft
        np.fft.fft = scripted_fft

    def __exit__(self, *a):
        np.fft.fft = self.orig


# --------------------------------------------------------------------------- canonical forms
def q2s(x):
    f = Fraction(float(x))
    return str(f.numerator) if f.denominator == 1 else '%d/%d' % (f.numerator, f.denominator)


def g2s(z):
    z = complex(z)
    return q2s(z.real) if z.imag == 0 else q2s(z.real) + '_' + q2s(z.imag)


def row2s(v):
    return ','.join(g2s(z) for z in np.asarray(v).reshape(-1))


def sig2s(y):
    y = np.asarray(y)
    if y.ndim == 1:
        return row2s(y)
    return ';'.join(row2s(r) for r in y)


def xs2s(x):
    """model signal (list of rows of [re, im]) -> protocol string"""
    return ';'.join(','.join(('%d' % e[0]) if e[1] == 0 else '%d_%d' % (e[0], e[1]) for e in row) for row in x)


def x2np(x):
    return np.array([[complex(e[0], e[1]) for e in row] for row in x], dtype=complex).reshape(len(x), -1)


def ir2s(ir, mimo):
    sp = np.asarray(ir.tap_values_sparse)
    de = np.asarray(ir.tap_values)
    n = sp.shape[-1]

    def cell(a):
        if not mimo:
            return row2s(a)
        return ';'.join('/'.join(row2s(a[r, t]) for t in range(a.shape[1])) for r in range(a.shape[0]))
    return 'ir:n=%d:d=%s:v=%s:D=%s' % (
        n, ','.join(str(int(d)) for d in ir.tap_indexes_sparse),
        '|'.join(cell(sp[i]) for i in range(sp.shape[0])),
        '|'.join(cell(de[j]) for j in range(de.shape[0])))


def sel2s(sel):
    if sel['kind'] == 'all':
        return 'all'
    if sel['kind'] == 'idx':
        return 'i=' + ','.join(str(i) for i in sel['idx'])
    return 's=' + '.'.join('N' if v is None else str(v) for v in sel['slice'])


def sel2py(sel):
    if sel['kind'] == 'all':
        return None
    if sel['kind'] == 'idx':
        return np.array(sel['idx'], dtype=int) if sel.get('as_array', True) else list(sel['idx'])
    return slice(*sel['slice'])


def err2s(e):
    return 'error:' + type(e).__name__


# --------------------------------------------------------------------------- scenario -> line / impl
def case_line(case):
    ant = '0' if case['ant'] is None else '%dx%d' % tuple(case['ant'])
    head = '%s seed=%d jakes=%d ant=%s delays=%s amps=%s' % (
        'mu' if case['level'] == 'mu' else 'su', case['seed'], 1 if case['jakes'] else 0, ant,
        ','.join(str(d) for d in case['delays']), ','.join(case['amps']))
    if case['level'] == 'mu':
        head += ' nrx=%d ntx=%d' % (case['nrx'], case['ntx'])
    else:
        head += ' link=%d' % case['link']
    toks = []
    for op in case['ops']:
        k = op['op']
        if k == 'ir':
            toks.append('ir')
        elif k == 'sw':
            toks.append('sw:%d' % (1 if op['v'] else 0))
        elif k == 'pl':
            if case['level'] == 'mu':
                toks.append('pl:' + ';'.join(','.join(r) for r in op['s']))
            else:
                toks.append('pl:' + ('none' if op['s'] is None else op['s']))
        elif k == 'tx':
            toks.append('tx:' + ('|'.join(xs2s(x) for x in op['x']) if case['level'] == 'mu' else xs2s(op['x'])))
        elif k == 'fx':
            xs = '|'.join(xs2s(x) for x in op['x']) if case['level'] == 'mu' else xs2s(op['x'])
            toks.append('fx:%d:%s:%s' % (op['fft'], sel2s(op['sel']), xs))
    return head + ' ' + ' '.join(toks)


def build_profile(case):
    """discretised profile with exact (perfect-square) linear powers"""
    from pyphysim.channels import fading
    Ts = case['Ts']
    delays = np.array(case['delays'], dtype=float) * Ts
    prof = fading.TdlChannelProfile(np.zeros(len(case['delays'])), delays).get_discretize_profile(Ts)
    amps = np.array([float(Fraction(a)) for a in case['amps']])
    assert list(prof.tap_delays) == list(case['delays']), (prof.tap_delays, case['delays'])
    p = amps ** 2
    p.flags['WRITEABLE'] = False
    prof._tap_powers_linear = p
    return prof


def build_channel(case):
    from pyphysim.channels import fading, singleuser, multiuser
    ScriptedRayleigh, ScriptedJakes = _generators()
    prof = build_profile(case)
    Ts = case['Ts']
    ant = case['ant']
    if case['level'] == 'mu':
        script = Script(case['seed'], first_link=-1)       # the prototype generator takes link -1
        gen = ScriptedJakes(script, Ts) if case['jakes'] else ScriptedRayleigh(script)
        N = (case['nrx'], case['ntx'])
        if case['nrx'] == case['ntx'] and case.get('n_as_int'):
            N = case['nrx']
        if ant is None:
            return multiuser.MuChannel(N, gen, channel_profile=prof, Ts=Ts if not case['jakes'] else None)
        return multiuser.MuMimoChannel(N, ant[0], ant[1], gen, channel_profile=prof)
    script = Script(case['seed'], first_link=case['link'])
    shape = None if (ant is None or case.get('late_ant')) else tuple(ant)
    gen = ScriptedJakes(script, Ts, shape=shape) if case['jakes'] else ScriptedRayleigh(script, shape=shape)
    if case['level'] == 'tdl':
        ch = fading.TdlChannel(gen, channel_profile=prof)
    else:
        ch = singleuser.SuChannel(gen, channel_profile=prof)
    if ant is not None and case.get('late_ant'):
        ch.set_num_antennas(ant[0], ant[1])
    return ch


def np_signal(case, op, x):
    a = x2np(x)
    if op.get('as1d') and a.shape[0] == 1:
        a = a[0]
    if op.get('real') and not np.iscomplexobj(a):
        pass
    if op.get('real'):
        a = a.real.copy()
    return a


def run_impl(case):
    """drive the real objects; returns the reply tokens in the driver's format"""
    ch = build_channel(case)
    mimo = case['ant'] is not None
    out = []
    for op in case['ops']:
        k = op['op']
        try:
            if k == 'ir':
                if case['level'] == 'mu':
                    out.append(' & '.join(ir2s(ch.get_last_impulse_response(r, t), mimo)
                                          for r in range(case['nrx']) for t in range(case['ntx'])))
                else:
                    out.append(ir2s(ch.get_last_impulse_response(), mimo))
            elif k == 'sw':
                ch.switched_direction = bool(op['v'])
                out.append('ok')
            elif k == 'pl':
                if case['level'] == 'mu':
                    ch.set_pathloss(np.array([[float(Fraction(v)) ** 2 for v in r] for r in op['s']]))
                else:
                    ch.set_pathloss(None if op['s'] is None else float(Fraction(op['s'])) ** 2)
                out.append('ok')
            elif k in ('tx', 'fx'):
                if case['level'] == 'mu':
                    sigs = [np_signal(case, op, x) for x in op['x']]
                    sig = np.array(sigs)
                    if not mimo:
                        sig = sig.reshape(len(sigs), -1)
                        if op.get('as1d') and sig.shape[0] == 1:
                            sig = sig[0]
                else:
                    sig = np_signal(case, op, op['x'])
                    if not mimo:
                        sig = sig.reshape(-1)
                if k == 'tx':
                    y = ch.corrupt_data(sig)
                else:
                    with patched_fft():
                        y = ch.corrupt_data_in_freq_domain(sig, op['fft'], sel2py(op['sel']))
                if case['level'] == 'mu':
                    out.append('y=' + '|'.join(sig2s(v) for v in y))
                else:
                    out.append('y=' + sig2s(y))
        except (ValueError, IndexError, ZeroDivisionError, RuntimeError, AssertionError, TypeError) as e:
            out.append(err2s(e))
            break
    return out


# --------------------------------------------------------------------------- generators of cases
AMPS = ['1', '2', '3', '1/2', '3/2', '1/4', '1', '1']
PLS = ['1', '1/2', '1/4', '3/4', '1/8']
TS_CHOICES = [1.0, 0.5, 0.25, 1e-3, 3.25e-8]


def gen_signal(rng, rows, n, lim=4, real=False):
    return [[[rng.randint(-lim, lim), 0 if real else rng.randint(-lim, lim)] for _ in range(n)] for _ in range(rows)]


def gen_sel(rng, fft):
    """returns (sel, true block size or None when the selection itself is an error)"""
    k = rng.below(10)
    if k < 2:
        return {'kind': 'all'}, fft
    if k < 5:
        ln = rng.randint(0 if rng.chance(0.05) else 1, min(fft + 2, 9))
        lo = -fft if rng.chance(0.4) else 0
        idx = [rng.randint(lo, fft - 1) for _ in range(ln)]
        bad = False
        if rng.chance(0.06) and ln:
            idx[rng.below(ln)] = rng.choice([fft, fft + 1, -fft - 1])
            bad = True
        return {'kind': 'idx', 'idx': idx, 'as_array': rng.chance(0.6)}, (None if bad else ln)
    lim = fft + 3

    def ov():
        return None if rng.chance(0.3) else rng.randint(-lim, lim)
    step = None if rng.chance(0.25) else rng.choice([1, 1, 2, 2, 3, 3, 4, 5, 7, -1, -1, -2, -3, -4])
    if rng.chance(0.02):
        step = 0
    sl = [ov(), ov(), step]
    if step == 0:
        return {'kind': 'slice', 'slice': sl}, None
    for _ in range(6):       # mostly non-empty selections (an empty one is just a ZeroDivisionError)
        if len(range(*slice(*sl).indices(fft))) > 0 or rng.chance(0.1):
            break
        sl = [ov(), ov(), step]
    return {'kind': 'slice', 'slice': sl}, len(range(*slice(*sl).indices(fft)))


def gen_delays(rng, maxd):
    k = rng.randint(1, 4)
    ds = sorted({rng.randint(0, maxd) for _ in range(k)})
    if rng.chance(0.6) and 0 not in ds:
        ds = [0] + ds
    return ds


def gen_ops(rng, case, nops, quick=True):
    ops = []
    mu = case['level'] == 'mu'
    ant = case['ant']
    sw = False
    for _ in range(nops):
        k = rng.below(12)
        if k == 0 and case['level'] != 'tdl_nosw':
            sw = not sw if rng.chance(0.8) else sw
            ops.append({'op': 'sw', 'v': sw})
            continue
        if k == 1 and case['level'] in ('su', 'mu'):
            if mu:
                ops.append({'op': 'pl', 's': [[rng.choice(PLS) for _ in range(case['ntx'])]
                                              for _ in range(case['nrx'])]})
            else:
                ops.append({'op': 'pl', 's': None if rng.chance(0.2) else rng.choice(PLS)})
            continue
        # a transmission
        if ant is None:
            rows = 1
        else:
            rows = ant[0] if sw else ant[1]
        nsrc = (case['nrx'] if sw else case['ntx']) if mu else 1
        real = rng.chance(0.15)
        as1d = rng.chance(0.5)
        if k < 7:
            n = rng.randint(1, 10 if quick else 24)
            xs = [gen_signal(rng, rows, n, real=real) for _ in range(nsrc)]
            ops.append({'op': 'tx', 'x': xs if mu else xs[0], 'as1d': as1d, 'real': real})
        else:
            fft = rng.randint(1, 16) if rng.chance(0.8) else rng.choice([1, 2, 4, 8, 16, 32])
            sel, B = gen_sel(rng, fft)
            if B is None or B == 0:
                n = rng.randint(1, 6)
            else:
                n = B * rng.randint(1, 3)
                if rng.chance(0.06):
                    n += rng.randint(1, max(1, B - 1)) if B > 1 else 0
            xs = [gen_signal(rng, rows, n, real=real) for _ in range(nsrc)]
            ops.append({'op': 'fx', 'fft': fft, 'sel': sel, 'x': xs if mu else xs[0], 'as1d': as1d, 'real': real})
        ops.append({'op': 'ir'})
    return ops


def gen_case(rng, level, quick=True):
    jakes = rng.chance(0.5)
    ant = None
    if rng.chance(0.55):
        ant = [rng.randint(1, 3), rng.randint(1, 3)]
    delays = gen_delays(rng, 6 if quick else 9)
    case = {'level': level, 'seed': rng.below(SEEDMOD), 'jakes': jakes, 'ant': ant, 'delays': delays,
            'amps': [rng.choice(AMPS) for _ in delays], 'Ts': rng.choice(TS_CHOICES),
            'late_ant': rng.chance(0.3)}
    if level == 'mu':
        case['nrx'] = rng.randint(1, 3)
        case['ntx'] = rng.randint(1, 3)
        case['n_as_int'] = rng.chance(0.5)
        if ant is not None and rng.chance(0.5):
            case['ant'] = [rng.randint(1, 2), rng.randint(1, 2)]
    else:
        case['link'] = rng.below(50)
    case['ops'] = gen_ops(rng, case, rng.randint(1, 6) if level != 'mu' else rng.randint(1, 4), quick)
    return case


def case_features(case):
    f = set()
    f.add('gen:' + ('jakes' if case['jakes'] else 'rayleigh'))
    f.add('level:' + case['level'])
    f.add('ant:' + ('siso' if case['ant'] is None else ('mimo-nr!=nt' if case['ant'][0] != case['ant'][1] else 'mimo')))
    sw = False
    ntx = 0
    for op in case['ops']:
        if op['op'] == 'sw':
            sw = op['v']
        if op['op'] in ('tx', 'fx'):
            ntx += 1
            f.add(('td' if op['op'] == 'tx' else 'fd') + (':switched' if sw else ':direct'))
            if op['op'] == 'fx':
                f.add('sel:' + op['sel']['kind'])
                if op['sel']['kind'] == 'slice':
                    st = op['sel']['slice'][2]
                    if st is not None and st < 0:
                        f.add('slice:neg-step')
                    if st not in (None, 0):
                        a, b, c = slice(*op['sel']['slice']).indices(op['fft'])
                        if (b - a) % c != 0 and len(range(a, b, c)) > 0:
                            f.add('slice:step-not-dividing-span')
        if op['op'] == 'pl':
            f.add('pathloss')
    if ntx >= 2:
        f.add('history>=2')
    return f


def correspondence(ctx, n_su, n_mu, quick):
    drv = core.Driver(DRIVER)
    cases = []
    for i in range(n_su):
        cases.append(gen_case(ctx.rng, 'tdl' if i % 3 == 0 else 'su', quick))
    for i in range(n_mu):
        cases.append(gen_case(ctx.rng, 'mu', quick))
    cases += corpus_cases()
    replies = drv.ask([case_line(c) for c in cases])
    for c, rep in zip(cases, replies):
        impl = run_impl(c)
        model = rep.split(' # ') if rep else []
        feats = case_features(c)
        for ft in feats:
            ctx.branch(ft)
        for t in impl:
            if t.startswith('error:'):
                ctx.branch('impl-' + t)
        name = {'tdl': 'TdlChannel', 'su': 'SuChannel', 'mu': 'MuChannel'}[c['level']] + '.transmit-history'
        nontriv = len(c['delays']) >= 2 or c['ant'] is not None
        ok = ctx.corr(name, {'line': case_line(c), 'case': c}, impl, model, nontrivial=nontriv,
                      key=case_line(c))
        if ok and len(ctx.samples) < 3:
            ctx.sample({'line': case_line(c)[:300], 'reply': ' # '.join(impl)[:300]})


def corpus_cases():
    """fixed boundary scenarios, always run"""
    out = []
    base = {'level': 'tdl', 'seed': 7, 'jakes': True, 'ant': None, 'delays': [0, 2, 5], 'amps': ['1', '2', '1/2'],
            'Ts': 1e-3, 'link': 3, 'late_ant': False}
    x8 = gen_signal(core.Rng(1, 'c03corpus'), 1, 8)
    x12 = gen_signal(core.Rng(2, 'c03corpus'), 1, 12)
    for sl in ([0, 10, 3], [1, 16, 4], [None, None, -3], [15, None, -4], [None, None, 5], [2, 3, 7]):
        B = len(range(*slice(*sl).indices(16)))
        x = gen_signal(core.Rng(3, 'c03corpus'), 1, 2 * B)
        c = dict(base)
        c['ops'] = [{'op': 'fx', 'fft': 16, 'sel': {'kind': 'slice', 'slice': sl}, 'x': x}, {'op': 'ir'},
                    {'op': 'tx', 'x': x8}, {'op': 'ir'}]
        out.append(c)
    c = dict(base, jakes=False, ant=[2, 3], level='su')
    x3 = gen_signal(core.Rng(4, 'c03corpus'), 3, 6)
    x2 = gen_signal(core.Rng(5, 'c03corpus'), 2, 6)
    c['ops'] = [{'op': 'pl', 's': '1/4'}, {'op': 'tx', 'x': x3}, {'op': 'ir'}, {'op': 'sw', 'v': True},
                {'op': 'tx', 'x': x2}, {'op': 'ir'},
                {'op': 'fx', 'fft': 6, 'sel': {'kind': 'slice', 'slice': [0, 6, 4]}, 'x': x2}, {'op': 'ir'}]
    out.append(c)
    c = dict(base, ops=[{'op': 'fx', 'fft': 4, 'sel': {'kind': 'all'}, 'x': x12}, {'op': 'ir'},
                        {'op': 'fx', 'fft': 4, 'sel': {'kind': 'all'}, 'x': x8}, {'op': 'ir'}])
    out.append(c)
    return out


# --------------------------------------------------------------------------- discretisation / slices
def py_round_half_even(fr):
    return round(fr)        # Python's round() on a Fraction is exact round-half-to-even


def gen_profile(rng):
    """tap delays / Ts as exact binary64 values whose quotient is exact in binary64"""
    Ts = Fraction(rng.choice([1, 2, 4, 8])) / rng.choice([1, 2, 4, 8, 16])
    k = rng.randint(1, 8)
    delays = []
    for _ in range(k):
        q = Fraction(rng.randint(0, 40), rng.choice([1, 2, 2, 4, 8]))    # delay / Ts, ties at .5 included
        delays.append(q * Ts)
    if rng.chance(0.5):
        delays.sort()
    powers = [Fraction(rng.randint(1, 64), rng.choice([1, 2, 4, 8, 16, 64])) for _ in range(k)]
    return Ts, delays, powers


def fr2s(f):
    return str(f.numerator) if f.denominator == 1 else '%d/%d' % (f.numerator, f.denominator)


def discretize_corr(ctx, n):
    from pyphysim.channels import fading
    from pyphysim.util.conversion import linear2dB
    drv = core.Driver(DRIVER)
    cases = [gen_profile(ctx.rng) for _ in range(n)]
    lines = ['disc %s %s %s' % (fr2s(Ts), ','.join(fr2s(d) for d in ds), ','.join(fr2s(p) for p in ps))
             for Ts, ds, ps in cases]
    rep = drv.ask(lines)
    for (Ts, ds, ps), line, r in zip(cases, lines, rep):
        try:
            prof = fading.TdlChannelProfile(linear2dB(np.array([float(p) for p in ps])),
                                            np.array([float(d) for d in ds]))
            dp = prof.get_discretize_profile(float(Ts))
        except Exception as e:
            # the model always discretises a valid profile; the oracle reports the concrete input
            ctx.branch('impl-exception:discretize')
            ctx.corr('TdlChannelProfile.get_discretize_profile', line, 'error:' + type(e).__name__, 'ok',
                     nontrivial=len(ds) >= 2, key=line)
            run_oracle(ctx, 'get_discretize_profile', {'Ts': fr2s(Ts), 'delays': [fr2s(d) for d in ds],
                                                       'powers': [fr2s(p) for p in ps]})
            continue
        md, mp = r.split(' ')
        md = md[2:]
        mp = [Fraction(t) for t in mp[2:].split(',')]
        impl_d = ','.join(str(int(d)) for d in dp.tap_delays)
        ok_p = (len(mp) == dp.tap_powers_linear.size
                and all(core.close(float(a), float(b), rtol=1e-12) for a, b in zip(mp, dp.tap_powers_linear)))
        collide = len(set(py_round_half_even(d / Ts) for d in ds)) < len(ds)
        if collide:
            ctx.branch('disc:colliding-delays')
        if any((d / Ts).denominator == 2 for d in ds):
            ctx.branch('disc:tie-at-half')
        ctx.corr('TdlChannelProfile.get_discretize_profile', line, (impl_d, 'powers-agree' if ok_p else
                 'powers=%s' % list(dp.tap_powers_linear)), (md, 'powers-agree'), nontrivial=len(ds) >= 2, key=line)


def slice_corr(ctx, maxN, exhaustive):
    """Python slice.indices / range / numpy indexing against the model's sliceIndices / pyRange / selPos"""
    drv = core.Driver(DRIVER)
    trip = []
    if exhaustive:
        for N in range(1, maxN + 1):
            vals = [None] + list(range(-N - 2, N + 3))
            steps = [None] + [s for s in range(-N - 1, N + 2)]
            for a in vals:
                for b in vals:
                    for c in steps:
                        trip.append((a, b, c, N))
    else:
        for _ in range(3000):
            N = ctx.rng.randint(1, maxN)
            def ov():
                return None if ctx.rng.chance(0.2) else ctx.rng.randint(-N - 2, N + 2)
            c = None if ctx.rng.chance(0.15) else ctx.rng.randint(-N - 1, N + 1)
            trip.append((ov(), ov(), c, N))

    def s(v):
        return 'N' if v is None else str(v)
    lines = ['slice %s %s %s %d' % (s(a), s(b), s(c), N) for a, b, c, N in trip]
    rep = []
    for i in range(0, len(lines), 20000):
        rep += drv.ask(lines[i:i + 20000])
    base = {}
    for (a, b, c, N), line, r in zip(trip, lines, rep):
        if N not in base:
            base[N] = np.arange(N)
        try:
            ind = slice(a, b, c).indices(N)
            pos = base[N][slice(a, b, c)]          # numpy's own slicing of an axis of length N
            impl = 'ind=%d,%d,%d pos=%s' % (ind[0], ind[1], ind[2], ','.join(str(int(p)) for p in pos))
            true_len = len(pos)
        except ValueError:
            impl, true_len = 'error:ValueError', None
        model = r.split(' bs=')[0]
        ctx.corr('slice.indices+numpy-slicing', line, impl, model, nontrivial=c not in (None, 1), key=line)
    # index arrays (negative wrap, out of range)
    lines, exp = [], []
    for _ in range(300 if not exhaustive else 3000):
        N = ctx.rng.randint(1, maxN)
        l = [ctx.rng.randint(-N - 1, N) for _ in range(ctx.rng.randint(0, 6))]
        lines.append('idx %s %d' % (','.join(str(i) for i in l) if l else ',', N))
        try:
            exp.append('pos=' + ','.join(str(int(p)) for p in np.arange(N)[np.array(l, dtype=int)]))
        except IndexError:
            exp.append('error:IndexError')
    for line, e, r in zip(lines, exp, drv.ask(lines)):
        ctx.corr('numpy-index-array', line, e, r, key=line)


def fft_contract(ctx, n):
    """numeric contract of the external kernel np.fft.fft as the code calls it (axis 0, size n):
    shape, value = explicit DFT of the cropped / zero-padded input, homogeneity"""
    for _ in range(n):
        L = ctx.rng.randint(1, 12)
        N = ctx.rng.randint(1, 20)
        inner = () if ctx.rng.chance(0.5) else (ctx.rng.randint(1, 3), ctx.rng.randint(1, 3))
        v = np.array([ctx.rng.gauss() + 1j * ctx.rng.gauss() for _ in range(L * int(np.prod(inner or (1,))))]
                     ).reshape((L,) + inner)
        got = np.fft.fft(v, N, axis=0)
        m = min(L, N)
        exp = np.tensordot(dft_matrix(N)[:, :m], v[:m], axes=(1, 0))
        s_ = complex(ctx.rng.gauss(), ctx.rng.gauss())
        ok = (got.shape == (N,) + inner and allclose(got, exp)
              and allclose(np.fft.fft(s_ * v, N, axis=0), s_ * got))
        ctx.corr('np.fft.fft-contract', {'L': L, 'N': N, 'inner': list(inner)}, 'holds' if ok else 'violated', 'holds',
                 key=('fftc', L, N, inner, float(v.flat[0].real)))
        ctx.branch('fft:crop' if N < L else ('fft:pad' if N > L else 'fft:exact'))


# --------------------------------------------------------------------------- oracles (first principles, real code)
def _real_channel(case):
    """untouched generators (real Jakes waveform / real Rayleigh draws), real dB profile"""
    from pyphysim.channels import fading, fading_generators as fg, singleuser, multiuser
    np.random.seed(case['npseed'])
    Ts = case['Ts']
    shape = None if case['ant'] is None else tuple(case['ant'])
    if case['jakes']:
        gen = fg.JakesSampleGenerator(Fd=case.get('Fd', 30.0), Ts=Ts, L=case.get('L', 8), shape=shape,
                                      RS=np.random.RandomState(case['npseed']))
    else:
        gen = fg.RayleighSampleGenerator(shape=shape)
    pdb = np.array(case['powers_dB'], dtype=float)
    dl = np.array(case['delays_s'], dtype=float)
    if case['level'] == 'tdl':
        ch = fading.TdlChannel(gen, tap_powers_dB=pdb, tap_delays=dl, Ts=Ts)
    elif case['level'] == 'su':
        ch = singleuser.SuChannel(gen, tap_powers_dB=pdb, tap_delays=dl, Ts=Ts)
    else:
        N = (case['nrx'], case['ntx'])
        if case['ant'] is None:
            ch = multiuser.MuChannel(N, gen, tap_powers_dB=pdb, tap_delays=dl, Ts=Ts)
        else:
            gen.shape = None
            ch = multiuser.MuMimoChannel(N, case['ant'][0], case['ant'][1], gen, tap_powers_dB=pdb,
                                         tap_delays=dl, Ts=Ts)
    return ch


def dft_matrix(N):
    k = np.arange(N)
    return np.exp(-2j * np.pi * np.outer(k, k) / N)


def conv_expected(dense, x, switched, mimo):
    """y[j][m] = sum_l sum_a H_l[j,a][m-l] x[a][m-l]   (dense taps incl. zero padding, time-varying)"""
    L = dense.shape[0]
    n = x.shape[-1]
    if not mimo:
        y = np.zeros(n + L - 1, dtype=complex)
        for m in range(n + L - 1):
            for l in range(L):
                if 0 <= m - l < n:
                    y[m] += dense[l, m - l] * x[m - l]
        return y
    nr, nt = dense.shape[1], dense.shape[2]
    nout = nt if switched else nr
    nin = nr if switched else nt
    y = np.zeros((nout, n + L - 1), dtype=complex)
    for j in range(nout):
        for m in range(n + L - 1):
            for l in range(L):
                if 0 <= m - l < n:
                    for a in range(nin):
                        h = dense[l, a, j, m - l] if switched else dense[l, j, a, m - l]
                        y[j, m] += h * x[a, m - l]
    return y


def freq_expected(dense, x, fft, sel, switched, mimo):
    """per block b: y[j][bB+q] = sum_a DFT_fft(dense[:, j, a, b])[idx[q]] * x[a][bB+q]"""
    pyidx = sel2py(sel)
    if pyidx is None:
        idx = list(range(fft))
    elif isinstance(pyidx, slice):
        idx = list(range(fft))[pyidx]
    else:
        idx = [list(range(fft))[int(i)] for i in pyidx]      # Python list indexing: wraps negatives, raises when out of range
    B = len(idx)
    n = x.shape[-1]
    nb = n // B
    F = dft_matrix(fft)
    L = dense.shape[0]
    m = min(L, fft)
    if not mimo:
        y = np.zeros(n, dtype=complex)
        for b in range(nb):
            H = F[:, :m] @ dense[:m, b]
            for q in range(B):
                y[b * B + q] = H[idx[q]] * x[b * B + q]
        return y
    nr, nt = dense.shape[1], dense.shape[2]
    nout = nt if switched else nr
    nin = nr if switched else nt
    y = np.zeros((nout, n), dtype=complex)
    for b in range(nb):
        H = np.tensordot(F[:, :m], dense[:m, :, :, b], axes=(1, 0))      # fft x nr x nt
        for j in range(nout):
            for a in range(nin):
                for q in range(B):
                    h = H[idx[q], a, j] if switched else H[idx[q], j, a]
                    y[j, b * B + q] += h * x[a, b * B + q]
    return y


def allclose(a, b):
    a = np.asarray(a, dtype=complex)
    b = np.asarray(b, dtype=complex)
    if a.shape != b.shape:
        return False
    scale = max(1.0, float(np.max(np.abs(b))) if b.size else 1.0)
    return bool(np.all(np.abs(a - b) <= 1e-9 * scale))


def slice_class(sel, fft):
    if sel['kind'] != 'slice':
        return sel['kind']
    a, b, c = slice(*sel['slice']).indices(fft)
    ln = len(range(a, b, c))
    if ln > 0 and (b - a) % c != 0:
        return 'slice:step-not-dividing-span'
    return 'slice:step-dividing-span' if ln > 0 else 'slice:empty'


def oracle_signal(xs, mu, mimo, as1d):
    """the array handed to the real code.  A transmitter with ONE antenna (MIMO link whose input
    side has one row: nt == 1, or nr == 1 in the switched direction) may pass its stream as (1, n)
    or as (n,); a multiuser channel with ONE source may pass its whole signal without the source
    axis.  Returns (signal, stream-class or None)."""
    stream = None
    if mimo and xs[0].ndim == 2 and xs[0].shape[0] == 1:
        stream = 'single-stream-1d' if as1d else 'single-stream-2d'
        if as1d:
            xs = [x[0] for x in xs]
    if not mu:
        return xs[0], stream
    sig = np.array(xs)
    if not mimo and len(xs) == 1:
        stream = 'single-source-1d' if as1d else 'single-source-2d'
        if as1d:
            sig = sig[0]
    return sig, stream


def o_transmit(case):
    """time-domain or frequency-domain transmissions on ONE real object, each compared with
    the first-principles formula evaluated on the response reported right after it"""
    mimo = case['ant'] is not None
    ch = _real_channel(case)
    mu = case['level'] == 'mu'
    sw = False
    for op in case['ops']:
        k = op['op']
        if k == 'sw':
            sw = bool(op['v'])
            ch.switched_direction = sw
            continue
        if k == 'pl':
            if mu:
                ch.set_pathloss(np.array(op['p'], dtype=float))
            else:
                ch.set_pathloss(op['p'])
            continue
        kind = 'td' if k == 'tx' else 'fd'
        cfg = ('mu-' if mu else '') + ('siso' if not mimo else ('mimo-switched' if sw else 'mimo'))
        cls_in = cfg if k == 'tx' else cfg + ':' + slice_class(op['sel'], op['fft'])
        xs = [x2np(x) for x in (op['x'] if mu else [op['x']])]
        if not mimo:
            xs = [x.reshape(-1) for x in xs]
        sig, stream = oracle_signal(xs, mu, mimo, bool(op.get('as1d')))
        try:
            if k == 'tx':
                y = ch.corrupt_data(sig)
            else:
                y = ch.corrupt_data_in_freq_domain(sig, op['fft'], sel2py(op['sel']))
        except Exception as e:
            # class from the input only (stream shape, antenna set-up, selection geometry), not from the message
            if stream is not None:
                cls = '%s:exception:%s:%s' % (kind, stream, cls_in)
            else:
                cls = '%s:exception:%s' % (kind, slice_class(op['sel'], op['fft']) if k == 'fx' else cfg)
            return cls, '%s on %s, signal shape %s: %r' % (type(e).__name__, cfg, np.asarray(sig).shape, e)
        # expected, from the responses reported now
        if mu:
            nrx, ntx = case['nrx'], case['ntx']
            nout_links = ntx if sw else nrx
            exp = []
            for j in range(nout_links):
                acc = None
                for a in range(nrx if sw else ntx):
                    r, t = (a, j) if sw else (j, a)
                    ir = ch.get_last_impulse_response(r, t)
                    dense = np.asarray(ir.tap_values)
                    e = (conv_expected(dense, xs[a], sw, mimo) if k == 'tx'
                         else freq_expected(dense, xs[a], op['fft'], op['sel'], sw, mimo))
                    acc = e if acc is None else acc + e
                exp.append(acc)
            ys = list(y)
        else:
            ir = ch.get_last_impulse_response()
            dense = np.asarray(ir.tap_values)
            exp = [conv_expected(dense, xs[0], sw, mimo) if k == 'tx'
                   else freq_expected(dense, xs[0], op['fft'], op['sel'], sw, mimo)]
            ys = [y]
        tag = (stream + ':' if stream is not None and stream.endswith('1d') else '') + cls_in
        for yy, ee in zip(ys, exp):
            if np.asarray(yy).shape != ee.shape:
                return '%s:shape:%s' % (kind, tag), 'got %s expected %s' % (np.asarray(yy).shape, ee.shape)
            if not allclose(yy, ee):
                return ('%s:value:%s' % (kind, tag), 'signal shape %s: max |y - expected| = %g'
                        % (np.asarray(sig).shape, float(np.max(np.abs(yy - ee)))))
    return None


def o_linear(case):
    """same fading realisation (same seeds), inputs x1, x2, a*x1+b*x2"""
    mimo = case['ant'] is not None
    outs = []
    a, b = complex(*case['a']), complex(*case['b'])
    x1, x2 = x2np(case['x1']), x2np(case['x2'])
    if not mimo:
        x1, x2 = x1.reshape(-1), x2.reshape(-1)
    stream = None
    if mimo and x1.shape[0] == 1:
        stream = 'single-stream-1d' if case.get('as1d') else 'single-stream-2d'
        if case.get('as1d'):
            x1, x2 = x1[0], x2[0]
    for sig in (x1, x2, a * x1 + b * x2):
        ch = _real_channel(case)
        if case.get('sw'):
            ch.switched_direction = True
        if case.get('p') is not None:
            ch.set_pathloss(case['p'])
        np.random.seed(case['npseed'] + 1)
        try:
            if case['kind'] == 'td':
                outs.append(np.asarray(ch.corrupt_data(sig)))
            else:
                outs.append(np.asarray(ch.corrupt_data_in_freq_domain(sig, case['fft'], sel2py(case['sel']))))
        except Exception as e:
            cfg = 'siso' if not mimo else ('mimo-switched' if case.get('sw') else 'mimo')
            if stream is not None:
                return ('%s:exception:%s:%s' % (case['kind'], stream, cfg),
                        '%s, signal shape %s: %r' % (type(e).__name__, np.asarray(sig).shape, e))
            return ('%s:exception:%s' % (case['kind'], slice_class(case['sel'], case['fft']) if case['kind'] == 'fd'
                                         else cfg), '%s: %r' % (type(e).__name__, e))
    if not allclose(outs[2], a * outs[0] + b * outs[1]):
        return 'not-linear:' + case['kind'], 'max dev %g' % float(np.max(np.abs(outs[2] - a * outs[0] - b * outs[1])))
    return None


def o_discretize(case):
    from pyphysim.channels import fading
    from pyphysim.util.conversion import linear2dB
    Ts = Fraction(case['Ts'])
    ds = [Fraction(d) for d in case['delays']]
    ps = [Fraction(p) for p in case['powers']]
    idx0 = [py_round_half_even(d / Ts) for d in ds]
    try:
        prof = fading.TdlChannelProfile(linear2dB(np.array([float(p) for p in ps])),
                                        np.array([float(d) for d in ds]))
        dp = prof.get_discretize_profile(float(Ts))
    except Exception as e:
        # a valid profile that cannot be built / discretised at all
        return ('discretize:exception:' + ('single-delay' if len(set(ds)) == 1 else
                                           ('one-output-tap' if len(set(idx0)) == 1 else 'several-delays')),
                '%s: %r' % (type(e).__name__, e))
    got_d = [int(d) for d in dp.tap_delays]
    idx = [py_round_half_even(d / Ts) for d in ds]
    exp_d = sorted(set(idx))
    cls = 'colliding' if len(exp_d) < len(ds) else 'distinct'
    if got_d != exp_d or any(not float(d).is_integer() for d in dp.tap_delays):
        return 'discretize:delays:' + cls, 'got %s expected %s' % (got_d, exp_d)
    tot = sum(ps)
    exp_p = [sum(p for p, i in zip(ps, idx) if i == j) / tot for j in exp_d]
    got_p = list(dp.tap_powers_linear)
    if len(got_p) != len(exp_p) or not all(core.close(float(e), float(g), rtol=1e-12) for e, g in zip(exp_p, got_p)):
        return 'discretize:powers:' + cls, 'got %s expected %s' % (got_p, [float(e) for e in exp_p])
    if not core.close(float(np.sum(dp.tap_powers_linear)), 1.0, rtol=1e-12):
        return 'discretize:sum:' + cls, 'sum %r' % float(np.sum(dp.tap_powers_linear))
    return None


ORACLES = {
    'transmit': o_transmit,
    'linearity': o_linear,
    'get_discretize_profile': o_discretize,
}


def run_oracle(ctx, call, case, key=None, nontrivial=True):
    ctx.count((call, key if key is not None else repr(case)), nontrivial)
    try:
        r = ORACLES[call](case)
    except Exception as e:
        r = ('oracle-exception:' + type(e).__name__, repr(e)[:300])
    if r is not None:
        ctx.fail(call, r[0], case, r[1])
        ctx.branch('oracle-fail:' + call)
    else:
        ctx.branch('oracle-ok:' + call)
    return r


def replay(ctx, rep):
    return ORACLES[rep['call']](rep['case']) is not None


REAL_PROFILES = [
    ([0.0, -3.0, -6.0], [0.0, 1.0, 4.0]),                    # in units of Ts
    ([-1.0, -2.5, -2.5, -7.0], [0.0, 0.4, 0.6, 2.2]),        # 0.4 / 0.6 collide with 0 / 1
    ([0.0], [0.0]),
    ([-3.0, 0.0, -4.0, -8.0, -9.5], [1.3, 2.7, 2.9, 6.2, 7.0]),   # first tap not at delay 0
]


def gen_oracle_case(rng, level, only=None):
    jakes = rng.chance(0.5)
    ant = [rng.randint(1, 3), rng.randint(1, 3)] if rng.chance(0.5) else None
    Ts = rng.choice([1.0, 1e-3, 3.25e-8])
    if rng.chance(0.2):
        pdb, dl = [-5.7, -7.6, -10.1, -10.2, -10.2, -11.5, -13.4], [0, 217, 512, 514, 517, 674, 882]
        dl = [d * 1e-9 for d in dl]
        Ts = 3.25e-8 if not jakes or True else Ts
    else:
        pdb, du = rng.choice(REAL_PROFILES)
        dl = [d * Ts for d in du]
    case = {'level': level, 'npseed': rng.below(1 << 30), 'jakes': jakes, 'ant': ant, 'Ts': Ts,
            'powers_dB': pdb, 'delays_s': dl}
    if level == 'mu':
        case['nrx'], case['ntx'] = rng.randint(1, 3), rng.randint(1, 3)
        if ant is not None:
            case['ant'] = [rng.randint(1, 2), rng.randint(1, 2)]
    ops = []
    sw = False
    for _ in range(rng.randint(1, 4)):
        if rng.chance(0.25):
            sw = not sw
            ops.append({'op': 'sw', 'v': sw})
        if level != 'tdl' and rng.chance(0.3):
            if level == 'mu':
                ops.append({'op': 'pl', 'p': [[rng.uniform(0.01, 1.0) for _ in range(case['ntx'])]
                                              for _ in range(case['nrx'])]})
            else:
                ops.append({'op': 'pl', 'p': rng.uniform(0.01, 1.0)})
        rows = 1 if case['ant'] is None else (case['ant'][0] if sw else case['ant'][1])
        nsrc = 1 if level != 'mu' else (case['nrx'] if sw else case['ntx'])
        if (only or ('td' if rng.chance(0.5) else 'fd')) == 'td':
            n = rng.randint(1, 12)
            xs = [gen_signal(rng, rows, n) for _ in range(nsrc)]
            ops.append({'op': 'tx', 'x': xs if level == 'mu' else xs[0], 'as1d': rng.chance(0.5)})
        else:
            while True:
                fft = rng.randint(1, 16)
                sel, B = gen_sel(rng, fft)
                if B:
                    break
            n = B * rng.randint(1, 3)
            xs = [gen_signal(rng, rows, n) for _ in range(nsrc)]
            ops.append({'op': 'fx', 'fft': fft, 'sel': sel, 'x': xs if level == 'mu' else xs[0],
                        'as1d': rng.chance(0.5)})
    case['ops'] = ops
    return case


def gen_linear_case(rng):
    c = gen_oracle_case(rng, rng.choice(['tdl', 'su']))
    c.pop('ops')
    sw = rng.chance(0.4)
    rows = 1 if c['ant'] is None else (c['ant'][0] if sw else c['ant'][1])
    c['sw'] = sw
    c['p'] = rng.uniform(0.05, 1.0) if c['level'] == 'su' and rng.chance(0.5) else None
    c['a'] = [rng.randint(-3, 3), rng.randint(-3, 3)]
    c['b'] = [rng.randint(-3, 3), rng.randint(-3, 3)]
    if rng.chance(0.5):
        c['kind'] = 'td'
        n = rng.randint(1, 10)
    else:
        c['kind'] = 'fd'
        while True:
            c['fft'] = rng.randint(1, 12)
            c['sel'], B = gen_sel(rng, c['fft'])
            if B:
                break
        n = B * rng.randint(1, 2)
    c['as1d'] = rng.chance(0.5)
    c['x1'] = gen_signal(rng, rows, n)
    c['x2'] = gen_signal(rng, rows, n)
    return c


SLICE_WITNESSES = [([0, 10, 3], 16), ([1, 16, 4], 16), ([None, None, 5], 16), ([15, 0, -2], 16)]


def single_stream_witnesses():
    """every way a ONE-antenna transmitter / ONE-source multiuser channel can hand over its stream:
    (1, n) and (n,), both link directions, time and frequency domain, TdlChannel / SuChannel /
    MuChannel / MuMimoChannel, with and without path loss"""
    rng = core.Rng(31, 'c03single')
    out = []
    for level in ('tdl', 'su', 'mu'):
        for ant, sw in (([1, 3], True), ([3, 1], False), ([1, 1], False), ([1, 1], True), ([2, 1], False),
                        ([1, 2], True), (None, False), (None, True)):
            for kind in ('tx', 'fx'):
                for as1d in (False, True):
                    for pl in ((False, True) if level != 'tdl' else (False,)):
                        case = {'level': level, 'npseed': rng.below(1 << 30), 'jakes': rng.chance(0.5), 'ant': ant,
                                'Ts': 1e-3, 'powers_dB': [0.0, -3.0, -6.0], 'delays_s': [0.0, 1e-3, 4e-3]}
                        if level == 'mu':
                            # one source in the direction used (so the whole signal may drop the source axis)
                            case['nrx'], case['ntx'] = (1, 2) if sw else (2, 1)
                            if ant is not None and rng.chance(0.5):
                                case['nrx'], case['ntx'] = 2, 2
                        elif ant is None:
                            continue            # SISO single links have one shape only
                        ops = []
                        if sw:
                            ops.append({'op': 'sw', 'v': True})
                        if pl:
                            ops.append({'op': 'pl', 'p': ([[0.25] * case['ntx']] * case['nrx']) if level == 'mu' else 0.25})
                        nsrc = 1 if level != 'mu' else (case['nrx'] if sw else case['ntx'])
                        if kind == 'tx':
                            xs = [gen_signal(rng, 1, 6) for _ in range(nsrc)]
                            ops.append({'op': 'tx', 'x': xs if level == 'mu' else xs[0], 'as1d': as1d})
                        else:
                            sel = rng.choice([{'kind': 'all'}, {'kind': 'slice', 'slice': [0, 8, 3]},
                                              {'kind': 'idx', 'idx': [1, -1, 4], 'as_array': True}])
                            B = 8 if sel['kind'] == 'all' else 3
                            xs = [gen_signal(rng, 1, 2 * B) for _ in range(nsrc)]
                            ops.append({'op': 'fx', 'fft': 8, 'sel': sel, 'x': xs if level == 'mu' else xs[0],
                                        'as1d': as1d})
                        case['ops'] = ops
                        out.append(case)
    return out


def oracles(ctx, n_tx, n_lin, n_disc):
    # the design-round witnesses first (always the same inputs)
    for sl, fft in SLICE_WITNESSES:
        B = len(range(*slice(*sl).indices(fft)))
        case = {'level': 'tdl', 'npseed': 11, 'jakes': True, 'ant': None, 'Ts': 1e-3, 'powers_dB': [0.0, -3.0],
                'delays_s': [0.0, 2e-3],
                'ops': [{'op': 'fx', 'fft': fft, 'sel': {'kind': 'slice', 'slice': sl},
                         'x': gen_signal(core.Rng(9, 'c03w'), 1, 2 * B)}]}
        run_oracle(ctx, 'transmit', case)
    for case in single_stream_witnesses():
        run_oracle(ctx, 'transmit', case)
        op = case['ops'][-1]
        if case['ant'] is not None and op.get('as1d'):
            ctx.branch('oracle:single-stream-1d:' + ('switched' if any(o['op'] == 'sw' for o in case['ops']) else 'direct'))
        if case['ant'] is None and case['level'] == 'mu' and op.get('as1d'):
            ctx.branch('oracle:single-source-1d')
    for ds_, ps_ in (([Fraction(13, 10)], [Fraction(4, 5)]), ([Fraction(7, 10)], [Fraction(1, 6)]),
                     ([Fraction(13, 10)] * 3, [Fraction(1), Fraction(1, 2), Fraction(1, 3)])):
        run_oracle(ctx, 'get_discretize_profile', {'Ts': '1', 'delays': [fr2s(d) for d in ds_],
                                                   'powers': [fr2s(p) for p in ps_]})
    for i in range(n_tx):
        level = ('tdl', 'su', 'mu')[i % 3]
        run_oracle(ctx, 'transmit', gen_oracle_case(ctx.rng, level))
    for _ in range(n_lin):
        run_oracle(ctx, 'linearity', gen_linear_case(ctx.rng))
    for _ in range(n_disc):
        Ts, ds, ps = gen_profile(ctx.rng)
        run_oracle(ctx, 'get_discretize_profile', {'Ts': fr2s(Ts), 'delays': [fr2s(d) for d in ds],
                                                   'powers': [fr2s(p) for p in ps]})
    # the profiles shipped with the library, at the sampling intervals the tests use and others
    # (margin rule: only sampling intervals for which no delay/Ts is within 1e-6 of a tie)
    from pyphysim.channels import fading
    for prof in (fading.COST259_TUx, fading.COST259_RAx, fading.COST259_HTx):
        for Ts in (3.25e-8, 1e-7, 5e-7, 1e-6, 2.5e-7):
            ds = [Fraction(float(d)) for d in prof.tap_delays]
            q = [d / Fraction(Ts) for d in ds]
            if any(abs((x % 1) - Fraction(1, 2)) < Fraction(1, 10 ** 6) for x in q):
                continue
            ps = [Fraction(float(p)) for p in prof.tap_powers_linear]
            run_oracle(ctx, 'get_discretize_profile',
                       {'Ts': fr2s(Fraction(Ts)), 'delays': [fr2s(d) for d in ds], 'powers': [fr2s(p) for p in ps]},
                       key=(prof.name, Ts))


# --------------------------------------------------------------------------- entry points
REQUIRED = ['gen:jakes', 'gen:rayleigh', 'ant:siso', 'ant:mimo-nr!=nt', 'td:direct', 'td:switched', 'fd:direct',
            'fd:switched', 'sel:all', 'sel:idx', 'sel:slice', 'slice:neg-step', 'slice:step-not-dividing-span',
            'pathloss', 'history>=2', 'level:mu', 'level:su', 'level:tdl', 'disc:colliding-delays',
            'disc:tie-at-half', 'fft:crop', 'fft:pad', 'oracle:single-stream-1d:switched',
            'oracle:single-stream-1d:direct', 'oracle:single-source-1d']


def check(ctx):
    quick = ctx.tier == 'quick'
    ctx.rule = ('scenarios = one channel object (TdlChannel / SuChannel / MuChannel / MuMimoChannel; Jakes or '
                'Rayleigh with scripted Gaussian-integer fading; SISO or MIMO up to 3x3; 1-5 taps with '
                'perfect-square powers) driven through 1-6 seeded operations (time / frequency transmissions '
                'with None, index-array and slice selections, direction switches, path losses) each followed by '
                'a read of the reported response; all values compared exactly as rationals with the Lean model. '
                'non-trivial = distinct scenario line with >= 2 taps or MIMO; oracle cases use the untouched '
                'generators / FFT / dB profiles')
    core.prove(ctx, MODULE, generated=['Slice'], drivers=[DRIVER], scratch=ctx.scratch)
    ctx.required_branches = list(REQUIRED)
    np.random.seed(ctx.rng.below(1 << 31))
    try:
        correspondence(ctx, 900 if quick else 9000, 300 if quick else 3000, quick)
        discretize_corr(ctx, 600 if quick else 8000)
        slice_corr(ctx, 16, exhaustive=not quick)
        fft_contract(ctx, 100 if quick else 2000)
        if not quick:
            ctx.extra['exhaustive_slices'] = 'all (start, stop, step) in [None, -N-2..N+2] x [None, -N-1..N+1], N <= 16'
    except core.Infra as e:
        if not ctx.broken:
            raise
        ctx.notes.append('correspondence skipped: %s' % e)
        ctx.required_branches = []
    oracles(ctx, 300 if quick else 4000, 90 if quick else 1200, 200 if quick else 3000)


def search(ctx):
    """deeper failing-input search on the real code: every slice geometry for fft <= 12, SISO"""
    for fft in range(1, 13):
        for a in [None] + list(range(-fft - 1, fft + 2)):
            for b in [None] + list(range(-fft - 1, fft + 2)):
                for c in (None, 1, 2, 3, 4, 5, -1, -2, -3):
                    sl = [a, b, c]
                    B = len(range(*slice(*sl).indices(fft)))
                    if B == 0:
                        continue
                    case = {'level': 'tdl', 'npseed': 5, 'jakes': False, 'ant': None, 'Ts': 1.0,
                            'powers_dB': [0.0, -3.0], 'delays_s': [0.0, 2.0],
                            'ops': [{'op': 'fx', 'fft': fft, 'sel': {'kind': 'slice', 'slice': sl},
                                     'x': gen_signal(ctx.rng, 1, B)}]}
                    run_oracle(ctx, 'transmit', case)
        if len(ctx.failures) > 20:
            break
    if not ctx.failures:
        oracles(ctx, 1500, 300, 500)
