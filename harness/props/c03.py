"""C03 — TDL channel output is the convolution with the impulse response it reports
(DESIGN.md §5 C03).

Ties to the source
  (a) regeneration: Generated/Slice.lean is re-emitted from
      TdlChannel.corrupt_data_in_freq_domain (block-size expressions for
      None / slice / index array, samples generated and skipped per block); the
      slice / schedule theorems are stated about those definitions.
  (b) exact correspondence: the real TdlChannel / SuChannel / MuChannel /
      MuMimoChannel objects are driven with *scripted* fading generators (the
      draw of the Rayleigh generator resp. the Jakes waveform is replaced by a
      Gaussian-integer function of (link, absolute sample position, tap, rx,
      tx); all position bookkeeping - generate / skip / similar generators -
      stays the real code), perfect-square tap powers, path losses with exact
      square roots, Gaussian-integer signals and - for the frequency domain -
      np.fft.fft replaced by an exact integer-twiddle kernel of the same shape.
      Every value is then exact in binary64 and compared as a rational with the
      compiled Lean model at Gaussian rationals.
  (c) first-principles oracles on the untouched real code (real Jakes and
      Rayleigh generators, real FFT, real dB profiles).
"""
import math
from fractions import Fraction

import numpy as np

from harness import core

MODULE = 'PyPhysim.Properties.C03'
DRIVER = 'drv_c03'
CLAIM = {
    'technique': 'Lean 4 theorems over an arbitrary commutative semiring / Q / Int about a hand model '
                 '+ block-size and fading-schedule expressions regenerated from the source '
                 '+ exact (rational) differential correspondence on scripted Gaussian-integer fading',
    'text': 'Proved for every channel state (hence after any history), tap profile, antenna set-up, direction, '
            'path loss, fading process and input: the modelled corrupt_data output equals the time-varying '
            'convolution with the impulse response reported afterwards, has n + last-delay entries per row and is '
            'linear in the input (SISO, MIMO, switched); SuChannel scales output and reported response by the same '
            'factor; MuChannel/MuMimoChannel outputs are the entrywise sums over the links in both directions; the '
            'frequency-domain output is the per-block product with the FFT kernel of the same reported response for '
            'None / index-array / slice selections, where the block size regenerated from the source is proved equal '
            'to the number of selected carriers for every slice (Python slice.indices / range semantics) and block b '
            'uses the fading sample at position pos + b*stride; discretisation gives strictly increasing integer '
            'delays (round-half-even), merged powers and power sum 1 (over Q). The model is tied to the code by exact '
            'comparison of whole operation histories on the real TdlChannel / SuChannel / MuChannel / MuMimoChannel '
            'objects and by first-principles oracles on the untouched code.',
    'note': 'Trusted-base additions: the hand model (tied by correspondence only); harness/gen/c03.py (tiny integer '
            'expression fragment incl. len(range(*indexes)) -> pyRangeLen); Python slice/range/numpy-indexing '
            'semantics of Model/C03Py (compared exhaustively with CPython/numpy for all slices on axes <= 16 in the '
            'thorough tier). Parameters, not modelled code: the fading waveform/draw (theorems hold for every '
            'process; the harness replaces it by a scripted Gaussian-integer function of link/position/tap/antennas '
            'while all position bookkeeping stays the real code), sqrt of tap power and of path loss, np.fft.fft '
            '(theorems hold for every kernel; the path-loss clause in the frequency domain assumes the kernel is '
            'homogeneous, checked numerically together with shape and DFT values), the dB round trip of tap powers '
            '(compared at 1e-12). The multiuser frequency-domain clause is spelled out for SISO links (mu_freq_siso) and for MIMO '
            'links (mu_freq_mimo_spec: any number of receivers / transmitters, antenna counts per receiver and per '
            'transmitter - MuMimoChannel itself only builds equal counts -, both directions, per-link path loss, '
            'None / index array / slice, per-link fading schedule after any history; mu_freq_mimo_entry reads the '
            'flat position b*B+q, mu_freq_mimo_pathloss_factor pulls sqrt(pathloss) out of the FFT for a '
            'homogeneous kernel) and driven on real MuMimoChannel objects (2x1 and 1x2 links, fixed histories every '
            'run + random ones, branches fd:mu-mimo:*). Partial: a Python exception '
            'ends the modelled history; n = 0 transmissions, fft_size = 0, boolean / 2-D index arrays and unsorted '
            'hand-made profiles are outside model and correspondence; binary64 rounding is outside every theorem. '
            'Robustness classes: R1 (element types of signals, path loss, fft_size, index arrays, profile arrays) and '
            'R2 (non-contiguous / Fortran / strided / reversed views, size-0 signals, 1-D vs (1,n)) - the model is a '
            'function of the logical values only, so independence of dtype / layout is covered by the exact '
            'correspondence and the first-principles oracles, not by a theorem; R3 (inputs unchanged, earlier outputs '
            'unchanged, no aliasing) - model outputs are fresh values by construction, the real objects are checked by '
            'snapshots in correspondence and oracles; R4 (rejected calls) - theorems rejected_call_leaves_state, '
            'history_rejected_calls_removable, rejected_transmissions, tied by correspondence of histories that go on '
            'after every rejected call plus observables / twin-object oracle; R5 (path loss 0 / 1 / None, zero matrix '
            'entries, single tap, one symbol, fft_size 1, first / last carrier) - theorem pathloss_zero and the '
            'general theorems, plus correspondence / oracle witnesses; R6 (inputs scaled by 2^-40..2^40 exactly, '
            '1e-12..1e12 in the oracles, tolerances relative to the input scale) - the theorems are scale-free '
            '(linearity), code checked by correspondence / oracle; R7 (set_num_antennas incl. (None, None), '
            'user-called generate_impulse_response, repeated setters, shared profile / prototype generator) - '
            'theorems transmission_ignores_old_response, history_position, rest by correspondence / oracle. Sharing '
            'ONE stateful fading generator between two TdlChannels is not covered (the library hands out similar '
            'generators for that). '
            'Second robustness list: R8 (every constructor / method argument positionally and by keyword, defaults '
            'left out or given explicitly, profile object vs profile + Ts vs tap arrays + Ts, SuMimoChannel / '
            'TdlMimoChannel vs the plain classes, antennas at construction vs set_num_antennas, set_pathloss() / None '
            'incl. MuChannel) - theorems constructor_equals_setters, mu_clear_pathloss; forms covered by correspondence '
            '(exact for one 0 dB tap) and oracle; R9 (numpy integer / 0-d counts and link indexes: fft_size, '
            'num_samples, antenna counts, number of pairs, rx_idx / tx_idx) - logical values in the model, covered by '
            'correspondence / oracle; bool and negative indexes are not documented and not covered; R10 (per-transmitter '
            'LIST of arrays of mixed element types, 1-D next to 1 x N) - correspondence / oracle only; R11 (property reads, '
            '__repr__, get_freq_response, tap_values, scaling / concatenating / pickling a response, re-discretising) - '
            'model op `query` + theorem query_leaves_state, observables and twin object in the oracle; plot_* helpers are '
            'not driven (matplotlib show()); R12 applies only to the order in which the taps of a profile are listed - '
            'theorem discretize_order_independent, shuffled taps in correspondence and oracle; R13 (discretised child vs '
            'parent profile, scaled / concatenated responses, deep copies and pickles, continuing on a deep copy) - '
            'op `fork` (identity in the model), oracle derived-objects; deep copies of multiuser channels with Jakes '
            'links fail in fading_generators.py (known finding); R14 (257-tap profile, 257-link multiuser channel, '
            'fft_size 300 every quick run; 258 / 300 / 65537 taps in thorough) - all theorems are size-free. '
            'Third list (harness/props/c03_r1516.py): R15 (values that are close but different: path losses 1e-9 .. 5e-324 one after '
            'the other, path losses / sampling intervals differing by a relative 1e-6 .. 1e-9, adjacent binary64 values, values a '
            'hair outside [0, 1], tap powers down to -150 dB next to 0 dB, delays closer than 1e-8 s in different samples) - theorems '
            'pathloss_setter_takes_effect_for_every_new_value, pathloss_is_the_exact_value, pathloss_close_values_distinguished, '
            'mu_pathloss_entry_exact, discretize_keeps_every_tap, constructor_sampling_intervals_agree_exactly (model ctorTs of the '
            'comparisons in TdlChannel.__init__, tied by an exact correspondence on binary64 intervals); exact correspondence of '
            'histories with close path losses / tiny tap amplitudes and of dyadic close-value profiles; oracles against a twin object '
            'without path loss resp. with equal tap powers, every comparison relative to the value itself. Refusal of DIFFERENT '
            'sampling intervals is demanded only for relative differences >= 1e-7 (adjacent doubles are not generated as a pair). '
            'R16 (argument identity and buffer reuse: ONE signal array / list of arrays, ONE carrier index array / list, ONE path-loss '
            'matrix, ONE pair of tap arrays refilled in place between the calls of a history; arguments overwritten right after the '
            'call; one array as signal and carrier_indexes, as the signal of every transmitter, as tap_powers_dB and tap_delays; one '
            'response twice in concatenate_samples) - theorems earlier_results_independent_of_later_calls, '
            'refilled_buffer_history_eq_fresh_values (the model takes values; the caller-side buffer is spelled out in Su.runBuf); the '
            'real objects are driven with really refilled / overwritten / shared ndarrays in correspondence and oracle, plus a twin '
            'object that gets a fresh array for every argument. concatenate_samples insists on the SAME profile object (documented), '
            'so equal-content profiles are not interchangeable there - outside the property.',
}

SEEDMOD = 1 << 20


# --------------------------------------------------------------------------- scripted process
def proc_vals(seed, link, pos, i, r, t):
    """Gaussian integer of the scripted fading process (vectorised over numpy int64 arrays)."""
    z = seed + 7919 * link + 104729 * pos + 1299709 * i + 15485863 * r + 32452843 * t
    re = ((z * 48271) // 128) % 13 - 6
    im = ((z * 69621) // 8) % 11 - 5
    return re + 1j * im


class Script:
    def __init__(self, seed, first_link=0):
        self.seed = seed
        self.next_link = first_link

    def new_link(self):
        l = self.next_link
        self.next_link += 1
        return l

    def values(self, link, positions, shape):
        """array of shape `shape + (len(positions),)`; shape = (taps,) or (taps, nr, nt) or None"""
        positions = np.asarray(positions, dtype=np.int64)
        if shape is None or len(shape) == 0:
            return proc_vals(self.seed, link, positions, 0, 0, 0)
        if len(shape) == 1:
            i = np.arange(shape[0], dtype=np.int64)[:, None]
            return proc_vals(self.seed, link, positions[None, :], i, 0, 0)
        if len(shape) == 3:
            i = np.arange(shape[0], dtype=np.int64)[:, None, None, None]
            r = np.arange(shape[1], dtype=np.int64)[None, :, None, None]
            t = np.arange(shape[2], dtype=np.int64)[None, None, :, None]
            return proc_vals(self.seed, link, positions[None, None, None, :], i, r, t)
        # shapes used only before a TdlChannel installs its own (constructor draw)
        return np.zeros(tuple(shape) + (positions.size,), dtype=complex)


def _generators():
    from pyphysim.channels import fading_generators as fg

    class ScriptedRayleigh(fg.RayleighSampleGenerator):
        """RayleighSampleGenerator whose *draw* is scripted: sample number `pos` of the
        stream is proc(link, pos, ...); skip_samples_for_next_generation and the
        shape handling are the real code."""

        def __init__(self, script, shape=None, link=None):
            self._script = script
            self._link = script.new_link() if link is None else link
            self._pos = 0
            super().__init__(shape)

        def generate_more_samples(self, num_samples=None):
            n = 1 if num_samples is None else int(num_samples)
            v = self._script.values(self._link, np.arange(self._pos, self._pos + n), self.shape)
            self._pos += n
            self._samples = v[..., 0] if num_samples is None else v

        def get_similar_fading_generator(self):
            return ScriptedRayleigh(self._script, self._shape)

    class ScriptedJakes(fg.JakesSampleGenerator):
        """JakesSampleGenerator whose waveform h(t) is scripted as a function of the
        absolute sample index round(t / Ts); the time bookkeeping
        (_generate_time_samples, skip_samples_for_next_generation, _current_time)
        is the real code."""

        def __init__(self, script, Ts, shape=None, link=None):
            self._script = script
            self._link = script.new_link() if link is None else link
            super().__init__(Fd=5.0, Ts=Ts, L=4, shape=shape, RS=np.random.RandomState(0))   # (a module RS cannot be deep-copied)

        def generate_more_samples(self, num_samples=None):
            t = self._generate_time_samples(num_samples)
            pos = np.rint(np.asarray(t).reshape(-1) / self.Ts).astype(np.int64)
            self._samples = self._script.values(self._link, pos, self.shape)

        def get_similar_fading_generator(self):
            return ScriptedJakes(self._script, self._Ts, self._shape)

    return ScriptedRayleigh, ScriptedJakes


def scripted_fft(a, n=None, axis=-1):
    """exact integer-twiddle stand-in for np.fft.fft (same cropping / padding, same shape)"""
    a = np.moveaxis(np.asarray(a), axis, 0)
    N = a.shape[0] if n is None else int(n)
    if N < 1:
        raise ValueError('Invalid number of FFT data points (%d) specified.' % N)
    m = min(a.shape[0], N)
    k = np.arange(N, dtype=np.int64)[:, None]
    d = np.arange(m, dtype=np.int64)[None, :]
    tw = ((k * d) % N + 1) + 1j * ((k + 2 * d) % 3 - 1)
    out = np.tensordot(tw.astype(complex), a[:m].astype(complex), axes=(1, 0))
    return np.moveaxis(out, 0, axis)


class patched_fft:
    def __enter__(self):
        self.orig = np.fft.fft
        np.fft.fft = scripted_fft

    def __exit__(self, *a):
        np.fft.fft = self.orig


# --------------------------------------------------------------------------- canonical forms
def q2s(x):
    f = Fraction(float(x))
    return str(f.numerator) if f.denominator == 1 else '%d/%d' % (f.numerator, f.denominator)


def g2s(z):
    z = complex(z)
    return q2s(z.real) if z.imag == 0 else q2s(z.real) + '_' + q2s(z.imag)


def row2s(v):
    return ','.join(g2s(z) for z in np.asarray(v).reshape(-1))


def sig2s(y):
    y = np.asarray(y)
    if y.ndim == 1:
        return row2s(y)
    return ';'.join(row2s(r) for r in y)


def elem2s(e, scale=0):
    f = Fraction(2) ** scale

    def q(v):
        fr = Fraction(v) * f
        return str(fr.numerator) if fr.denominator == 1 else '%d/%d' % (fr.numerator, fr.denominator)
    return q(e[0]) if e[1] == 0 else q(e[0]) + '_' + q(e[1])


def xs2s(x, scale=0):
    """model signal (list of rows of [re, im], times 2**scale) -> protocol string"""
    return ';'.join(','.join(elem2s(e, scale) for e in row) for row in x)


def x2np(x, scale=0):
    """the LOGICAL value of a signal: complex128, C order, rows x n"""
    a = np.array([[complex(e[0], e[1]) for e in row] for row in x], dtype=complex).reshape(len(x), -1)
    return a * (2.0 ** scale) if scale else a


def ir2s(ir):
    sp = np.asarray(ir.tap_values_sparse)
    de = np.asarray(ir.tap_values)
    n = sp.shape[-1]
    mimo = sp.ndim == 4

    def cell(a):
        if not mimo:
            return row2s(a)
        return ';'.join('/'.join(row2s(a[r, t]) for t in range(a.shape[1])) for r in range(a.shape[0]))
    return 'ir:n=%d:d=%s:v=%s:D=%s' % (
        n, ','.join(str(int(d)) for d in ir.tap_indexes_sparse),
        '|'.join(cell(sp[i]) for i in range(sp.shape[0])),
        '|'.join(cell(de[j]) for j in range(de.shape[0])))


def sel2s(sel):
    if sel['kind'] == 'all':
        return 'all'
    if sel['kind'] == 'idx':
        return 'i=' + ','.join(str(i) for i in sel['idx'])
    return 's=' + '.'.join('N' if v is None else str(v) for v in sel['slice'])


def layout_view(a, layout):
    """R2: the same values in another memory layout (never C-contiguous unless layout == 'c')"""
    a = np.asarray(a)
    if layout == 'f':
        return np.asfortranarray(a)
    if layout == 'strided' and a.ndim >= 1:
        big = np.zeros(a.shape[:-1] + (2 * a.shape[-1],), dtype=a.dtype)
        big[..., ::2] = a
        return big[..., ::2]
    if layout == 'rev' and a.ndim >= 1:
        return np.ascontiguousarray(a[..., ::-1])[..., ::-1]
    if layout == 'rowstrided' and a.ndim >= 2:
        big = np.zeros((2 * a.shape[0],) + a.shape[1:], dtype=a.dtype)
        big[::2] = a
        return big[::2]
    if layout == 'T' and a.ndim == 2:
        return np.ascontiguousarray(a.T).T
    return np.ascontiguousarray(a)


def sel2py(sel):
    if sel['kind'] == 'all':
        return None
    if sel['kind'] == 'idx':
        dt = sel.get('dtype', 'int64')
        if dt == 'list' or not sel.get('as_array', True):
            return list(sel['idx'])
        return layout_view(np.array(sel['idx'], dtype=dt), sel.get('layout', 'c'))
    return slice(*sel['slice'])


def err2s(e):
    return 'error:' + type(e).__name__


# --------------------------------------------------------------------------- scenario -> line / impl
def case_line(case):
    ant = '0' if case['ant'] is None else '%dx%d' % tuple(case['ant'])
    head = '%s seed=%d jakes=%d ant=%s delays=%s amps=%s' % (
        'mu' if case['level'] == 'mu' else 'su', case['seed'], 1 if case['jakes'] else 0, ant,
        ','.join(str(d) for d in case['delays']), ','.join(case['amps']))
    if case['level'] == 'mu':
        head += ' nrx=%d ntx=%d' % (case['nrx'], case['ntx'])
    else:
        head += ' link=%d' % case['link']
    mu = case['level'] == 'mu'
    toks = []
    for op in case['ops']:
        k = op['op']
        if k == 'ir':
            toks.append('ir')
        elif k == 'sw':
            toks.append('sw:%d' % (1 if op['v'] else 0))
        elif k == 'swbad':
            toks.append('reject:TypeError')
        elif k == 'plbad':
            toks.append('reject:ValueError')
        elif k == 'pl':
            if mu:
                toks.append('pl:none' if op['s'] is None else 'pl:' + ';'.join(','.join(r) for r in op['s']))
            else:
                toks.append('pl:' + ('none' if op['s'] is None else op['s']))
        elif k == 'setant':
            toks.append('setant:' + ('0' if op['ant'] is None else '%dx%d' % tuple(op['ant'])))
        elif k == 'gen':
            toks.append('gen:%d' % op['n'])
        elif k in ('query', 'fork'):
            toks.append('q')
        elif k in ('tx', 'fx'):
            sc = op.get('scale', 0)
            xs = '|'.join(xs2s(x, sc) for x in op['x']) if mu else xs2s(op['x'], sc)
            toks.append('tx:' + xs if k == 'tx' else 'fx:%d:%s:%s' % (op['fft'], sel2s(op['sel']), xs))
    return head + ' ' + ' '.join(toks)


def profile_arrays(case, powers_dB):
    """R1 / R2 on the profile arrays: integer / float32 dtypes and strided views where exact"""
    Ts = case['Ts']
    d = np.array(case['delays'], dtype=float) * Ts
    p = np.array(powers_dB, dtype=float)
    pd = case.get('prof_dtype')
    if pd == 'int' and Ts == 1.0:
        d = np.array(case['delays'], dtype=np.int64)
        if np.all(p == np.round(p)):
            p = p.astype(np.int32)
    elif pd == 'float32' and Ts in (1.0, 0.5, 0.25):
        d = d.astype(np.float32)
    if case.get('prof_layout') == 'strided':
        d, p = layout_view(d, 'strided'), layout_view(p, 'strided')
    return p, d


def build_profile(case, held=None):
    """discretised profile with exact (perfect-square) linear powers"""
    from pyphysim.channels import fading
    Ts = case['Ts']
    p0, d0 = profile_arrays(case, np.zeros(len(case['delays'])))
    if held is not None:
        held += [p0, d0]
    keep = (p0.copy(), d0.copy())
    prof = fading.TdlChannelProfile(p0, d0).get_discretize_profile(Ts)
    assert np.array_equal(p0, keep[0]) and np.array_equal(d0, keep[1]), 'profile arrays modified'
    amps = np.array([float(Fraction(a)) for a in case['amps']])
    assert list(prof.tap_delays) == list(case['delays']), (prof.tap_delays, case['delays'])
    p = amps ** 2
    p.flags['WRITEABLE'] = False
    prof._tap_powers_linear = p
    return prof


def np_int(v, t):
    """R9: an index / count in the given integer representation"""
    if t in (None, 'int'):
        return int(v)
    if t == 'arr0d':
        return np.array(int(v))
    return getattr(np, t)(int(v))


def build_channel(case):
    """R16 (`prof_scribble`): the caller overwrites the tap arrays it built the profile / channel from as soon
    as the constructor has returned - the object must live on the values it was given"""
    held = []
    ch = _build_channel(case, held)
    if case.get('prof_scribble'):
        for a in held:
            if not scribble(a):
                raise AssertionError('the constructor made the caller\'s tap array read-only')
    return ch


def _build_channel(case, held):
    """the real object of a scenario.  `real` scenarios use the untouched generators and a dB profile,
    the others scripted fading and perfect-square powers.  R8: the constructor arguments are given
    positionally or by keyword, as a discretised profile object / a profile object plus Ts / tap arrays
    plus Ts, through the convenience classes (SuMimoChannel, TdlMimoChannel) or the plain ones."""
    from pyphysim.channels import fading, fading_generators as fg, singleuser, multiuser
    Ts = case['Ts']
    ant = case['ant']
    real = bool(case.get('real'))
    form = case.get('ctor', 'profile')
    kw = bool(case.get('ctor_kw'))
    if real:
        np.random.seed(case['npseed'])
        p0, d0 = profile_arrays(case, case['powers_dB'])
        held += [p0, d0]
        prof = fading.TdlChannelProfile(p0, d0)
        if form == 'profile' and case.get('prediscretized', True):
            prof = prof.get_discretize_profile(Ts)

        def newgen(shape):
            if case['jakes']:
                return fg.JakesSampleGenerator(Fd=case.get('Fd', 30.0), Ts=Ts, L=case.get('L', 8), shape=shape,
                                               RS=np.random.RandomState(case['npseed']))
            return fg.RayleighSampleGenerator(shape=shape)
    else:
        ScriptedRayleigh, ScriptedJakes = _generators()
        if form == 'profile':
            prof = build_profile(case, held)
        else:
            assert case['amps'] == ['1'] and len(case['delays']) == 1, 'exact only for one 0 dB tap'
            p0, d0 = profile_arrays(case, np.zeros(1))
            held += [p0, d0]
            prof = fading.TdlChannelProfile(p0, d0)
        script = Script(case['seed'], first_link=-1 if case['level'] == 'mu' else case['link'])

        def newgen(shape):
            return ScriptedJakes(script, Ts, shape=shape) if case['jakes'] else ScriptedRayleigh(script, shape=shape)
    # the profile part of the argument list
    tsarg = None if (case['jakes'] and not case.get('ts_explicit')) or (form == 'profile' and prof.is_discretized
                                                                         and not case.get('ts_explicit')) else Ts
    if form == 'arrays':
        pa, da = (p0, d0)
        prof_pos, prof_kw = (None, pa, da, tsarg), {'tap_powers_dB': pa, 'tap_delays': da, 'Ts': tsarg}
    else:
        prof_pos, prof_kw = (prof, None, None, tsarg), {'channel_profile': prof, 'Ts': tsarg}
    if case.get('ctor_omit_defaults') and form != 'arrays' and tsarg is None:
        prof_pos, prof_kw = (prof,), {'channel_profile': prof}

    def make(cls, first_pos, first_kw):
        return cls(**dict(first_kw, **prof_kw)) if kw else cls(*(first_pos + prof_pos))
    if case['level'] == 'mu':
        gen = newgen(None)          # the prototype (scripted: link -1); links get similar generators
        N = (np_int(case['nrx'], case.get('n_type')), np_int(case['ntx'], case.get('n_type')))
        if case['nrx'] == case['ntx'] and case.get('n_as_int'):
            N = np_int(case['nrx'], case.get('n_type'))
        if ant is None:
            ch = make(multiuser.MuChannel, (N, gen), {'N': N, 'fading_generator': gen})
        else:
            a0, a1 = np_int(ant[0], case.get('ant_type')), np_int(ant[1], case.get('ant_type'))
            ch = make(multiuser.MuMimoChannel, (N, a0, a1, gen),
                      {'N': N, 'num_rx_antennas': a0, 'num_tx_antennas': a1, 'fading_generator': gen})
        ch._verif_proto = gen
        return ch
    wrapper = bool(case.get('wrapper')) and ant is not None and not case.get('late_ant')
    if wrapper and case['level'] == 'su' and ant[0] == ant[1]:
        gen = newgen(None)
        na = np_int(ant[0], case.get('ant_type'))
        return make(singleuser.SuMimoChannel, (na, gen), {'num_antennas': na, 'fading_generator': gen})
    shape = None if (ant is None or case.get('late_ant')) else tuple(ant)
    gen = newgen(shape)
    if case['level'] == 'tdl':
        cls = fading.TdlMimoChannel if (wrapper and shape is not None) else fading.TdlChannel
        ch = make(cls, (gen,), {'fading_generator': gen})
    else:
        ch = make(singleuser.SuChannel, (gen,), {'fading_generator': gen})
    if ant is not None and case.get('late_ant'):
        a0, a1 = np_int(ant[0], case.get('ant_type')), np_int(ant[1], case.get('ant_type'))
        if kw:
            ch.set_num_antennas(num_rx_antennas=a0, num_tx_antennas=a1)
        else:
            ch.set_num_antennas(a0, a1)
    return ch


def cast_signal(a, dtype):
    """R1: the same values in another element type (the generator only asks for exact casts)"""
    if dtype in (None, 'complex128'):
        return a
    if dtype.startswith('complex'):
        return a.astype(dtype)
    return a.real.astype(dtype)


def make_signal(case, op):
    """the array handed to the real code for a transmission (R1 dtype, R2 layout, R6 scale, 1-D / 2-D)"""
    mu = case['level'] == 'mu'
    siso = op.get('siso', case['ant'] is None)
    sc = op.get('scale', 0)

    def one(x):
        a = cast_signal(x2np(x, sc), op.get('dtype'))
        if siso:
            return a.reshape(-1) if a.shape[0] == 1 else a        # a malformed SISO signal stays 2-D
        if op.get('as1d') and a.shape[0] == 1:
            return a[0]
        return a
    if not mu:
        return layout_view(one(op['x']), op.get('layout', 'c'))
    parts = [one(x) for x in op['x']]
    if op.get('hetero'):
        # R10: a list whose elements differ in element type (and 1-D next to (1, n) for one-antenna streams)
        out = []
        for i, (x, a) in enumerate(zip(op['x'], parts)):
            els = all_elems(x)
            realv = all(e[1] == 0 for e in els)
            cands = ['complex128', 'complex64'] + (['float64', 'float32'] + (['int16', 'int64'] if sc == 0 else [])
                                                  if realv else [])
            a = cast_signal(x2np(x, sc), cands[(i + op.get('hetero_rot', 0)) % len(cands)])
            if siso:
                a = a.reshape(-1)
            elif a.shape[0] == 1 and (i + op.get('hetero_rot', 0)) % 2 == 0:
                a = a[0]
            out.append(layout_view(a, op.get('layout', 'c')) if i % 2 else a)
        return out
    sig = np.array(parts) if parts else np.zeros((0, 0))
    if siso and sig.ndim == 2 and sig.shape[0] == 1 and op.get('as1d'):
        sig = sig[0]
    return layout_view(sig, op.get('layout', 'c'))


def make_pl(op):
    """R1 / R5: the path loss value in several element types; `s` is its exact square root"""
    if op.get('p') is not None:
        return op['p']
    if op['s'] is None:
        return None
    p = float(Fraction(op['s']) ** 2)
    t = op.get('pltype')
    if t == 'int':
        return int(p)
    if t in ('int8', 'uint8', 'int16', 'int64'):
        return getattr(np, t)(int(p))
    if t in ('float32', 'float16'):
        return getattr(np, t)(p)
    if t == 'arr0d':
        return np.array(p)
    return p


def make_plmatrix(op):
    if op.get('p') is not None:
        return np.array(op['p'], dtype=float)
    m = np.array([[float(Fraction(v) ** 2) for v in r] for r in op['s']])
    dt = op.get('pldtype')
    if dt == 'int':
        m = m.astype(np.int64)
    elif dt == 'float32':
        m = m.astype(np.float32)
    return layout_view(m, op.get('pllayout', 'c'))


def make_fft(op):
    t = op.get('fft_type')
    return getattr(np, t)(op['fft']) if t else op['fft']


R16KEYS = ('buf', 'idxbuf', 'scribble', 'alias')


def same_kind(o, n):
    return (isinstance(o, np.ndarray) and isinstance(n, np.ndarray) and o.shape == n.shape and o.dtype == n.dtype
            and o.strides == n.strides and o.flags['WRITEABLE'])


def scribble(a):
    """R16: what a caller may do with ITS array once the call has returned (other, still plausible values);
    False when the call has frozen the caller's array"""
    if isinstance(a, (list, tuple)):
        if isinstance(a, list) and a and all(isinstance(v, int) for v in a):
            a[:] = [0 if any(a) else 1] * len(a)
            return True
        return all([scribble(v) for v in a])
    if not isinstance(a, np.ndarray) or not a.size:
        return True
    if not a.flags['WRITEABLE']:
        return False
    if np.issubdtype(a.dtype, np.integer):
        a[...] = 0 if a.any() else 1
    else:
        a[...] = 0.375 if float(np.max(np.abs(a))) <= 1.0 else 7.25e7
    return True


class Rec:
    """R3 bookkeeping: snapshots of every array passed in, and of every array handed back.
    R16 bookkeeping: the caller's long-lived argument buffers (`bufs`), refilled in place between calls."""

    def __init__(self):
        self.inputs, self.outputs = [], []
        self.bufs, self.early, self.refills = {}, [], 0

    def passing(self, what, a):
        if isinstance(a, np.ndarray):
            self.inputs.append((what, a, a.copy(), a.dtype, a.strides))
        return a

    def reuse(self, key, a):
        """R16: the caller keeps ONE object per argument and refills it in place (`buf[...] = new`) before
        each call; a new one is allocated only when shape / element type / layout change"""
        old = self.bufs.get(key)
        if isinstance(a, list):
            if isinstance(old, list) and len(old) == len(a):
                if all(isinstance(v, int) for v in a) and all(isinstance(v, int) for v in old):
                    old[:] = a
                    self.refills += 1
                    return old
                if all(same_kind(o, n) for o, n in zip(old, a)):
                    for o, n in zip(old, a):
                        o[...] = n
                    self.refills += 1
                    return old
            self.bufs[key] = a
            return a
        if same_kind(old, a):
            old[...] = a
            self.refills += 1
            return old
        self.bufs[key] = a
        return a

    def settle(self, volatile):
        """after a call: arguments the caller is going to overwrite are compared with their snapshots NOW
        (the others stay pending until the end of the history)"""
        if not volatile:
            return
        pending, self.inputs = self.inputs, []
        for what, a, snap, dt, st in pending:
            if a.dtype != dt or a.shape != snap.shape or not np.array_equal(a, snap):
                self.early.append('input-modified:' + what)

    def returned(self, what, a, against=()):
        for arr in (a if isinstance(a, (list, tuple)) or (isinstance(a, np.ndarray) and a.dtype == object) else [a]):
            arr = np.asarray(arr)
            for inp in against:
                if isinstance(inp, np.ndarray) and inp.size and arr.size and np.shares_memory(arr, inp):
                    return 'output-aliases-input:' + what
            self.outputs.append((what, arr, arr.copy()))
        return None

    def violations(self):
        out = list(self.early)
        for what, a, snap, dt, st in self.inputs:
            if a.dtype != dt or a.shape != snap.shape or not np.array_equal(a, snap):
                out.append('input-modified:' + what)
        for what, a, snap in self.outputs:
            if a.shape != snap.shape or not np.array_equal(a, snap, equal_nan=True):
                out.append('earlier-output-changed:' + what)
        return out


def links_of(ch, case):
    if case['level'] == 'tdl':
        return [(ch, None)]
    if case['level'] == 'su':
        return [(ch._tdlchannel, ch)]
    return [(su._tdlchannel, su) for su in ch._su_siso_channels.reshape(-1)]


def observe(ch, case):
    """R4: everything a caller can see of the object (and the position of its fading generators)"""
    obs = []
    for tdl, su in links_of(ch, case):
        g = tdl._fading_generator
        ir = tdl._last_impulse_response
        obs.append((None if ir is None else (id(ir), np.asarray(ir.tap_values_sparse).tobytes()),
                    tdl.switched_direction, tuple(g.shape), getattr(g, '_current_time', None),
                    getattr(g, '_pos', None), None if su is None else repr(su._pathloss_value)))
    if case['level'] == 'mu':
        obs.append(None if ch.pathloss_matrix is None else np.asarray(ch.pathloss_matrix).tobytes())
    if case.get('real') and not case['jakes']:
        st = np.random.get_state()
        obs.append((st[1][:8].tobytes(), st[2]))
    return obs


def run_queries(ch, case, op):
    """R11 / R13: calls that are documented as reads - none of them may change the object or any later result"""
    import pickle
    mu = case['level'] == 'mu'
    tdl0, su0 = links_of(ch, case)[0]
    if mu:
        repr(ch)
        ch.pathloss_matrix
    for obj in ([ch] if not mu else [ch, su0]):
        obj.num_taps
        obj.num_taps_with_padding
        obj.num_tx_antennas
        obj.num_rx_antennas
        obj.switched_direction
        prof = obj.channel_profile
    repr(prof)
    (prof.name, prof.tap_powers_dB, prof.tap_powers_linear, prof.tap_delays, prof.num_taps, prof.Ts,
     prof.is_discretized, prof.mean_excess_delay, prof.rms_delay_spread, prof.num_taps_with_padding)
    pickle.loads(pickle.dumps(prof))
    try:
        prof.get_discretize_profile(prof.Ts)          # already discretised: must be refused, nothing changed
    except RuntimeError:
        pass
    try:
        ir = ch.get_last_impulse_response(0, 0) if mu else ch.get_last_impulse_response()
    except RuntimeError:
        return
    from pyphysim.channels import fading
    ir.get_freq_response(op.get('qfft', 4))
    (ir.tap_values, ir.tap_values_sparse, ir.tap_indexes_sparse, ir.tap_delays_sparse, ir.Ts, ir.num_samples,
     ir.channel_profile)
    child = 2.0 * ir                                   # R13: a derived response
    child2 = ir * 0.5
    np.asarray(child.tap_values_sparse)[...] = 7.0     # mutate the child, the parent must not notice
    fading.TdlImpulseResponse.concatenate_samples([ir, child2])
    fading.TdlImpulseResponse.concatenate_samples([ir])
    pickle.loads(pickle.dumps(child2)).tap_values


def apply_op(ch, case, op, rec, patched):
    """one operation on the real object; returns ('y', array) | ('ir', [responses]) | ('ok',) |
    ('fork', new object).  R8: `kw` gives the arguments by keyword, `omit` leaves defaulted ones out.
    R16: `buf` / `idxbuf` hand over the caller's long-lived buffer refilled in place, `alias` one object in
    two roles, `scribble` overwrites the caller's arrays as soon as the call has returned."""
    held = []           # the caller's array / list objects this call hands to the library
    try:
        return _apply_op(ch, case, op, rec, patched, held)
    finally:
        rec.settle(any(op.get(f) for f in R16KEYS))
        if op.get('scribble'):
            for what, a in held:
                if not scribble(a):
                    rec.early.append('input-modified:%s:made-read-only' % what)


def _apply_op(ch, case, op, rec, patched, held):
    k = op['op']
    mu = case['level'] == 'mu'
    kw = bool(op.get('kw'))
    if k == 'ir':
        if mu:
            it = op.get('idx_type')
            irs = []
            for r in range(case['nrx']):
                for t in range(case['ntx']):
                    ri, ti = np_int(r, it), np_int(t, it)
                    irs.append(ch.get_last_impulse_response(rx_idx=ri, tx_idx=ti) if kw
                               else ch.get_last_impulse_response(ri, ti))
        else:
            irs = [ch.get_last_impulse_response()]
        for ir in irs:
            rec.returned('impulse-response', ir.tap_values_sparse)
        return ('ir', irs)
    if k == 'query':
        run_queries(ch, case, op)
        return ('ok',)
    if k == 'fork':
        import copy
        return ('fork', copy.deepcopy(ch))
    if k in ('sw', 'swbad'):
        ch.switched_direction = bool(op['v']) if k == 'sw' else op['v']
        return ('ok',)
    if k in ('pl', 'plbad'):
        if mu:
            v = None
            if not (op.get('s') is None and op.get('p') is None):
                v = make_plmatrix(op)
                if op.get('buf'):
                    v = rec.reuse('pl', v)
                held.append(('pathloss-matrix', rec.passing('pathloss-matrix', v)))
            if kw:
                ch.set_pathloss(pathloss_matrix=v)
            else:
                ch.set_pathloss(v)
        else:
            v = make_pl(op)
            if v is None and op.get('omit'):
                ch.set_pathloss()
            elif kw:
                ch.set_pathloss(pathloss_value=v)
            else:
                ch.set_pathloss(v)
        return ('ok',)
    if k == 'setant':
        a = op['ant']
        a = (None, None) if a is None else (np_int(a[0], op.get('ant_type')), np_int(a[1], op.get('ant_type')))
        if kw:
            ch.set_num_antennas(num_rx_antennas=a[0], num_tx_antennas=a[1])
        else:
            ch.set_num_antennas(*a)
        return ('ok',)
    if k == 'gen':
        n = np_int(op['n'], op.get('n_type'))
        if op['n'] == 1 and op.get('omit'):
            ch.generate_impulse_response()
        elif kw:
            ch.generate_impulse_response(num_samples=n)
        else:
            ch.generate_impulse_response(n)
        return ('ok',)
    sig = make_signal(case, op)
    if op.get('alias') == 'sources-share-array' and mu and len(sig) and (isinstance(sig, list) or sig.ndim >= 2):
        sig = [sig[0] for _ in range(len(sig))]           # ONE array object as the signal of every source
    if op.get('buf'):
        sig = rec.reuse('sig', sig)
    held.append(('signal', sig))
    if isinstance(sig, list):
        for a in sig:
            rec.passing('signal', a)
    else:
        rec.passing('signal', sig)
    if k == 'tx':
        y = ch.corrupt_data(signal=sig) if kw else ch.corrupt_data(sig)
        against = tuple(sig) if isinstance(sig, list) else (sig,)
    else:
        idx = sel2py(op['sel'])
        if op.get('alias') == 'signal-is-index-array':
            idx = sig                                       # ONE integer array: the symbols and the carriers
        elif op.get('idxbuf') and isinstance(idx, (np.ndarray, list)):
            idx = rec.reuse('idx', idx)
        held.append(('carrier-indexes', idx))
        rec.passing('carrier-indexes', idx)
        fft = make_fft(op)

        def call():
            if idx is None and op.get('omit'):
                return (ch.corrupt_data_in_freq_domain(signal=sig, fft_size=fft) if kw
                        else ch.corrupt_data_in_freq_domain(sig, fft))
            if kw:
                return ch.corrupt_data_in_freq_domain(signal=sig, fft_size=fft, carrier_indexes=idx)
            return ch.corrupt_data_in_freq_domain(sig, fft, idx)
        if patched:
            with patched_fft():
                y = call()
        else:
            y = call()
        against = (tuple(sig) if isinstance(sig, list) else (sig,)) + (idx,)
    alias = rec.returned('received-signal', y, against)
    if alias:
        rec.inputs.append((alias, np.zeros(1), np.ones(1), float, None))      # reported by violations()
    return ('y', y)


def result_token(case, res):
    if res[0] in ('ok', 'fork'):
        return 'ok'
    if res[0] == 'ir':
        return ' & '.join(ir2s(ir) for ir in res[1])
    y = res[1]
    if case['level'] == 'mu':
        return 'y=' + '|'.join(sig2s(v) for v in y)
    return 'y=' + sig2s(y)


def run_impl(case):
    """drive the real objects through the whole history (a rejected call does not end it: R4);
    returns the reply tokens in the driver's format; R3 violations are appended as extra tokens.
    Whatever the library raises becomes a token (a changed tree must give a verdict, not a harness error)."""
    try:
        ch = build_channel(case)
    except Exception as e:      # noqa
        return ['error:constructor:' + type(e).__name__]
    rec = Rec()
    out = []
    for op in case['ops']:
        try:
            res = apply_op(ch, case, op, rec, True)
            if res[0] == 'fork':
                ch = res[1]             # R13: go on with the deep copy; the original is dropped
            out.append(result_token(case, res))
        except Exception as e:      # noqa
            out.append(err2s(e))
    out += ['R3:' + v for v in rec.violations()]
    return out


# --------------------------------------------------------------------------- generators of cases
AMPS = ['1', '2', '3', '1/2', '3/2', '1/4', '1', '1']
PLS = ['1', '1/2', '1/4', '3/4', '1/8', '0', '1/1048576', '1']
TS_CHOICES = [1.0, 0.5, 0.25, 1e-3, 3.25e-8, 1e-9, 1024.0]
SCALES = [0, 0, 0, -40, -20, 20, 40]
FFT_TYPES = [None, None, None, 'int8', 'uint8', 'int16', 'uint16', 'int32', 'int64']
NP_INTS = ['int8', 'uint8', 'int16', 'uint16', 'int32', 'int64', 'intp', 'arr0d']


def gen_signal(rng, rows, n, lim=4, real=False):
    return [[[rng.randint(-lim, lim), 0 if real else rng.randint(-lim, lim)] for _ in range(n)] for _ in range(rows)]


def gen_sel(rng, fft):
    """returns (sel, true block size or None when the selection itself is an error)"""
    k = rng.below(10)
    if k < 2:
        return {'kind': 'all'}, fft
    if k < 5:
        ln = rng.randint(0 if rng.chance(0.05) else 1, min(fft + 2, 9))
        lo = -fft if rng.chance(0.4) else 0
        idx = [rng.randint(lo, fft - 1) for _ in range(ln)]
        if rng.chance(0.25) and ln:                      # R5: first / last carrier
            idx[rng.below(ln)] = rng.choice([0, fft - 1, -1, -fft])
        bad = False
        if rng.chance(0.08) and ln:
            idx[rng.below(ln)] = rng.choice([fft, fft + 1, -fft - 1])
            bad = True
        sel = {'kind': 'idx', 'idx': idx, 'as_array': rng.chance(0.7)}
        cands = ['int64', 'int64', 'int32', 'int16', 'list']
        if all(-128 <= i < 128 for i in idx):
            cands.append('int8')
        if all(0 <= i < 256 for i in idx):
            cands.append('uint8')
        sel['dtype'] = rng.choice(cands)
        sel['layout'] = rng.choice(['c', 'c', 'strided', 'rev'])
        return sel, (None if bad else ln)
    lim = fft + 3

    def ov():
        return None if rng.chance(0.3) else rng.randint(-lim, lim)
    step = None if rng.chance(0.25) else rng.choice([1, 1, 2, 2, 3, 3, 4, 5, 7, -1, -1, -2, -3, -4])
    if rng.chance(0.03):
        step = 0
    sl = [ov(), ov(), step]
    if step == 0:
        return {'kind': 'slice', 'slice': sl}, None
    for _ in range(6):       # mostly non-empty selections (an empty one is just a ZeroDivisionError)
        if len(range(*slice(*sl).indices(fft))) > 0 or rng.chance(0.1):
            break
        sl = [ov(), ov(), step]
    return {'kind': 'slice', 'slice': sl}, len(range(*slice(*sl).indices(fft)))


def gen_delays(rng, maxd):
    k = rng.randint(1, 4)
    ds = sorted({rng.randint(0, maxd) for _ in range(k)})
    if rng.chance(0.6) and 0 not in ds:
        ds = [0] + ds
    return ds


def all_elems(x):
    """every [re, im] element of a (possibly nested per-source) signal"""
    if isinstance(x, list) and len(x) == 2 and all(isinstance(v, int) for v in x):
        return [x]
    out = []
    for v in x:
        out += all_elems(v)
    return out


def signal_variants(rng, op, real, n):
    """R1 / R2 / R6 decoration of a transmission"""
    sc = rng.choice(SCALES)
    op['scale'] = sc
    cands = ['complex128', 'complex128', 'complex64']
    if real:
        cands += ['float64', 'float32']
        if sc == 0:
            cands += ['float16', 'int8', 'int16', 'int32', 'int64']
            if all(e[0] >= 0 for e in all_elems(op['x'])):
                cands.append('uint8')
    op['dtype'] = rng.choice(cands)
    op['layout'] = rng.choice(['c', 'c', 'f', 'strided', 'rev', 'rowstrided'])
    op['real'] = real


def gen_ops(rng, case, nops, quick=True):
    """a history: transmissions in both domains, every public mutator, rejected calls in between"""
    ops = []
    level = case['level']
    mu = level == 'mu'
    ant = case['ant']
    sw = False
    if rng.chance(0.12):
        ops.append({'op': 'ir', 'expect': 'reject'})           # nothing transmitted yet: RuntimeError
    for _ in range(nops):
        k = rng.below(24)
        if k == 0:
            sw = not sw if rng.chance(0.8) else sw
            ops.append({'op': 'sw', 'v': sw})
            continue
        if k == 1 and rng.chance(0.5):
            ops.append({'op': 'swbad', 'v': rng.choice([1, 0, 'yes']), 'expect': 'reject'})
            continue
        if k in (2, 3) and level in ('su', 'mu'):
            if mu and rng.chance(0.12):
                ops.append({'op': 'pl', 's': None, 'kw': rng.chance(0.4)})          # set_pathloss(None)
                continue
            if mu:
                m = [[rng.choice(PLS) for _ in range(case['ntx'])] for _ in range(case['nrx'])]
                op = {'op': 'pl', 's': m, 'pllayout': rng.choice(['c', 'f', 'T', 'strided', 'rowstrided']),
                      'kw': rng.chance(0.4)}
                if all(v in ('0', '1') for r in m for v in r):
                    op['pldtype'] = rng.choice(['int', 'float64'])
                elif all(Fraction(v).denominator <= 1024 for r in m for v in r):
                    op['pldtype'] = rng.choice(['float32', 'float64', 'float64'])
                ops.append(op)
            else:
                s = None if rng.chance(0.15) else rng.choice(PLS)
                op = {'op': 'pl', 's': s, 'kw': rng.chance(0.4), 'omit': rng.chance(0.5)}
                if s in ('0', '1'):
                    op['pltype'] = rng.choice([None, 'int', 'int8', 'uint8', 'int64', 'float32', 'float16', 'arr0d'])
                elif s is not None and s != '1/1048576':
                    op['pltype'] = rng.choice([None, None, 'float32', 'float16', 'arr0d'])
                ops.append(op)
            continue
        if k == 4 and level in ('su', 'mu') and rng.chance(0.5):
            bad = rng.choice([-0.25, 1.5, -1e-9, 2])
            if mu:
                m = [[0.5 for _ in range(case['ntx'])] for _ in range(case['nrx'])]
                m[rng.below(case['nrx'])][rng.below(case['ntx'])] = bad
                ops.append({'op': 'plbad', 'p': m, 'expect': 'reject'})
            else:
                ops.append({'op': 'plbad', 'p': bad, 'expect': 'reject'})
            continue
        if k == 5 and level in ('tdl', 'su') and rng.chance(0.7):
            ant = None if rng.chance(0.3) else [rng.randint(1, 3), rng.randint(1, 3)]
            ops.append({'op': 'setant', 'ant': ant, 'kw': rng.chance(0.4), 'ant_type': rng.choice([None] + NP_INTS)})
            continue
        if k == 6 and level == 'tdl' and rng.chance(0.6):
            ops.append({'op': 'gen', 'n': rng.randint(1, 5), 'kw': rng.chance(0.4), 'omit': rng.chance(0.5),
                        'n_type': rng.choice([None] + NP_INTS)})
            ops.append({'op': 'ir'})
            continue
        if k == 7 and rng.chance(0.8):
            ops.append({'op': 'query', 'qfft': rng.randint(1, 9)})
            continue
        if k == 8 and rng.chance(0.35):
            ops.append({'op': 'fork'})
            continue
        # a transmission
        siso = ant is None
        rows = 1 if siso else (ant[0] if sw else ant[1])
        nsrc = (case['nrx'] if sw else case['ntx']) if mu else 1
        real = rng.chance(0.3)
        expect = 'ok'
        cls = None
        bad_shape = rng.chance(0.1)
        use_rows, use_src = rows, nsrc
        if bad_shape:
            if mu and rng.chance(0.5):
                use_src = nsrc + rng.choice([1, -1]) if nsrc > 1 else nsrc + 1
                cls = 'wrong-source-count'
            elif not siso:
                use_rows = rows + 1 if (rows == 1 or rng.chance(0.5)) else rows - 1
                cls = 'wrong-row-count'
            else:
                bad_shape = False
            if bad_shape:
                expect = 'reject'
        op = {'siso': siso, 'as1d': rng.chance(0.5), 'expect': expect, 'kw': rng.chance(0.35),
              'omit': rng.chance(0.5)}
        if k < 15:
            n = 0 if rng.chance(0.04) else rng.randint(1, 10 if quick else 24)
            xs = [gen_signal(rng, use_rows, n, real=real) for _ in range(use_src)]
            op.update({'op': 'tx', 'x': xs if mu else xs[0]})
        else:
            fft = rng.randint(1, 16) if rng.chance(0.7) else rng.choice([1, 2, 3, 4, 5, 7, 8, 9, 15, 16, 17, 25, 31, 32, 33])
            sel, B = gen_sel(rng, fft)
            if B is None or B == 0:
                n = rng.randint(1, 6)
                expect = 'reject'
                cls = cls or ('bad-selection' if B is None else 'empty-selection')
            else:
                n = B * rng.randint(1, 3)
                if rng.chance(0.08):
                    if rng.chance(0.3):
                        n = 0
                    else:
                        n += rng.randint(1, max(1, B - 1)) if B > 1 else 0
                    if n % B != 0 or n == 0:
                        expect = 'reject'
                        cls = cls or 'bad-length'
            xs = [gen_signal(rng, use_rows, n, real=real) for _ in range(use_src)]
            op.update({'op': 'fx', 'fft': fft, 'sel': sel, 'x': xs if mu else xs[0], 'expect': expect,
                       'fft_type': rng.choice(FFT_TYPES)})
            if op['fft_type'] == 'int8' and fft > 127:
                op['fft_type'] = 'int16'
            if mu and expect == 'ok' and rng.chance(0.35):
                op['hetero'] = True                      # R10: a list of per-transmitter arrays of mixed types
                op['hetero_rot'] = rng.below(4)
                for row in op['x'][0]:                   # the first transmitter sends real values
                    for e in row:
                        e[1] = 0
        if cls:
            op['reject_class'] = cls
        signal_variants(rng, op, real, n)
        ops.append(op)
        ops.append({'op': 'ir', 'expect': 'any', 'kw': rng.chance(0.4), 'idx_type': rng.choice([None] + NP_INTS)})
    return ops


def gen_case(rng, level, quick=True):
    jakes = rng.chance(0.5)
    ant = None
    if rng.chance(0.55):
        ant = [rng.randint(1, 3), rng.randint(1, 3)]
    delays = gen_delays(rng, 6 if quick else 9)
    case = {'level': level, 'seed': rng.below(SEEDMOD), 'jakes': jakes, 'ant': ant, 'delays': delays,
            'amps': [rng.choice(AMPS) for _ in delays], 'Ts': rng.choice(TS_CHOICES),
            'late_ant': rng.chance(0.3), 'prof_dtype': rng.choice([None, None, 'int', 'float32']),
            'prof_layout': rng.choice(['c', 'c', 'strided'])}
    if level == 'mu':
        case['nrx'] = rng.randint(1, 3)
        case['ntx'] = rng.randint(1, 3)
        case['n_as_int'] = rng.chance(0.5)
        if ant is not None and rng.chance(0.5):
            case['ant'] = [rng.randint(1, 2), rng.randint(1, 2)]
    else:
        case['link'] = rng.below(50)
    # R8 / R9: how the object is built
    case['ctor_kw'] = rng.chance(0.4)
    case['ctor_omit_defaults'] = rng.chance(0.5)
    case['ts_explicit'] = rng.chance(0.3)
    case['wrapper'] = rng.chance(0.5)
    case['n_type'] = rng.choice([None, None] + NP_INTS[:-1])
    case['ant_type'] = rng.choice([None, None] + NP_INTS[:-1])
    if rng.chance(0.22):
        # one 0 dB tap: exact whatever way the profile is handed over
        case['delays'] = [rng.randint(0, 5)]
        case['amps'] = ['1']
        case['ctor'] = rng.choice(['profile+Ts', 'arrays', 'profile'])
    case['ops'] = gen_ops(rng, case, rng.randint(1, 7) if level != 'mu' else rng.randint(1, 5), quick)
    return case


def real_twin_of(rng, case):
    """the same history on the untouched generators / FFT and a real dB profile (oracle scenario)"""
    c = dict(case)
    c['real'] = True
    c['npseed'] = rng.below(1 << 30)
    off = rng.choice([0.0, 0.0, -150.0, 120.0])               # R6: powers around -150 dBm / +120 dB
    c['powers_dB'] = [off - rng.randint(0, 30) / 2.0 for _ in case['delays']]
    if rng.chance(0.15):
        c['powers_dB'][rng.below(len(c['powers_dB']))] = off    # R5: 0 dB relative tap
    if any(Fraction(a) ** 2 < Fraction(1, 10 ** 8) for a in case['amps']) and len(case['amps']) >= 2:
        c['powers_dB'] = [off + 20.0 * math.log10(float(Fraction(a))) for a in case['amps']]   # R15: down to -150 dB
    c['prediscretized'] = rng.chance(0.5)
    c['ctor'] = rng.choice(['profile', 'profile+Ts', 'arrays'])     # any form: the reported response is the reference
    return c


def op_tags(case, op):
    """robustness classes an operation exercises (branch names and failure-class components)"""
    t = []
    k = op['op']
    if k in ('tx', 'fx'):
        if op.get('dtype') not in (None, 'complex128'):
            t.append('R1:signal-dtype')
        if op.get('layout', 'c') != 'c':
            t.append('R2:signal-layout')
        n = len(op['x'][0][0]) if case['level'] == 'mu' and op['x'] and op['x'][0] else (len(op['x'][0]) if op['x'] else 0)
        if n == 0:
            t.append('R2:size0')
        if n == 1:
            t.append('R5:one-symbol')
        if op.get('scale', 0):
            t.append('R6:scaled')
        if op.get('expect') == 'reject':
            t.append('R4:rejected-transmission')
        if k == 'fx':
            if op.get('fft_type'):
                t.append('R1:fft-type')
            if op['sel']['kind'] == 'idx' and op['sel'].get('dtype', 'int64') != 'int64':
                t.append('R1:idx-dtype')
            if op['sel']['kind'] == 'idx' and op['sel'].get('layout', 'c') != 'c' and op['sel'].get('as_array', True) \
                    and op['sel'].get('dtype') != 'list':
                t.append('R2:idx-layout')
            if op['fft'] == 1:
                t.append('R5:fft1')
    if k == 'pl':
        if case['level'] == 'mu':
            if any(v == '0' for r in (op.get('s') or []) for v in r):
                t.append('R5:pl-matrix-zero')
            if op.get('pldtype') not in (None, 'float64'):
                t.append('R1:pl-dtype')
            if op.get('pllayout', 'c') != 'c':
                t.append('R2:pl-layout')
            if any(v == '1/1048576' for r in (op.get('s') or []) for v in r):
                t.append('R6:tiny-pathloss')
        else:
            if op.get('s') == '0':
                t.append('R5:pl0')
            if op.get('s') == '1':
                t.append('R5:pl1')
            if op.get('s') is None and op.get('p') is None:
                t.append('R5:pl-none')
            if op.get('pltype'):
                t.append('R1:pl-type')
            if op.get('s') == '1/1048576':
                t.append('R6:tiny-pathloss')
    if k in ('plbad', 'swbad') or (k == 'ir' and op.get('expect') == 'reject'):
        t.append('R4:rejected-setter')
    if k == 'setant':
        t.append('R7:set_num_antennas')
        if op['ant'] is None:
            t.append('R7:set_num_antennas-none')
    if k == 'gen':
        t.append('R7:generate_impulse_response')
        if op.get('n_type'):
            t.append('R9:count-type')
    if k == 'setant' and op.get('ant_type') and op['ant'] is not None:
        t.append('R9:count-type')
    if k == 'ir' and case['level'] == 'mu' and op.get('idx_type'):
        t.append('R9:index-type')
    if op.get('kw'):
        t.append('R8:keyword-arguments')
    if op.get('omit') and ((k == 'fx' and op['sel']['kind'] == 'all') or (k == 'pl' and op.get('s') is None
                                                                          and case['level'] != 'mu')
                           or (k == 'gen' and op['n'] == 1)):
        t.append('R8:default-omitted')
    if k == 'pl' and case['level'] == 'mu' and op.get('s') is None and op.get('p') is None:
        t.append('R8:mu-pathloss-none')
    if op.get('hetero'):
        t.append('R10:heterogeneous-list')
    if k == 'query':
        t.append('R11:queries')
        t.append('R13:derived-responses')
    if k == 'fork':
        t.append('R13:deepcopy-continued')
    if k == 'pl' and op.get('close'):
        t.append('R15:pathloss-close-to-previous')
    if op.get('buf'):
        t.append('R16:pathloss-matrix-from-reused-buffer' if k == 'pl' else 'R16:signal-from-reused-buffer')
    if op.get('idxbuf') and k == 'fx' and op['sel']['kind'] == 'idx' and not op.get('alias'):
        t.append('R16:index-array-from-reused-buffer')
    if op.get('scribble'):
        t.append('R16:argument-overwritten-after-call')
    if op.get('alias'):
        t.append('R16:' + op['alias'])
    return t


def count_refills(case):
    """R16: how often a history really hands over an argument object it has handed over before, with new
    contents (dry run of the caller's side only)"""
    rec = Rec()
    mu = case['level'] == 'mu'
    for op in case['ops']:
        k = op['op']
        try:
            if k == 'pl' and mu and op.get('buf') and not (op.get('s') is None and op.get('p') is None):
                rec.reuse('pl', make_plmatrix(op))
            if k in ('tx', 'fx'):
                sig = make_signal(case, op)
                if op.get('alias') == 'sources-share-array' and mu and len(sig) and (isinstance(sig, list) or sig.ndim >= 2):
                    sig = [sig[0] for _ in range(len(sig))]
                if op.get('buf'):
                    rec.reuse('sig', sig)
                if k == 'fx' and op.get('idxbuf') and not op.get('alias'):
                    idx = sel2py(op['sel'])
                    if isinstance(idx, (np.ndarray, list)):
                        rec.reuse('idx', idx)
        except Exception:       # noqa  (a malformed signal of a rejected call)
            continue
    return rec.refills


def case_features(case):
    f = set()
    f.add('gen:' + ('jakes' if case['jakes'] else 'rayleigh'))
    f.add('level:' + case['level'])
    f.add('ant:' + ('siso' if case['ant'] is None else ('mimo-nr!=nt' if case['ant'][0] != case['ant'][1] else 'mimo')))
    if case.get('prof_dtype'):
        f.add('R1:profile-dtype')
    if case.get('prof_layout', 'c') != 'c':
        f.add('R2:profile-layout')
    if len(case['delays']) == 1:
        f.add('R5:single-tap')
    if case.get('ctor', 'profile') != 'profile':
        f.add('R8:ctor-' + case['ctor'])
    if case.get('ctor_kw'):
        f.add('R8:ctor-keywords')
    if case.get('wrapper') and case['ant'] is not None and not case.get('late_ant') and (
            case['level'] == 'tdl' or (case['level'] == 'su' and case['ant'][0] == case['ant'][1])):
        f.add('R8:convenience-class')
    if case.get('late_ant') and case['ant'] is not None and case['level'] != 'mu':
        f.add('R8:antennas-by-setter')
    if (case.get('n_type') and case['level'] == 'mu') or (case.get('ant_type') and case['ant'] is not None):
        f.add('R9:count-type')
    if len(case['delays']) >= 257 or (case['level'] == 'mu' and case['nrx'] * case['ntx'] >= 257):
        f.add('R14:count>=257')
    if case['level'] == 'mu' and case['nrx'] == 1 and case['ntx'] == 1:
        f.add('R5:K=1')
    sw = False
    ntx = 0
    rejected_before = False
    for op in case['ops']:
        for t in op_tags(case, op):
            f.add(t)
        if op.get('expect') == 'reject':
            rejected_before = True
        if op['op'] == 'sw':
            sw = op['v']
        if op['op'] in ('tx', 'fx'):
            ntx += 1
            if rejected_before and op.get('expect') == 'ok':
                f.add('R4:continued-after-rejection')
            f.add(('td' if op['op'] == 'tx' else 'fd') + (':switched' if sw else ':direct'))
            if case['level'] == 'mu' and case['ant'] is not None and op.get('expect', 'ok') == 'ok':
                # the clause of mu_freq_mimo_spec / mu_corrupt_mimo on the real MuMimoChannel
                f.add(('td' if op['op'] == 'tx' else 'fd') + ':mu-mimo' + (':switched' if sw else ':direct'))
            if op['op'] == 'fx':
                f.add('sel:' + op['sel']['kind'])
                if op['sel']['kind'] == 'slice':
                    st = op['sel']['slice'][2]
                    if st is not None and st < 0:
                        f.add('slice:neg-step')
                    if st not in (None, 0):
                        a, b, c = slice(*op['sel']['slice']).indices(op['fft'])
                        if (b - a) % c != 0 and len(range(a, b, c)) > 0:
                            f.add('slice:step-not-dividing-span')
        if op['op'] == 'pl':
            f.add('pathloss')
    if ntx >= 2:
        f.add('history>=2')
    f.add('R3:snapshots-compared')
    if any(Fraction(a) ** 2 < Fraction(1, 10 ** 8) for a in case['amps']) and len(case['amps']) >= 2:
        f.add('R15:tap-power-below-1e-8')
    if case.get('prof_scribble'):
        f.add('R16:tap-arrays-overwritten-after-construction')
    if any(op.get('buf') or op.get('idxbuf') for op in case['ops']) and count_refills(case):
        f.add('R16:buffer-refilled-in-place')
    return f


def correspondence(ctx, n_su, n_mu, quick):
    drv = core.Driver(DRIVER)
    cases = []
    for i in range(n_su):
        cases.append(gen_case(ctx.rng, 'tdl' if i % 3 == 0 else 'su', quick))
    for i in range(n_mu):
        cases.append(gen_case(ctx.rng, 'mu', quick))
    cases += corpus_cases()
    # R15 / R16: close-but-distinct values; argument buffers refilled in place, overwritten, in two roles
    from harness.props import c03_r1516 as rx
    cases += rx.fixed_cases()
    for i in range((n_su + n_mu) // 8):
        level = ('tdl', 'su', 'mu', 'su', 'mu')[i % 5]
        cases.append(rx.gen_close_case(ctx.rng, level, quick) if i % 2 else rx.gen_reuse_case(ctx.rng, level, quick))
    replies = drv.ask([case_line(c) for c in cases])
    disagreeing = []
    for c, rep in zip(cases, replies):
        impl = run_impl(c)
        model = rep.split(' # ') if rep else []
        for ft in case_features(c):
            ctx.branch('corr:' + ft if ft.startswith('R') else ft)
        for t in impl:
            if t.startswith('error:'):
                ctx.branch('impl-' + t)
        name = {'tdl': 'TdlChannel', 'su': 'SuChannel', 'mu': 'MuChannel'}[c['level']] + '.transmit-history'
        nontriv = len(c['delays']) >= 2 or c['ant'] is not None
        ok = ctx.corr(name, {'line': case_line(c), 'case': c}, impl, model, nontrivial=nontriv,
                      key=case_line(c))
        if not ok:
            disagreeing.append(c)
        if ok and len(ctx.samples) < 3:
            ctx.sample({'line': case_line(c)[:300], 'reply': ' # '.join(impl)[:300]})
    # a disagreement is not a verdict: the first-principles history oracle has to find the input
    for c in disagreeing[:40]:
        run_oracle(ctx, 'transmit', c)


def corpus_cases():
    """fixed boundary scenarios, always run"""
    out = []
    base = {'level': 'tdl', 'seed': 7, 'jakes': True, 'ant': None, 'delays': [0, 2, 5], 'amps': ['1', '2', '1/2'],
            'Ts': 1e-3, 'link': 3, 'late_ant': False}
    x8 = gen_signal(core.Rng(1, 'c03corpus'), 1, 8)
    x12 = gen_signal(core.Rng(2, 'c03corpus'), 1, 12)
    for sl in ([0, 10, 3], [1, 16, 4], [None, None, -3], [15, None, -4], [None, None, 5], [2, 3, 7]):
        B = len(range(*slice(*sl).indices(16)))
        x = gen_signal(core.Rng(3, 'c03corpus'), 1, 2 * B)
        c = dict(base)
        c['ops'] = [{'op': 'fx', 'fft': 16, 'sel': {'kind': 'slice', 'slice': sl}, 'x': x}, {'op': 'ir'},
                    {'op': 'tx', 'x': x8}, {'op': 'ir'}]
        out.append(c)
    c = dict(base, jakes=False, ant=[2, 3], level='su')
    x3 = gen_signal(core.Rng(4, 'c03corpus'), 3, 6)
    x2 = gen_signal(core.Rng(5, 'c03corpus'), 2, 6)
    c['ops'] = [{'op': 'pl', 's': '1/4'}, {'op': 'tx', 'x': x3}, {'op': 'ir'}, {'op': 'sw', 'v': True},
                {'op': 'tx', 'x': x2}, {'op': 'ir'},
                {'op': 'fx', 'fft': 6, 'sel': {'kind': 'slice', 'slice': [0, 6, 4]}, 'x': x2}, {'op': 'ir'}]
    out.append(c)
    c = dict(base, ops=[{'op': 'fx', 'fft': 4, 'sel': {'kind': 'all'}, 'x': x12}, {'op': 'ir'},
                        {'op': 'fx', 'fft': 4, 'sel': {'kind': 'all'}, 'x': x8}, {'op': 'ir'}])
    out.append(c)
    # R5 / C03_3: a path loss of exactly 0 (int and float) is a path loss, not "none"
    for s, t in (('0', 'int'), ('0', None), ('0', 'float32'), ('1', 'int8')):
        c = dict(base, level='su', ops=[{'op': 'pl', 's': s, 'pltype': t}, {'op': 'tx', 'x': x8}, {'op': 'ir'},
                                        {'op': 'fx', 'fft': 4, 'sel': {'kind': 'all'}, 'x': x8}, {'op': 'ir'},
                                        {'op': 'pl', 's': None}, {'op': 'tx', 'x': x8}, {'op': 'ir'}])
        out.append(c)
    c = dict(base, level='mu', nrx=2, ntx=2, ops=[{'op': 'pl', 's': [['0', '1/2'], ['1', '0']], 'pldtype': 'float32',
                                                   'pllayout': 'f'},
                                                  {'op': 'tx', 'x': [x8, x8]}, {'op': 'ir'},
                                                  {'op': 'pl', 's': [['0', '1'], ['1', '0']], 'pldtype': 'int'},
                                                  {'op': 'fx', 'fft': 4, 'sel': {'kind': 'all'}, 'x': [x8, x8]}, {'op': 'ir'}])
    out.append(c)
    # R1: narrow numpy integers as fft_size with signals longer than the type's range
    xl = gen_signal(core.Rng(6, 'c03corpus'), 1, 272)
    for t, fft, n in (('uint8', 16, 272), ('int8', 8, 136), ('uint16', 16, 272)):
        c = dict(base, ops=[{'op': 'fx', 'fft': fft, 'sel': {'kind': 'all'}, 'x': [xl[0][:n]], 'fft_type': t},
                            {'op': 'ir'}])
        out.append(c)
    # R4: rejected calls in the middle of a history (wrong row count, index outside the axis, bad setters)
    x23 = gen_signal(core.Rng(7, 'c03corpus'), 2, 6)
    c = dict(base, level='su', ant=[2, 3], ops=[
        {'op': 'tx', 'x': x3, 'siso': False}, {'op': 'ir'},
        {'op': 'tx', 'x': x23, 'siso': False, 'expect': 'reject', 'reject_class': 'wrong-row-count'}, {'op': 'ir'},
        {'op': 'fx', 'fft': 8, 'sel': {'kind': 'idx', 'idx': [1, 8]}, 'x': [r[:2] for r in x3], 'siso': False,
         'expect': 'reject', 'reject_class': 'bad-selection'}, {'op': 'ir'},
        {'op': 'plbad', 'p': 1.5, 'expect': 'reject'}, {'op': 'swbad', 'v': 1, 'expect': 'reject'},
        {'op': 'tx', 'x': x3, 'siso': False}, {'op': 'ir'}])
    out.append(c)
    c = dict(base, level='mu', nrx=2, ntx=2, ops=[
        {'op': 'pl', 's': [['1/2', '1/2'], ['1/2', '1/2']]},
        {'op': 'plbad', 'p': [[0.25, 0.25], [0.25, 1.5]], 'expect': 'reject'},
        {'op': 'tx', 'x': [x8, x8]}, {'op': 'ir'},
        {'op': 'tx', 'x': [x8], 'expect': 'reject', 'reject_class': 'wrong-source-count'}, {'op': 'ir'},
        {'op': 'tx', 'x': [x8, x8]}, {'op': 'ir'}])
    out.append(c)
    # R7: set_num_antennas in the middle of a history, back to SISO, user-called generate_impulse_response
    c = dict(base, ops=[{'op': 'tx', 'x': x8}, {'op': 'setant', 'ant': [2, 1]},
                        {'op': 'tx', 'x': x8, 'siso': False, 'as1d': True}, {'op': 'ir'},
                        {'op': 'setant', 'ant': None}, {'op': 'tx', 'x': x8, 'siso': True}, {'op': 'ir'},
                        {'op': 'gen', 'n': 3}, {'op': 'ir'}, {'op': 'tx', 'x': x8, 'siso': True}, {'op': 'ir'}])
    out.append(c)
    # R1 / R2 / R5 / R6 in one history: single tap not at delay 0, integer profile arrays, one symbol, no symbol,
    # fft_size 1, narrow integer index array in a strided view, scaled complex64 signal, tiny path loss
    r1 = gen_signal(core.Rng(8, 'c03corpus'), 1, 1, real=True)
    r4 = gen_signal(core.Rng(9, 'c03corpus'), 1, 4)
    c = dict(base, level='su', delays=[3], amps=['2'], Ts=1.0, prof_dtype='int', prof_layout='strided', ops=[
        {'op': 'pl', 's': '1/1048576'},
        {'op': 'tx', 'x': r1, 'dtype': 'int16', 'layout': 'strided', 'real': True}, {'op': 'ir'},
        {'op': 'tx', 'x': [[]], 'layout': 'strided'}, {'op': 'ir'},
        {'op': 'fx', 'fft': 1, 'sel': {'kind': 'idx', 'idx': [0, 0], 'dtype': 'int16', 'layout': 'strided',
                                       'as_array': True}, 'x': r4, 'scale': 40, 'dtype': 'complex64', 'layout': 'rev'},
        {'op': 'ir'},
        {'op': 'pl', 's': '1/2', 'pltype': 'float16'}, {'op': 'tx', 'x': r4, 'scale': -40}, {'op': 'ir'}])
    out.append(c)
    c = dict(base, level='mu', nrx=1, ntx=1, ant=[2, 2], ops=[
        {'op': 'pl', 's': [['1/1048576']], 'pllayout': 'T'},
        {'op': 'tx', 'x': [gen_signal(core.Rng(10, 'c03corpus'), 2, 3)], 'siso': False, 'layout': 'f'}, {'op': 'ir'}])
    out.append(c)
    # R8 / R9 / R11 / R13: one 0 dB tap handed over as arrays + Ts by keyword, every call by keyword or with its
    # defaults left out, numpy integers as counts, read-only calls and a deep copy in the middle
    c = dict(base, level='su', delays=[2], amps=['1'], Ts=0.5, ctor='arrays', ctor_kw=True, ant=[2, 2], late_ant=True,
             ant_type='int16', ops=[
        {'op': 'query'}, {'op': 'pl', 's': None, 'omit': True}, {'op': 'tx', 'x': x2, 'siso': False, 'kw': True},
        {'op': 'ir'}, {'op': 'query', 'qfft': 3}, {'op': 'fork'},
        {'op': 'fx', 'fft': 6, 'sel': {'kind': 'all'}, 'x': x2, 'siso': False, 'kw': True, 'omit': True}, {'op': 'ir'},
        {'op': 'setant', 'ant': [1, 2], 'kw': True, 'ant_type': 'uint8'}, {'op': 'pl', 's': '1/2', 'kw': True},
        {'op': 'tx', 'x': x2, 'siso': False}, {'op': 'ir'}])
    out.append(c)
    c = dict(base, level='su', delays=[0], amps=['1'], Ts=1.0, ctor='profile+Ts', jakes=False, ant=[2, 2],
             wrapper=True, ops=[{'op': 'tx', 'x': x2, 'siso': False}, {'op': 'ir'}, {'op': 'fork'},
                                {'op': 'tx', 'x': x2, 'siso': False}, {'op': 'ir'}])
    out.append(c)
    c = dict(base, level='tdl', ant=[2, 3], wrapper=True, ctor_omit_defaults=True, ops=[
        {'op': 'gen', 'n': 1, 'omit': True}, {'op': 'ir'}, {'op': 'gen', 'n': 3, 'kw': True, 'n_type': 'uint8'},
        {'op': 'ir'}, {'op': 'tx', 'x': x3, 'siso': False, 'kw': True}, {'op': 'ir'}])
    out.append(c)
    # R8 / R9 / R10: multiuser set_pathloss(None), per-transmitter LIST of arrays of mixed element types (one
    # transmitter and several), numpy integers as link indexes and as the number of pairs
    x4r = gen_signal(core.Rng(11, 'c03corpus'), 1, 4, real=True)
    x4c = gen_signal(core.Rng(12, 'c03corpus'), 1, 4)
    c = dict(base, level='mu', nrx=2, ntx=2, n_as_int=True, n_type='int64', ops=[
        {'op': 'pl', 's': [['1/2', '1/4'], ['1', '1/2']]}, {'op': 'pl', 's': None},
        {'op': 'fx', 'fft': 4, 'sel': {'kind': 'all'}, 'x': [x4r, x4c], 'hetero': True, 'hetero_rot': 2, 'omit': True},
        {'op': 'ir', 'kw': True, 'idx_type': 'int8'}, {'op': 'query'}, {'op': 'fork'},
        {'op': 'fx', 'fft': 4, 'sel': {'kind': 'idx', 'idx': [3, 0]}, 'x': [[r[:2] for r in x4r], [r[:2] for r in x4c]],
         'hetero': True, 'hetero_rot': 1, 'kw': True},
        {'op': 'ir', 'idx_type': 'arr0d'}])
    out.append(c)
    c = dict(base, level='mu', nrx=2, ntx=1, ant=[2, 1], ops=[
        {'op': 'fx', 'fft': 4, 'sel': {'kind': 'all'}, 'x': [x4r], 'siso': False, 'hetero': True, 'hetero_rot': 0},
        {'op': 'ir'},
        {'op': 'sw', 'v': True},
        {'op': 'fx', 'fft': 4, 'sel': {'kind': 'all'}, 'x': [[x4r[0], x4c[0]], [x4c[0], x4r[0]]], 'siso': False,
         'hetero': True, 'hetero_rot': 1}, {'op': 'ir'}])
    out.append(c)
    # R14: counts above 256 - a 257-tap profile, and a multiuser channel with 257 links
    rr = core.Rng(13, 'c03corpus')
    taps = sorted(set(range(300)) - set(rr.below(300) for _ in range(400)))
    while len(taps) < 257:
        taps = sorted(set(taps) | {rr.below(300)})
    taps = taps[:256] + [299]
    c = dict(base, delays=taps, amps=[rr.choice(['1', '2', '1/2']) for _ in taps], ops=[
        {'op': 'tx', 'x': gen_signal(rr, 1, 3)}, {'op': 'ir'},
        {'op': 'fx', 'fft': 300, 'sel': {'kind': 'slice', 'slice': [299, None, -7]}, 'x': gen_signal(rr, 1, 43),
         'fft_type': 'uint16'}, {'op': 'ir'}])
    out.append(c)
    c = dict(base, level='mu', nrx=1, ntx=257, delays=[1], amps=['2'], jakes=False, ops=[
        {'op': 'pl', 's': [[rr.choice(PLS) for _ in range(257)]]},
        {'op': 'tx', 'x': [gen_signal(rr, 1, 2) for _ in range(257)]}, {'op': 'ir', 'idx_type': 'uint16'},
        {'op': 'sw', 'v': True}, {'op': 'tx', 'x': [gen_signal(rr, 1, 2)], 'as1d': True}, {'op': 'ir'}])
    out.append(c)
    # MuMimoChannel in the frequency domain (theorem mu_freq_mimo_spec): K = 2 users, 2x1 and 1x2 links, Jakes and
    # Rayleigh, None / index array (negative entries) / slices (step not dividing the span, negative step), both
    # directions, without / with / again without a path-loss matrix - one history of four transmissions per object,
    # the response of every link read after each
    for ant in ([2, 1], [1, 2]):
        for jk in (True, False):
            rm = core.Rng(20 + 2 * ant[0] + int(jk), 'c03corpus')
            xt = [gen_signal(rm, ant[1], 8) for _ in range(2)]      # transmitters -> receivers: Nt rows per source
            xr = [gen_signal(rm, ant[0], 8) for _ in range(2)]      # switched: the receivers send, Nr rows per source
            c = dict(base, level='mu', nrx=2, ntx=2, ant=list(ant), jakes=jk, seed=11 + ant[0], ops=[
                {'op': 'fx', 'fft': 4, 'sel': {'kind': 'all'}, 'x': xt}, {'op': 'ir'},
                {'op': 'pl', 's': [['1/2', '1'], ['1/4', '0']]},
                {'op': 'fx', 'fft': 8, 'sel': {'kind': 'idx', 'idx': [-3, 0, 5, 2]}, 'x': xt}, {'op': 'ir'},
                {'op': 'sw', 'v': True},
                {'op': 'fx', 'fft': 16, 'sel': {'kind': 'slice', 'slice': [0, 10, 3]}, 'x': xr}, {'op': 'ir'},
                {'op': 'pl', 's': None},
                {'op': 'fx', 'fft': 8, 'sel': {'kind': 'slice', 'slice': [None, None, -2]}, 'x': xr}, {'op': 'ir'}])
            out.append(c)
    for c in out:
        c.setdefault('Ts', 1e-3)
    return out


# --------------------------------------------------------------------------- discretisation / slices
def py_round_half_even(fr):
    return round(fr)        # Python's round() on a Fraction is exact round-half-to-even


def gen_profile(rng):
    """tap delays / Ts as exact binary64 values whose quotient is exact in binary64"""
    Ts = Fraction(rng.choice([1, 2, 4, 8])) / rng.choice([1, 2, 4, 8, 16])
    k = rng.randint(1, 8)
    delays = []
    for _ in range(k):
        q = Fraction(rng.randint(0, 40), rng.choice([1, 2, 2, 4, 8]))    # delay / Ts, ties at .5 included
        delays.append(q * Ts)
    if rng.chance(0.5):
        delays.sort()
    powers = [Fraction(rng.randint(1, 64), rng.choice([1, 2, 4, 8, 16, 64])) for _ in range(k)]
    return Ts, delays, powers


def fr2s(f):
    return str(f.numerator) if f.denominator == 1 else '%d/%d' % (f.numerator, f.denominator)


def discretize_corr(ctx, n):
    from pyphysim.channels import fading
    from pyphysim.util.conversion import linear2dB
    drv = core.Driver(DRIVER)
    cases = [gen_profile(ctx.rng) for _ in range(n)]
    lines = ['disc %s %s %s' % (fr2s(Ts), ','.join(fr2s(d) for d in ds), ','.join(fr2s(p) for p in ps))
             for Ts, ds, ps in cases]
    rep = drv.ask(lines)
    for (Ts, ds, ps), line, r in zip(cases, lines, rep):
        # R12: the real code gets the taps in another order than the model (theorem discretize_order_independent)
        perm = list(range(len(ds)))
        if len(ds) >= 2 and ctx.rng.chance(0.5):
            ctx.rng.shuffle(perm)
            ctx.branch('corr:R12:tap-order')
        try:
            prof = fading.TdlChannelProfile(linear2dB(np.array([float(ps[i]) for i in perm])),
                                            np.array([float(ds[i]) for i in perm]))
            dp = prof.get_discretize_profile(float(Ts))
        except Exception as e:
            # the model always discretises a valid profile; the oracle reports the concrete input
            ctx.branch('impl-exception:discretize')
            ctx.corr('TdlChannelProfile.get_discretize_profile', line, 'error:' + type(e).__name__, 'ok',
                     nontrivial=len(ds) >= 2, key=line)
            run_oracle(ctx, 'get_discretize_profile', {'Ts': fr2s(Ts), 'delays': [fr2s(d) for d in ds],
                                                       'powers': [fr2s(p) for p in ps]})
            continue
        md, mp = r.split(' ')
        md = md[2:]
        mp = [Fraction(t) for t in mp[2:].split(',')]
        impl_d = ','.join(str(int(d)) for d in dp.tap_delays)
        ok_p = (len(mp) == dp.tap_powers_linear.size
                and all(core.close(float(a), float(b), rtol=1e-12) for a, b in zip(mp, dp.tap_powers_linear)))
        collide = len(set(py_round_half_even(d / Ts) for d in ds)) < len(ds)
        if collide:
            ctx.branch('disc:colliding-delays')
        if any((d / Ts).denominator == 2 for d in ds):
            ctx.branch('disc:tie-at-half')
        ctx.corr('TdlChannelProfile.get_discretize_profile', line, (impl_d, 'powers-agree' if ok_p else
                 'powers=%s' % list(dp.tap_powers_linear)), (md, 'powers-agree'), nontrivial=len(ds) >= 2, key=line)


def slice_corr(ctx, maxN, exhaustive):
    """Python slice.indices / range / numpy indexing against the model's sliceIndices / pyRange / selPos"""
    drv = core.Driver(DRIVER)
    trip = []
    if exhaustive:
        for N in range(1, maxN + 1):
            vals = [None] + list(range(-N - 2, N + 3))
            steps = [None] + [s for s in range(-N - 1, N + 2)]
            for a in vals:
                for b in vals:
                    for c in steps:
                        trip.append((a, b, c, N))
    else:
        for _ in range(3000):
            N = ctx.rng.randint(1, maxN)
            def ov():
                return None if ctx.rng.chance(0.2) else ctx.rng.randint(-N - 2, N + 2)
            c = None if ctx.rng.chance(0.15) else ctx.rng.randint(-N - 1, N + 1)
            trip.append((ov(), ov(), c, N))

    def s(v):
        return 'N' if v is None else str(v)
    lines = ['slice %s %s %s %d' % (s(a), s(b), s(c), N) for a, b, c, N in trip]
    rep = []
    for i in range(0, len(lines), 20000):
        rep += drv.ask(lines[i:i + 20000])
    base = {}
    for (a, b, c, N), line, r in zip(trip, lines, rep):
        if N not in base:
            base[N] = np.arange(N)
        try:
            ind = slice(a, b, c).indices(N)
            pos = base[N][slice(a, b, c)]          # numpy's own slicing of an axis of length N
            impl = 'ind=%d,%d,%d pos=%s' % (ind[0], ind[1], ind[2], ','.join(str(int(p)) for p in pos))
            true_len = len(pos)
        except ValueError:
            impl, true_len = 'error:ValueError', None
        model = r.split(' bs=')[0]
        ctx.corr('slice.indices+numpy-slicing', line, impl, model, nontrivial=c not in (None, 1), key=line)
    # index arrays (negative wrap, out of range)
    lines, exp = [], []
    for _ in range(300 if not exhaustive else 3000):
        N = ctx.rng.randint(1, maxN)
        l = [ctx.rng.randint(-N - 1, N) for _ in range(ctx.rng.randint(0, 6))]
        lines.append('idx %s %d' % (','.join(str(i) for i in l) if l else ',', N))
        try:
            exp.append('pos=' + ','.join(str(int(p)) for p in np.arange(N)[np.array(l, dtype=int)]))
        except IndexError:
            exp.append('error:IndexError')
    for line, e, r in zip(lines, exp, drv.ask(lines)):
        ctx.corr('numpy-index-array', line, e, r, key=line)


def fft_contract(ctx, n):
    """numeric contract of the external kernel np.fft.fft as the code calls it (axis 0, size n):
    shape, value = explicit DFT of the cropped / zero-padded input, homogeneity"""
    for _ in range(n):
        L = ctx.rng.randint(1, 12)
        N = ctx.rng.randint(1, 20)
        inner = () if ctx.rng.chance(0.5) else (ctx.rng.randint(1, 3), ctx.rng.randint(1, 3))
        v = np.array([ctx.rng.gauss() + 1j * ctx.rng.gauss() for _ in range(L * int(np.prod(inner or (1,))))]
                     ).reshape((L,) + inner)
        got = np.fft.fft(v, N, axis=0)
        m = min(L, N)
        exp = np.tensordot(dft_matrix(N)[:, :m], v[:m], axes=(1, 0))
        s_ = complex(ctx.rng.gauss(), ctx.rng.gauss())
        ok = (got.shape == (N,) + inner and allclose(got, exp)
              and allclose(np.fft.fft(s_ * v, N, axis=0), s_ * got))
        ctx.corr('np.fft.fft-contract', {'L': L, 'N': N, 'inner': list(inner)}, 'holds' if ok else 'violated', 'holds',
                 key=('fftc', L, N, inner, float(v.flat[0].real)))
        ctx.branch('fft:crop' if N < L else ('fft:pad' if N > L else 'fft:exact'))


# --------------------------------------------------------------------------- oracles (first principles, real code)
def _real_channel(case):
    """old-style oracle scenario: untouched generators, dB profile given in seconds"""
    from pyphysim.channels import fading, fading_generators as fg, singleuser, multiuser
    np.random.seed(case['npseed'])
    Ts = case['Ts']
    shape = None if case['ant'] is None else tuple(case['ant'])
    if case['jakes']:
        gen = fg.JakesSampleGenerator(Fd=case.get('Fd', 30.0), Ts=Ts, L=case.get('L', 8), shape=shape,
                                      RS=np.random.RandomState(case['npseed']))
    else:
        gen = fg.RayleighSampleGenerator(shape=shape)
    pdb = np.array(case['powers_dB'], dtype=float)
    dl = np.array(case['delays_s'], dtype=float)
    if case['level'] == 'tdl':
        ch = fading.TdlChannel(gen, tap_powers_dB=pdb, tap_delays=dl, Ts=Ts)
    elif case['level'] == 'su':
        ch = singleuser.SuChannel(gen, tap_powers_dB=pdb, tap_delays=dl, Ts=Ts)
    else:
        N = (case['nrx'], case['ntx'])
        if case['ant'] is None:
            ch = multiuser.MuChannel(N, gen, tap_powers_dB=pdb, tap_delays=dl, Ts=Ts)
        else:
            gen.shape = None
            ch = multiuser.MuMimoChannel(N, case['ant'][0], case['ant'][1], gen, tap_powers_dB=pdb,
                                         tap_delays=dl, Ts=Ts)
        ch._verif_proto = gen
    return ch


def any_channel(case):
    return _real_channel(case) if 'delays_s' in case else build_channel(case)


def dft_matrix(N):
    k = np.arange(N)
    return np.exp(-2j * np.pi * np.outer(k, k) / N)


def conv_expected(dense, x, switched, mimo):
    """y[j][m] = sum_l sum_a H_l[j,a][m-l] x[a][m-l]   (dense taps incl. zero padding, time-varying)"""
    L = dense.shape[0]
    n = x.shape[-1]
    if not mimo:
        y = np.zeros(n + L - 1, dtype=complex)
        for m in range(n + L - 1):
            for l in range(L):
                if 0 <= m - l < n:
                    y[m] += dense[l, m - l] * x[m - l]
        return y
    nr, nt = dense.shape[1], dense.shape[2]
    nout = nt if switched else nr
    nin = nr if switched else nt
    y = np.zeros((nout, n + L - 1), dtype=complex)
    for j in range(nout):
        for m in range(n + L - 1):
            for l in range(L):
                if 0 <= m - l < n:
                    for a in range(nin):
                        h = dense[l, a, j, m - l] if switched else dense[l, j, a, m - l]
                        y[j, m] += h * x[a, m - l]
    return y


def freq_expected(dense, x, fft, sel, switched, mimo):
    """per block b: y[j][bB+q] = sum_a DFT_fft(dense[:, j, a, b])[idx[q]] * x[a][bB+q]"""
    if sel['kind'] == 'all':
        idx = list(range(fft))
    elif sel['kind'] == 'slice':
        idx = list(range(fft))[slice(*sel['slice'])]
    else:
        idx = [list(range(fft))[int(i)] for i in sel['idx']]   # Python list indexing: wraps negatives, raises when out of range
    B = len(idx)
    n = x.shape[-1]
    nb = n // B
    F = dft_matrix(fft)
    L = dense.shape[0]
    m = min(L, fft)
    if not mimo:
        y = np.zeros(n, dtype=complex)
        for b in range(nb):
            H = F[:, :m] @ dense[:m, b]
            for q in range(B):
                y[b * B + q] = H[idx[q]] * x[b * B + q]
        return y
    nr, nt = dense.shape[1], dense.shape[2]
    nout = nt if switched else nr
    nin = nr if switched else nt
    y = np.zeros((nout, n), dtype=complex)
    for b in range(nb):
        H = np.tensordot(F[:, :m], dense[:m, :, :, b], axes=(1, 0))      # fft x nr x nt
        for j in range(nout):
            for a in range(nin):
                for q in range(B):
                    h = H[idx[q], a, j] if switched else H[idx[q], j, a]
                    y[j, b * B + q] += h * x[a, b * B + q]
    return y


def allclose(a, b):
    a = np.asarray(a, dtype=complex)
    b = np.asarray(b, dtype=complex)
    if a.shape != b.shape:
        return False
    scale = max(1.0, float(np.max(np.abs(b))) if b.size else 1.0)
    return bool(np.all(np.abs(a - b) <= 1e-9 * scale))


def close_rel(a, b, ref):
    """R6: |a - b| <= 1e-9 * ref, where ref is the magnitude of the terms that were summed
    (never a fixed floor); ref == 0 demands exact equality"""
    a = np.asarray(a, dtype=complex)
    b = np.asarray(b, dtype=complex)
    if a.shape != b.shape:
        return False
    if not np.all(np.isfinite(a)):
        return False
    return bool(np.all(np.abs(a - b) <= 1e-9 * ref))


def slice_class(sel, fft):
    if sel['kind'] != 'slice':
        return sel['kind']
    if sel['slice'][2] == 0:
        return 'slice:zero-step'
    a, b, c = slice(*sel['slice']).indices(fft)
    ln = len(range(a, b, c))
    if ln > 0 and (b - a) % c != 0:
        return 'slice:step-not-dividing-span'
    return 'slice:step-dividing-span' if ln > 0 else 'slice:empty'


def stream_class(case, op, mimo, xs):
    """how a single-stream / single-source signal is handed over (None when there are several rows)"""
    mu = case['level'] == 'mu'
    if mimo and xs and xs[0].ndim == 2 and xs[0].shape[0] == 1:
        return 'single-stream-1d' if op.get('as1d') else 'single-stream-2d'
    if mu and not mimo and len(xs) == 1:
        return 'single-source-1d' if op.get('as1d') else 'single-source-2d'
    return None


def o_history(case):
    """ONE real object driven through a whole history (scripted or untouched fading, always the real FFT).
    Checked from first principles:
      * every accepted transmission against the formula evaluated on the response reported right after it
        (relative to the scale of the inputs: R6), whatever element type / layout / shape the input had (R1, R2);
      * an exception on a valid call, and a rejected call that changed anything observable (R4);
      * inputs unchanged, earlier outputs unchanged, outputs not aliasing inputs (R3);
      * with rejected calls in the history: a twin object that never saw them gives the same later outputs (R4);
      * shared objects (profile, prototype generator of a multiuser channel) unchanged (R7)."""
    mu = case['level'] == 'mu'
    try:
        ch = any_channel(case)
    except Exception as e:      # noqa
        return ('constructor:exception:%s:%s%s' % (case['level'], case.get('ctor', 'profile'),
                                                    ':keywords' if case.get('ctor_kw') else ''),
                '%s: %r' % (type(e).__name__, e))
    proto = getattr(ch, '_verif_proto', None)
    proto_state = None if proto is None else (proto.shape, getattr(proto, '_current_time', None),
                                              getattr(proto, '_pos', None))
    prof = links_of(ch, case)[0][0].channel_profile
    prof_state = (np.asarray(prof.tap_delays).tobytes(), np.asarray(prof.tap_powers_linear).tobytes(), prof.Ts)
    rec = Rec()
    sw = False
    cur_siso = case['ant'] is None
    accepted = []           # (op index, kind, result arrays) of accepted transmissions
    any_rejected = False
    for oi, op in enumerate(case['ops']):
        k = op['op']
        tagset = sorted(set(t.split(':')[0] for t in op_tags(case, op)), key=lambda t: int(t[1:]))
        newer = [t for t in tagset if int(t[1:]) >= 8]
        tags = ':'.join(newer if newer else tagset)        # the R8+ classes name the failure when present
        before = observe(ch, case)
        try:
            res = apply_op(ch, case, op, rec, False)
            exc = None
        except Exception as e:      # noqa
            res, exc = None, e
        if k in ('tx', 'fx'):
            mimo = not op.get('siso', cur_siso)
            kind = 'td' if k == 'tx' else 'fd'
            cfg = ('mu-' if mu else '') + ('siso' if not mimo else ('mimo-switched' if sw else 'mimo'))
            sc = op.get('scale', 0)
            xs = [x2np(x, sc) for x in (op['x'] if mu else [op['x']])]
            stream = stream_class(case, op, mimo, xs)
            inp = ':'.join(t for t in (stream, cfg, slice_class(op['sel'], op['fft']) if k == 'fx' else None,
                                       tags or None) if t)
        else:
            kind, inp = 'setter', k + (':' + tags if tags else '')
        expect = op.get('expect', 'ok')
        if exc is not None:
            any_rejected = True
            if expect == 'ok':
                if k == 'fork':
                    # class from the input: which generators the object holds
                    default_rs = bool(case.get('real') or 'delays_s' in case) and case['jakes'] and mu
                    return ('R13:deepcopy-exception:' + ('mu-jakes-links-with-default-RS' if default_rs else
                                                         case['level'] + ('-jakes' if case['jakes'] else '-rayleigh')),
                            'op %d: copy.deepcopy(channel): %s: %r' % (oi, type(exc).__name__, exc))
                if k == 'fx' and not (stream and stream.endswith('1d')) and not tags:
                    cls = 'fd:exception:' + slice_class(op['sel'], op['fft'])
                else:
                    cls = '%s:exception:%s' % (kind, inp)
                return cls, 'op %d %s: %s: %r' % (oi, k, type(exc).__name__, exc)
            if observe(ch, case) != before:
                return ('R4:rejected-call-changed-state:%s:%s' % (k, op.get('reject_class', 'guard')),
                        'op %d %s raised %s but the object is not as it was before the call'
                        % (oi, k, type(exc).__name__))
            continue
        if expect == 'reject':
            return ('R4:invalid-call-accepted:%s:%s' % (k, op.get('reject_class', 'guard')),
                    'op %d %s was accepted' % (oi, k))
        if k == 'query' and observe(ch, case) != before:
            return 'R11:query-changed-object', 'op %d: a read-only call changed an observable of the object' % oi
        if k == 'fork':
            new = res[1]

            def cfg(obs):
                return [(None if o[0] is None else o[0][1],) + tuple(o[1:]) for o in obs
                        if isinstance(o, tuple) and len(o) == 6]
            if cfg(observe(new, case)) != cfg(before):
                return 'R13:deepcopy-differs', 'op %d: the deep copy does not have the state of the original' % oi
            ch = new
        if k == 'sw':
            sw = bool(op['v'])
        if k == 'setant':
            cur_siso = op['ant'] is None
            want = (-1, -1) if op['ant'] is None else tuple(op['ant'])
            if (int(ch.num_rx_antennas), int(ch.num_tx_antennas)) != want:
                return ('R9:set_num_antennas-ignored:%s' % (op.get('ant_type') or 'int'),
                        'op %d: antennas are %s x %s, asked for %s' % (oi, ch.num_rx_antennas, ch.num_tx_antennas, want))
        if k == 'gen':
            # "generate num_samples samples": the stored response has that many, the generator advanced by that many
            g = ch._fading_generator
            adv = None
            for o0, o1 in zip(before, observe(ch, case)):
                if isinstance(o0, tuple) and len(o0) == 6:
                    if o0[3] is not None:
                        adv = int(round((o1[3] - o0[3]) / g.Ts))
                    elif o0[4] is not None:
                        adv = o1[4] - o0[4]
            ns = ch.get_last_impulse_response().num_samples
            if ns != op['n'] or (adv is not None and adv != op['n']):
                return ('R9:generate_impulse_response-count:%s' % (op.get('n_type') or 'int'),
                        'op %d: asked for %d samples, response has %d, generator advanced by %s' % (oi, op['n'], ns, adv))
        if k not in ('tx', 'fx'):
            continue
        # ---- an accepted transmission: compare with first principles on the responses reported now
        y = res[1]
        if not mimo:
            xs = [x.reshape(-1) for x in xs]
        if mu:
            nrx, ntx = case['nrx'], case['ntx']
            exp, refs = [], []
            for j in range(ntx if sw else nrx):
                acc, ref = None, 0.0
                for a in range(nrx if sw else ntx):
                    r, t = (a, j) if sw else (j, a)
                    dense = np.asarray(ch.get_last_impulse_response(r, t).tap_values)
                    e = (conv_expected(dense, xs[a], sw, mimo) if k == 'tx'
                         else freq_expected(dense, xs[a], op['fft'], op['sel'], sw, mimo))
                    acc = e if acc is None else acc + e
                    ref += (float(np.max(np.abs(dense))) if dense.size else 0.0) * \
                           (float(np.max(np.abs(xs[a]))) if xs[a].size else 0.0) * max(1, dense.shape[0]) * 4
                exp.append(acc)
                refs.append(ref)
            ys = list(y)
        else:
            dense = np.asarray(ch.get_last_impulse_response().tap_values)
            exp = [conv_expected(dense, xs[0], sw, mimo) if k == 'tx'
                   else freq_expected(dense, xs[0], op['fft'], op['sel'], sw, mimo)]
            refs = [(float(np.max(np.abs(dense))) if dense.size else 0.0) *
                    (float(np.max(np.abs(xs[0]))) if xs[0].size else 0.0) * max(1, dense.shape[0]) * 4]
            ys = [y]
        accepted.append((oi, [np.array(v, copy=True) for v in ys]))
        for yy, ee, ref in zip(ys, exp, refs):
            yy = np.asarray(yy)
            if yy.shape != ee.shape:
                return '%s:shape:%s' % (kind, inp), 'op %d: got %s expected %s' % (oi, yy.shape, ee.shape)
            if not np.issubdtype(yy.dtype, np.complexfloating) or yy.dtype.itemsize < 16:
                return '%s:dtype:%s' % (kind, inp), 'op %d: result dtype %s' % (oi, yy.dtype)
            if not close_rel(yy, ee, ref):
                return ('%s:value:%s' % (kind, inp), 'op %d: max |y - expected| = %g at input scale %g'
                        % (oi, float(np.max(np.abs(yy - ee))), ref))
    viol = rec.violations()
    if viol:
        return 'R3:' + viol[0], 'after the whole history: ' + ', '.join(viol)
    if proto is not None and proto_state != (proto.shape, getattr(proto, '_current_time', None),
                                              getattr(proto, '_pos', None)):
        return 'R7:shared-prototype-generator-modified', 'the generator handed to the multiuser channel changed'
    if prof_state != (np.asarray(prof.tap_delays).tobytes(), np.asarray(prof.tap_powers_linear).tobytes(), prof.Ts):
        return 'R7:shared-profile-modified', 'the channel profile object changed during the history'
    passive = any(op['op'] in ('query', 'fork') for op in case['ops'])
    reused = any(op.get(f) for op in case['ops'] for f in R16KEYS) or bool(case.get('prof_scribble'))
    if any_rejected or passive or reused:
        # the twin never sees the calls that were rejected, nor the read-only calls, and is never copied;
        # R16: it gets a fresh array for every argument of every call, and nothing is overwritten afterwards
        twin_case = dict(case, ops=[dict(op) for op in case['ops']])
        twin_case.pop('prof_scribble', None)
        ch2 = any_channel(twin_case)
        rec2 = Rec()
        got = []
        for oi, op in enumerate(case['ops']):
            if op.get('expect', 'ok') == 'reject' or op['op'] in ('query', 'fork'):
                continue
            try:
                res = apply_op(ch2, case, {f: v for f, v in op.items() if f not in R16KEYS}, rec2, False)
            except Exception:
                continue
            if res[0] == 'fork':
                ch2 = res[1]
            if op['op'] in ('tx', 'fx'):
                got.append((oi, [np.array(v, copy=True) for v in (list(res[1]) if mu else [res[1]])]))
        for (oi, ya), (oj, yb) in zip(accepted, got):
            if oi != oj or len(ya) != len(yb) or any(a.shape != b.shape or not np.array_equal(a, b)
                                                      for a, b in zip(ya, yb)):
                return (('R4:history-differs-from-object-without-rejected-calls' if any_rejected else
                         ('R11:history-differs-from-object-without-queries-and-copies' if passive else
                          'R16:history-differs-from-object-given-fresh-arrays')),
                        'transmission at op %d differs from the same transmission on a fresh object that '
                        'never saw the rejected / read-only calls, was never copied and got a fresh array for '
                        'every argument' % oi)
    return None


def o_linear(case):
    """same fading realisation (same seeds), inputs x1, x2, a*x1+b*x2"""
    mimo = case['ant'] is not None
    outs = []
    a, b = complex(*case['a']), complex(*case['b'])
    x1, x2 = x2np(case['x1']), x2np(case['x2'])
    if not mimo:
        x1, x2 = x1.reshape(-1), x2.reshape(-1)
    stream = None
    if mimo and x1.shape[0] == 1:
        stream = 'single-stream-1d' if case.get('as1d') else 'single-stream-2d'
        if case.get('as1d'):
            x1, x2 = x1[0], x2[0]
    for sig in (x1, x2, a * x1 + b * x2):
        ch = _real_channel(case)
        if case.get('sw'):
            ch.switched_direction = True
        if case.get('p') is not None:
            ch.set_pathloss(case['p'])
        np.random.seed(case['npseed'] + 1)
        try:
            if case['kind'] == 'td':
                outs.append(np.asarray(ch.corrupt_data(sig)))
            else:
                sel = case['sel']
                idx = None if sel['kind'] == 'all' else (slice(*sel['slice']) if sel['kind'] == 'slice'
                                                        else np.array(sel['idx'], dtype=int))
                outs.append(np.asarray(ch.corrupt_data_in_freq_domain(sig, case['fft'], idx)))
        except Exception as e:
            cfg = 'siso' if not mimo else ('mimo-switched' if case.get('sw') else 'mimo')
            if stream is not None:
                return ('%s:exception:%s:%s' % (case['kind'], stream, cfg),
                        '%s, signal shape %s: %r' % (type(e).__name__, np.asarray(sig).shape, e))
            return ('%s:exception:%s' % (case['kind'], slice_class(case['sel'], case['fft']) if case['kind'] == 'fd'
                                         else cfg), '%s: %r' % (type(e).__name__, e))
    ref = float(np.max(np.abs(outs[0])) + np.max(np.abs(outs[1]))) * (abs(a) + abs(b) + 1)
    if not close_rel(outs[2], a * outs[0] + b * outs[1], ref):
        return 'not-linear:' + case['kind'], 'max dev %g' % float(np.max(np.abs(outs[2] - a * outs[0] - b * outs[1])))
    return None


def o_discretize(case):
    from pyphysim.channels import fading
    from pyphysim.util.conversion import linear2dB
    Ts = Fraction(case['Ts'])
    ds = [Fraction(d) for d in case['delays']]
    ps = [Fraction(p) for p in case['powers']]
    idx0 = [py_round_half_even(d / Ts) for d in ds]
    p_arr = linear2dB(np.array([float(p) for p in ps]))
    d_arr = np.array([float(d) for d in ds])
    lay = case.get('layout', 'c')
    if lay != 'c':                                  # R2: strided views of the profile arrays
        p_arr, d_arr = layout_view(p_arr, lay), layout_view(d_arr, lay)
    if case.get('dtype') == 'float32' and all(float(np.float32(float(d))) == float(d) for d in ds):
        d_arr = d_arr.astype(np.float32)            # R1: exact in float32 only
    keep = (p_arr.copy(), d_arr.copy())
    Ts_arg = float(Ts)
    if case.get('ts_type') == 'int' and Ts.denominator == 1:
        Ts_arg = int(Ts)
    elif case.get('ts_type') == 'float32' and float(np.float32(float(Ts))) == float(Ts):
        Ts_arg = np.float32(float(Ts))
    try:
        prof = fading.TdlChannelProfile(p_arr, d_arr)
        dp = prof.get_discretize_profile(Ts_arg)
        dp2 = prof.get_discretize_profile(Ts_arg)       # R7: asking again gives the same, the source profile is intact
    except Exception as e:
        # a valid profile that cannot be built / discretised at all
        return ('discretize:exception:' + ('single-delay' if len(set(ds)) == 1 else
                                           ('one-output-tap' if len(set(idx0)) == 1 else 'several-delays')),
                '%s: %r' % (type(e).__name__, e))
    if not (np.array_equal(p_arr, keep[0]) and np.array_equal(d_arr, keep[1])):
        return 'R3:input-modified:profile-arrays', 'tap arrays changed by TdlChannelProfile / get_discretize_profile'
    # R12: the same taps listed in another order are the same profile
    perm = list(range(len(ds)))
    core.Rng(len(ds) * 7919 + int(idx0[0]) % 97, 'c03perm').shuffle(perm)
    try:
        dq = fading.TdlChannelProfile(np.array([p_arr[i] for i in perm]), np.array([d_arr[i] for i in perm])
                                      ).get_discretize_profile(Ts_arg)
    except Exception as e:      # noqa
        return 'R12:exception-for-permuted-taps', '%s: %r' % (type(e).__name__, e)
    if not np.array_equal(dq.tap_delays, dp.tap_delays) or dq.tap_powers_linear.shape != dp.tap_powers_linear.shape \
            or not np.allclose(dq.tap_powers_linear, dp.tap_powers_linear, rtol=1e-12, atol=0.0):
        return 'R12:tap-order-changes-profile', 'perm %s: %s / %s vs %s / %s' % (
            perm, list(dq.tap_delays), list(dq.tap_powers_linear), list(dp.tap_delays), list(dp.tap_powers_linear))
    if prof.is_discretized or not np.array_equal(dp.tap_delays, dp2.tap_delays) \
            or not np.array_equal(dp.tap_powers_linear, dp2.tap_powers_linear):
        return 'R7:discretize-not-repeatable', 'second get_discretize_profile differs / source profile changed'
    got_d = [int(d) for d in dp.tap_delays]
    idx = idx0
    exp_d = sorted(set(idx))
    cls = 'colliding' if len(exp_d) < len(ds) else 'distinct'
    if got_d != exp_d or any(not float(d).is_integer() for d in dp.tap_delays):
        return 'discretize:delays:' + cls, 'got %s expected %s' % (got_d, exp_d)
    tot = sum(ps)
    exp_p = [sum(p for p, i in zip(ps, idx) if i == j) / tot for j in exp_d]
    got_p = list(dp.tap_powers_linear)
    if len(got_p) != len(exp_p) or not all(core.close(float(e), float(g), rtol=1e-12) for e, g in zip(exp_p, got_p)):
        return 'discretize:powers:' + cls, 'got %s expected %s' % (got_p, [float(e) for e in exp_p])
    if not core.close(float(np.sum(dp.tap_powers_linear)), 1.0, rtol=1e-12):
        return 'discretize:sum:' + cls, 'sum %r' % float(np.sum(dp.tap_powers_linear))
    return None


def o_shared(case):
    """R7: objects shared between two users of the API.  Two channels built from ONE profile object
    (the library ships module-level profiles) with different sampling intervals, and two multiuser
    channels built from ONE prototype generator: using one must not change what the other does."""
    from pyphysim.channels import fading, fading_generators as fg, multiuser
    prof = {'TU': fading.COST259_TUx, 'RA': fading.COST259_RAx, 'HT': fading.COST259_HTx}.get(case['profile'])
    if prof is None:
        prof = fading.TdlChannelProfile(np.array(case['powers_dB'], dtype=float), np.array(case['delays_s'], dtype=float))
    state = (prof.tap_delays.copy(), prof.tap_powers_dB.copy(), prof.Ts, prof.is_discretized)
    x = x2np(case['x']).reshape(-1)

    def run(Ts, seed):
        np.random.seed(seed)
        ch = fading.TdlChannel(fg.JakesSampleGenerator(Ts=Ts, RS=np.random.RandomState(seed)), channel_profile=prof)
        return ch, ch.corrupt_data(x)
    chA, yA = run(case['TsA'], 1)
    chB, yB = run(case['TsB'], 2)          # a second user of the same profile object, other sampling interval
    chA2, yA2 = run(case['TsA'], 1)        # the first configuration again, after the profile was used by B
    if not (np.array_equal(prof.tap_delays, state[0]) and np.array_equal(prof.tap_powers_dB, state[1])
            and prof.Ts == state[2] and prof.is_discretized == state[3]):
        return 'R7:shared-profile-modified', 'building channels changed the shared profile object'
    if yA.shape != yA2.shape or not np.array_equal(yA, yA2):
        return 'R7:shared-profile-users-interfere', 'same configuration gives another output after another user'
    yA_later = chA.corrupt_data(x)
    yA2_later = chA2.corrupt_data(x)
    if not np.array_equal(yA_later, yA2_later):
        return 'R7:shared-profile-users-interfere', 'later transmissions of twin objects differ'
    # one prototype generator, two multiuser channels
    np.random.seed(3)
    proto = fg.JakesSampleGenerator(Ts=case['TsA'], RS=np.random.RandomState(3))
    st = (proto.shape, proto._current_time)
    m1 = multiuser.MuChannel(2, proto, channel_profile=prof)
    m2 = multiuser.MuChannel((1, 2), proto, channel_profile=prof)
    sig = np.array([x, x])
    o1 = m1.corrupt_data(sig)
    m2.set_pathloss(np.array([[0.25, 0.0]]))
    m2.switched_direction = True
    o2 = m2.corrupt_data(np.array([x]))
    if (proto.shape, proto._current_time) != st:
        return 'R7:shared-prototype-generator-modified', 'the prototype generator changed'
    if m1.switched_direction or m1.pathloss_matrix is not None:
        return 'R7:multiuser-channels-interfere', 'settings of one multiuser channel visible in the other'
    if len(o1) != 2 or len(o2) != 2:
        return 'R7:multiuser-channels-interfere', 'unexpected output counts'
    return None


def o_derived(case):
    """R13: objects obtained from other objects - the discretised child of a profile, scaled / concatenated
    responses, deep copies and pickles of profiles, responses and channels: parent and child stay independent,
    a round trip of a child gives back the child"""
    import copy
    import pickle
    from pyphysim.channels import fading, fading_generators as fg, singleuser
    np.random.seed(case['npseed'])
    Ts, Ts2 = case['Ts'], case['Ts'] * 2
    parent = fading.TdlChannelProfile(np.array(case['powers_dB'], dtype=float), np.array(case['delays_s'], dtype=float))
    pstate = (parent.tap_delays.copy(), parent.tap_powers_dB.copy(), parent.Ts, parent.name)
    child = parent.get_discretize_profile(Ts)
    child2 = parent.get_discretize_profile(Ts2)

    def same_prof(a, b):
        return (np.array_equal(a.tap_delays, b.tap_delays) and np.array_equal(a.tap_powers_dB, b.tap_powers_dB)
                and np.array_equal(a.tap_powers_linear, b.tap_powers_linear) and a.Ts == b.Ts and a.name == b.name
                and a.is_discretized == b.is_discretized and a.num_taps == b.num_taps)
    for how, rt in (('pickle', lambda o: pickle.loads(pickle.dumps(o))), ('deepcopy', copy.deepcopy), ('copy', copy.copy)):
        for nm, obj in (('child', child), ('child2', child2), ('parent', parent)):
            try:
                back = rt(obj)
            except Exception as e:      # noqa
                return 'R13:round-trip-exception:profile-%s:%s' % (nm, how), '%s: %r' % (type(e).__name__, e)
            if not same_prof(back, obj):
                return 'R13:round-trip-differs:profile-%s:%s' % (nm, how), 'round trip of the %s profile differs' % nm
    if not (np.array_equal(parent.tap_delays, pstate[0]) and np.array_equal(parent.tap_powers_dB, pstate[1])
            and parent.Ts == pstate[2] and parent.name == pstate[3]) or same_prof(child, child2):
        return 'R13:parent-profile-changed', 'deriving children changed the parent (or the children are one object)'
    # a channel, its copy and a twin that was never copied
    shape = None if case['ant'] is None else tuple(case['ant'])

    def build():
        np.random.seed(case['npseed'])
        g = fg.JakesSampleGenerator(Fd=20.0, Ts=Ts, L=6, shape=shape, RS=np.random.RandomState(case['npseed']))
        ch = singleuser.SuChannel(g, channel_profile=parent)
        ch.set_pathloss(case['p'])
        return ch
    x = x2np(case['x'])
    if shape is None:
        x = x.reshape(-1)
    ch, twin = build(), build()
    y0, t0 = ch.corrupt_data(x), twin.corrupt_data(x)
    if not np.array_equal(y0, t0):
        return 'R13:twin-not-deterministic', 'two identically seeded channels differ'
    ir = ch.get_last_impulse_response()
    scaled = 3.0 * ir
    for how, rt in (('pickle', lambda o: pickle.loads(pickle.dumps(o))), ('deepcopy', copy.deepcopy)):
        back = rt(scaled)
        if not (np.array_equal(back.tap_values_sparse, scaled.tap_values_sparse)
                and np.array_equal(back.tap_values, scaled.tap_values) and back.Ts == scaled.Ts
                and np.array_equal(back.tap_indexes_sparse, scaled.tap_indexes_sparse)):
            return 'R13:round-trip-differs:response:' + how, 'the round trip of a scaled response is not that response'
    try:
        cp = copy.deepcopy(ch)
    except Exception as e:      # noqa
        return 'R13:round-trip-exception:channel:deepcopy', '%s: %r' % (type(e).__name__, e)
    cp.set_pathloss(None)
    cp.switched_direction = True
    cp2 = copy.deepcopy(ch)
    y_cp2 = cp2.corrupt_data(x)          # the copy transmits first …
    y1, t1 = ch.corrupt_data(x), twin.corrupt_data(x)
    if not np.array_equal(y1, t1):
        return 'R13:copy-changes-original', 'after a copy was used, the original differs from a twin never copied'
    if not np.array_equal(y_cp2, t1):
        return 'R13:copy-differs-from-original', 'the deep copy does not continue like the original'
    if ch.switched_direction or ch._pathloss_value != twin._pathloss_value:
        return 'R13:copy-changes-original', 'settings of the copy are visible in the original'
    return None


def _rx_oracle(name):
    def f(case):
        from harness.props import c03_r1516 as rx
        return rx.ORACLES[name](case)
    return f


ORACLES = {
    'close-values': _rx_oracle('close-values'),            # R15
    'argument-identity': _rx_oracle('argument-identity'),  # R16
    'derived-objects': o_derived,
    'transmit': o_history,
    'linearity': o_linear,
    'get_discretize_profile': o_discretize,
    'shared-objects': o_shared,
}


def run_oracle(ctx, call, case, key=None, nontrivial=True):
    ctx.count((call, key if key is not None else repr(case)), nontrivial)
    try:
        r = ORACLES[call](case)
    except Exception as e:
        r = ('oracle-exception:' + type(e).__name__, repr(e)[:300])
    if r is not None:
        ctx.fail(call, r[0], case, r[1])
        ctx.branch('oracle-fail:' + call)
    else:
        ctx.branch('oracle-ok:' + call)
    return r


def replay(ctx, rep):
    return ORACLES[rep['call']](rep['case']) is not None


REAL_PROFILES = [
    ([0.0, -3.0, -6.0], [0.0, 1.0, 4.0]),                    # in units of Ts
    ([-1.0, -2.5, -2.5, -7.0], [0.0, 0.4, 0.6, 2.2]),        # 0.4 / 0.6 collide with 0 / 1
    ([0.0], [0.0]),
    ([-3.0, 0.0, -4.0, -8.0, -9.5], [1.3, 2.7, 2.9, 6.2, 7.0]),   # first tap not at delay 0
]


def gen_oracle_case(rng, level, only=None):
    jakes = rng.chance(0.5)
    ant = [rng.randint(1, 3), rng.randint(1, 3)] if rng.chance(0.5) else None
    Ts = rng.choice([1.0, 1e-3, 3.25e-8])
    if rng.chance(0.2):
        pdb, dl = [-5.7, -7.6, -10.1, -10.2, -10.2, -11.5, -13.4], [0, 217, 512, 514, 517, 674, 882]
        dl = [d * 1e-9 for d in dl]
        Ts = 3.25e-8
    else:
        pdb, du = rng.choice(REAL_PROFILES)
        dl = [d * Ts for d in du]
    case = {'level': level, 'npseed': rng.below(1 << 30), 'jakes': jakes, 'ant': ant, 'Ts': Ts,
            'powers_dB': pdb, 'delays_s': dl}
    if level == 'mu':
        case['nrx'], case['ntx'] = rng.randint(1, 3), rng.randint(1, 3)
        if ant is not None:
            case['ant'] = [rng.randint(1, 2), rng.randint(1, 2)]
    ops = []
    sw = False
    for _ in range(rng.randint(1, 4)):
        if rng.chance(0.25):
            sw = not sw
            ops.append({'op': 'sw', 'v': sw})
        if level != 'tdl' and rng.chance(0.3):
            if level == 'mu':
                ops.append({'op': 'pl', 'p': [[rng.choice([0.0, 1.0, rng.uniform(1e-24, 1.0)]) for _ in range(case['ntx'])]
                                              for _ in range(case['nrx'])]})
            else:
                ops.append({'op': 'pl', 'p': rng.choice([0, 0.0, 1, 1.0, rng.uniform(0.01, 1.0), 1e-24])})
        rows = 1 if case['ant'] is None else (case['ant'][0] if sw else case['ant'][1])
        nsrc = 1 if level != 'mu' else (case['nrx'] if sw else case['ntx'])
        scale = rng.choice([0, 0, 40, -40])
        if (only or ('td' if rng.chance(0.5) else 'fd')) == 'td':
            n = rng.randint(1, 12)
            xs = [gen_signal(rng, rows, n) for _ in range(nsrc)]
            ops.append({'op': 'tx', 'x': xs if level == 'mu' else xs[0], 'as1d': rng.chance(0.5), 'scale': scale,
                        'layout': rng.choice(['c', 'f', 'strided', 'rev'])})
        else:
            while True:
                fft = rng.randint(1, 16)
                sel, B = gen_sel(rng, fft)
                if B:
                    break
            n = B * rng.randint(1, 3)
            xs = [gen_signal(rng, rows, n) for _ in range(nsrc)]
            ops.append({'op': 'fx', 'fft': fft, 'sel': sel, 'x': xs if level == 'mu' else xs[0],
                        'as1d': rng.chance(0.5), 'scale': scale, 'layout': rng.choice(['c', 'f', 'strided', 'rev'])})
    case['ops'] = ops
    return case


def gen_linear_case(rng):
    c = gen_oracle_case(rng, rng.choice(['tdl', 'su']))
    c.pop('ops')
    sw = rng.chance(0.4)
    rows = 1 if c['ant'] is None else (c['ant'][0] if sw else c['ant'][1])
    c['sw'] = sw
    c['p'] = rng.uniform(0.05, 1.0) if c['level'] == 'su' and rng.chance(0.5) else None
    c['a'] = [rng.randint(-3, 3), rng.randint(-3, 3)]
    c['b'] = [rng.randint(-3, 3), rng.randint(-3, 3)]
    if rng.chance(0.5):
        c['kind'] = 'td'
        n = rng.randint(1, 10)
    else:
        c['kind'] = 'fd'
        while True:
            c['fft'] = rng.randint(1, 12)
            c['sel'], B = gen_sel(rng, c['fft'])
            if B:
                break
        n = B * rng.randint(1, 2)
    c['as1d'] = rng.chance(0.5)
    c['x1'] = gen_signal(rng, rows, n)
    c['x2'] = gen_signal(rng, rows, n)
    return c


SLICE_WITNESSES = [([0, 10, 3], 16), ([1, 16, 4], 16), ([None, None, 5], 16), ([15, 0, -2], 16)]


def single_stream_witnesses():
    """every way a ONE-antenna transmitter / ONE-source multiuser channel can hand over its stream:
    (1, n) and (n,), both link directions, time and frequency domain, TdlChannel / SuChannel /
    MuChannel / MuMimoChannel, with and without path loss"""
    rng = core.Rng(31, 'c03single')
    out = []
    for level in ('tdl', 'su', 'mu'):
        for ant, sw in (([1, 3], True), ([3, 1], False), ([1, 1], False), ([1, 1], True), ([2, 1], False),
                        ([1, 2], True), (None, False), (None, True)):
            for kind in ('tx', 'fx'):
                for as1d in (False, True):
                    for pl in ((False, True) if level != 'tdl' else (False,)):
                        case = {'level': level, 'npseed': rng.below(1 << 30), 'jakes': rng.chance(0.5), 'ant': ant,
                                'Ts': 1e-3, 'powers_dB': [0.0, -3.0, -6.0], 'delays_s': [0.0, 1e-3, 4e-3]}
                        if level == 'mu':
                            # one source in the direction used (so the whole signal may drop the source axis)
                            case['nrx'], case['ntx'] = (1, 2) if sw else (2, 1)
                            if ant is not None and rng.chance(0.5):
                                case['nrx'], case['ntx'] = 2, 2
                        elif ant is None:
                            continue            # SISO single links have one shape only
                        ops = []
                        if sw:
                            ops.append({'op': 'sw', 'v': True})
                        if pl:
                            ops.append({'op': 'pl', 'p': ([[0.25] * case['ntx']] * case['nrx']) if level == 'mu' else 0.25})
                        nsrc = 1 if level != 'mu' else (case['nrx'] if sw else case['ntx'])
                        if kind == 'tx':
                            xs = [gen_signal(rng, 1, 6) for _ in range(nsrc)]
                            ops.append({'op': 'tx', 'x': xs if level == 'mu' else xs[0], 'as1d': as1d})
                        else:
                            sel = rng.choice([{'kind': 'all'}, {'kind': 'slice', 'slice': [0, 8, 3]},
                                              {'kind': 'idx', 'idx': [1, -1, 4], 'as_array': True}])
                            B = 8 if sel['kind'] == 'all' else 3
                            xs = [gen_signal(rng, 1, 2 * B) for _ in range(nsrc)]
                            ops.append({'op': 'fx', 'fft': 8, 'sel': sel, 'x': xs if level == 'mu' else xs[0],
                                        'as1d': as1d})
                        case['ops'] = ops
                        out.append(case)
    return out


def pathloss_boundary_witnesses():
    """R5 / C03_3: path loss exactly 0 / 0.0 / 1 / None on SuChannel, zero entries in the matrix of a
    MuChannel / MuMimoChannel, in both domains and directions: output AND reported response scaled alike"""
    rng = core.Rng(41, 'c03pl0')
    out = []
    for level in ('su', 'mu'):
        for ant in (None, [2, 2], [1, 2]):
            for sw in (False, True):
                for kind in ('tx', 'fx'):
                    for p in (0, 0.0, 1, None, 1e-24):
                        case = {'level': level, 'npseed': rng.below(1 << 30), 'jakes': rng.chance(0.5), 'ant': ant,
                                'Ts': 1e-3, 'powers_dB': [0.0, -3.0], 'delays_s': [0.0, 2e-3]}
                        if level == 'mu':
                            case['nrx'], case['ntx'] = 2, 2
                            if p is None:
                                continue
                        ops = [{'op': 'pl', 'p': 0.5 if level == 'su' else [[0.5, 0.5], [0.5, 0.5]]}]   # a positive one first
                        if sw:
                            ops.append({'op': 'sw', 'v': True})
                        if level == 'su':
                            ops.append({'op': 'pl', 'p': p, 's': None})
                        else:
                            ops.append({'op': 'pl', 'p': [[p, 0.25], [1.0, p]]})
                        rows = 1 if ant is None else (ant[0] if sw else ant[1])
                        nsrc = 1 if level != 'mu' else 2
                        if kind == 'tx':
                            xs = [gen_signal(rng, rows, 5) for _ in range(nsrc)]
                            ops.append({'op': 'tx', 'x': xs if level == 'mu' else xs[0]})
                        else:
                            xs = [gen_signal(rng, rows, 8) for _ in range(nsrc)]
                            ops.append({'op': 'fx', 'fft': 4, 'sel': {'kind': 'all'}, 'x': xs if level == 'mu' else xs[0]})
                        case['ops'] = ops
                        out.append(case)
    return out


def oracles(ctx, n_tx, n_lin, n_disc):
    # the design-round witnesses first (always the same inputs)
    for sl, fft in SLICE_WITNESSES:
        B = len(range(*slice(*sl).indices(fft)))
        case = {'level': 'tdl', 'npseed': 11, 'jakes': True, 'ant': None, 'Ts': 1e-3, 'powers_dB': [0.0, -3.0],
                'delays_s': [0.0, 2e-3],
                'ops': [{'op': 'fx', 'fft': fft, 'sel': {'kind': 'slice', 'slice': sl},
                         'x': gen_signal(core.Rng(9, 'c03w'), 1, 2 * B)}]}
        run_oracle(ctx, 'transmit', case)
    for case in single_stream_witnesses():
        run_oracle(ctx, 'transmit', case)
        op = case['ops'][-1]
        if case['ant'] is not None and op.get('as1d'):
            ctx.branch('oracle:single-stream-1d:' + ('switched' if any(o['op'] == 'sw' for o in case['ops']) else 'direct'))
        if case['ant'] is None and case['level'] == 'mu' and op.get('as1d'):
            ctx.branch('oracle:single-source-1d')
    for case in pathloss_boundary_witnesses():
        run_oracle(ctx, 'transmit', case)
        ctx.branch('oracle:R5:pl0' if case['level'] == 'su' else 'oracle:R5:pl-matrix-zero')
    # the boundary / rejected-call / long-lived-object corpus of the correspondence, on the untouched generators
    wr = core.Rng(51, 'c03corpus-real')
    from harness.props import c03_r1516 as rx
    for c in corpus_cases() + rx.fixed_cases():
        rc = real_twin_of(wr, c)
        run_oracle(ctx, 'transmit', rc)
        for ft in case_features(rc):
            if ft.startswith('R'):
                ctx.branch('oracle:' + ft)
    for ds_, ps_ in (([Fraction(13, 10)], [Fraction(4, 5)]), ([Fraction(7, 10)], [Fraction(1, 6)]),
                     ([Fraction(13, 10)] * 3, [Fraction(1), Fraction(1, 2), Fraction(1, 3)])):
        run_oracle(ctx, 'get_discretize_profile', {'Ts': '1', 'delays': [fr2s(d) for d in ds_],
                                                   'powers': [fr2s(p) for p in ps_]})
    for i in range(n_tx):
        level = ('tdl', 'su', 'mu')[i % 3]
        if i % 2 == 0:
            run_oracle(ctx, 'transmit', gen_oracle_case(ctx.rng, level))
        else:
            # the full robustness history generator (R1-R7) on the untouched generators / FFT / dB profile
            kind = (i // 2) % 4
            rc = real_twin_of(ctx.rng, gen_case(ctx.rng, level, True) if kind < 2 else
                              (rx.gen_reuse_case(ctx.rng, level, True) if kind == 2 else
                               rx.gen_close_case(ctx.rng, level, True)))
            run_oracle(ctx, 'transmit', rc, key=case_line(rc) + str(rc['npseed']))
            for ft in case_features(rc):
                if ft.startswith('R'):
                    ctx.branch('oracle:' + ft)
    for _ in range(n_lin):
        run_oracle(ctx, 'linearity', gen_linear_case(ctx.rng))
    for _ in range(n_disc):
        Ts, ds, ps = gen_profile(ctx.rng)
        case = {'Ts': fr2s(Ts), 'delays': [fr2s(d) for d in ds], 'powers': [fr2s(p) for p in ps],
                'layout': ctx.rng.choice(['c', 'c', 'strided', 'rev']), 'dtype': ctx.rng.choice([None, 'float32']),
                'ts_type': ctx.rng.choice([None, 'int', 'float32'])}
        run_oracle(ctx, 'get_discretize_profile', case)
        if len(ds) >= 2:
            ctx.branch('oracle:R12:tap-order')
        if case['layout'] != 'c':
            ctx.branch('oracle:R2:profile-layout')
        if case['ts_type'] or case['dtype']:
            ctx.branch('oracle:R1:profile-dtype')
    # R6: one profile at many scales of delay / sampling interval and of power (quotients unchanged)
    for k in (-12, -9, -6, -3, 0, 3, 6):
        for pk in (-15, 0, 12):
            Ts = Fraction(10) ** k
            ds = [Fraction(q, 4) * Ts for q in (0, 3, 5, 9, 21)]
            ps = [Fraction(v) * Fraction(10) ** pk for v in (4, 3, 2, 2, 1)]
            run_oracle(ctx, 'get_discretize_profile', {'Ts': fr2s(Ts), 'delays': [fr2s(d) for d in ds],
                                                       'powers': [fr2s(p) for p in ps]}, key=('scale', k, pk))
            ctx.branch('oracle:R6:profile-scale')
    # R14: profiles with more than 256 taps (one in quick, more and 2^16 + 1 in thorough)
    for ntaps in ((300,) if ctx.tier == 'quick' else (257, 258, 300, 65537)):
        ds = [Fraction(4 * q + 1, 4) for q in range(ntaps)]
        if ntaps <= 300:
            ds[5], ds[6] = ds[6], ds[5]
        ps = [Fraction(1 + (q % 7), 3) for q in range(ntaps)]
        run_oracle(ctx, 'get_discretize_profile', {'Ts': '1', 'delays': [fr2s(d) for d in ds],
                                                   'powers': [fr2s(p) for p in ps]}, key=('taps', ntaps))
        ctx.branch('oracle:R14:profile-taps>=257')
    # R13: derived objects (profile children, scaled responses, copies and pickles)
    for i in range(6):
        ant = [None, [2, 2], [1, 3]][i % 3]
        run_oracle(ctx, 'derived-objects', {'npseed': 100 + i, 'Ts': [1e-3, 0.5, 3.25e-8][i % 3], 'ant': ant,
                                            'powers_dB': [0.0, -3.5, -6.0], 'p': [None, 0.25, 0.0][i % 3],
                                            'delays_s': [d * [1e-3, 0.5, 3.25e-8][i % 3] for d in (0.0, 1.2, 4.0)],
                                            'x': gen_signal(core.Rng(i, 'c03der'), 1 if ant is None else ant[1], 5)})
        ctx.branch('oracle:R13:derived-objects')
    # R7: shared profile object / shared prototype generator
    for prof, TsA, TsB in (('TU', 3.25e-8, 1e-7), ('RA', 1e-7, 5e-8), ('HT', 5e-7, 3.25e-8), (None, 1e-3, 2e-3)):
        run_oracle(ctx, 'shared-objects', {'profile': prof, 'TsA': TsA, 'TsB': TsB, 'powers_dB': [0.0, -3.0, -6.0],
                                           'delays_s': [0.0, 1e-3, 4e-3], 'x': gen_signal(core.Rng(5, 'c03sh'), 1, 6)})
        ctx.branch('oracle:R7:shared-objects')
    # the profiles shipped with the library, at the sampling intervals the tests use and others
    # (margin rule: only sampling intervals for which no delay/Ts is within 1e-6 of a tie)
    from pyphysim.channels import fading
    for prof in (fading.COST259_TUx, fading.COST259_RAx, fading.COST259_HTx):
        for Ts in (3.25e-8, 1e-7, 5e-7, 1e-6, 2.5e-7):
            ds = [Fraction(float(d)) for d in prof.tap_delays]
            q = [d / Fraction(Ts) for d in ds]
            if any(abs((x % 1) - Fraction(1, 2)) < Fraction(1, 10 ** 6) for x in q):
                continue
            ps = [Fraction(float(p)) for p in prof.tap_powers_linear]
            run_oracle(ctx, 'get_discretize_profile',
                       {'Ts': fr2s(Fraction(Ts)), 'delays': [fr2s(d) for d in ds], 'powers': [fr2s(p) for p in ps]},
                       key=(prof.name, Ts))


# --------------------------------------------------------------------------- entry points
REQUIRED = ['gen:jakes', 'gen:rayleigh', 'ant:siso', 'ant:mimo-nr!=nt', 'td:direct', 'td:switched', 'fd:direct',
            'fd:switched', 'sel:all', 'sel:idx', 'sel:slice', 'slice:neg-step', 'slice:step-not-dividing-span',
            'fd:mu-mimo:direct', 'fd:mu-mimo:switched', 'pathloss', 'history>=2', 'level:mu', 'level:su', 'level:tdl', 'disc:colliding-delays',
            'disc:tie-at-half', 'fft:crop', 'fft:pad', 'oracle:single-stream-1d:switched',
            'oracle:single-stream-1d:direct', 'oracle:single-source-1d',
            'oracle:R5:pl0', 'oracle:R5:pl-matrix-zero', 'oracle:R6:profile-scale', 'oracle:R7:shared-objects',
            'oracle:R1:profile-dtype', 'oracle:R2:profile-layout']
RTAGS = ['R1:signal-dtype', 'R1:fft-type', 'R1:idx-dtype', 'R1:pl-type', 'R1:pl-dtype', 'R1:profile-dtype',
         'R2:signal-layout', 'R2:idx-layout', 'R2:pl-layout', 'R2:size0', 'R2:profile-layout',
         'R3:snapshots-compared',
         'R4:rejected-transmission', 'R4:rejected-setter', 'R4:continued-after-rejection',
         'R5:pl0', 'R5:pl1', 'R5:pl-none', 'R5:pl-matrix-zero', 'R5:single-tap', 'R5:one-symbol', 'R5:fft1',
         'R6:scaled', 'R6:tiny-pathloss',
         'R7:set_num_antennas', 'R7:set_num_antennas-none', 'R7:generate_impulse_response',
         'R8:keyword-arguments', 'R8:default-omitted', 'R8:mu-pathloss-none', 'R8:ctor-profile+Ts', 'R8:ctor-arrays',
         'R8:ctor-keywords', 'R8:convenience-class', 'R8:antennas-by-setter',
         'R9:count-type', 'R9:index-type', 'R10:heterogeneous-list', 'R11:queries', 'R13:derived-responses',
         'R13:deepcopy-continued', 'R14:count>=257']
REQUIRED += ['corr:' + t for t in RTAGS] + ['oracle:' + t for t in RTAGS]
REQUIRED += ['oracle:R13:derived-objects', 'oracle:R12:tap-order', 'corr:R12:tap-order', 'oracle:R14:profile-taps>=257']
# R15 (distinct values that are merely close) / R16 (argument identity and buffer reuse): harness/props/c03_r1516.py
R1516_TAGS = ['R15:pathloss-close-to-previous', 'R15:tap-power-below-1e-8',
              'R16:signal-from-reused-buffer', 'R16:index-array-from-reused-buffer',
              'R16:pathloss-matrix-from-reused-buffer', 'R16:argument-overwritten-after-call',
              'R16:signal-is-index-array', 'R16:sources-share-array', 'R16:buffer-refilled-in-place',
              'R16:tap-arrays-overwritten-after-construction']
REQUIRED += ['corr:' + t for t in R1516_TAGS] + ['oracle:' + t for t in R1516_TAGS]
REQUIRED += ['oracle:R15:pathloss-tiny', 'oracle:R15:pathloss-near1', 'oracle:R15:pathloss-pairs',
             'oracle:R15:tap-powers', 'oracle:R15:discretize-close-Ts', 'oracle:R15:ctor-Ts',
             'oracle:R16:profile-args', 'oracle:R16:concatenate',
             'corr:R15:ctor-Ts:close-but-different', 'corr:R15:ctor-Ts:equal', 'corr:R15:discretize:delays-within-1e-8',
             'corr:R15:discretize:delays-differ-by-1e-6-relative', 'corr:R15:discretize:powers-span>=1e8']


def check(ctx):
    quick = ctx.tier == 'quick'
    ctx.rule = ('scenarios = one channel object (TdlChannel / SuChannel / MuChannel / MuMimoChannel; Jakes or '
                'Rayleigh with scripted Gaussian-integer fading; SISO or MIMO up to 3x3; 1-5 taps with '
                'perfect-square powers) driven through 1-7 seeded operations (time / frequency transmissions '
                'with None, index-array and slice selections, direction switches, path losses incl. 0 / 1 / None, '
                'set_num_antennas, user-called generate_impulse_response, rejected calls after which the history '
                'goes on) with inputs in many element types, memory layouts, shapes and scales (2^-40..2^40), each '
                'transmission followed by a read of the reported response; all values compared exactly as rationals '
                'with the Lean model. non-trivial = distinct scenario line with >= 2 taps or MIMO; oracle cases run '
                'the same histories on the untouched generators / FFT / dB profiles against first-principles formulas; '
                'R15 / R16 scenarios: close-but-different path losses / sampling intervals / tap powers, caller-side argument '
                'buffers refilled in place, overwritten after the call, one array in two roles')
    core.prove(ctx, MODULE, generated=['Slice'], drivers=[DRIVER], scratch=ctx.scratch)
    ctx.required_branches = list(REQUIRED)
    np.random.seed(ctx.rng.below(1 << 31))
    import warnings
    with warnings.catch_warnings():
        warnings.simplefilter('ignore')
        try:
            correspondence(ctx, 900 if quick else 9000, 300 if quick else 3000, quick)
            discretize_corr(ctx, 600 if quick else 8000)
            from harness.props import c03_r1516 as rx
            rx.disc_close_corr(ctx, 150 if quick else 3000)
            rx.ctor_corr(ctx, 150 if quick else 3000)
            slice_corr(ctx, 16, exhaustive=not quick)
            fft_contract(ctx, 100 if quick else 2000)
            if not quick:
                ctx.extra['exhaustive_slices'] = 'all (start, stop, step) in [None, -N-2..N+2] x [None, -N-1..N+1], N <= 16'
        except core.Infra as e:
            if not ctx.broken:
                raise
            ctx.notes.append('correspondence skipped: %s' % e)
            ctx.required_branches = [b for b in REQUIRED if b.startswith('oracle:')]
        oracles(ctx, 300 if quick else 4000, 90 if quick else 1200, 200 if quick else 3000)
        from harness.props import c03_r1516 as rx
        rx.oracles(ctx, 30 if quick else 600)


def search(ctx):
    """deeper failing-input search on the real code: every slice geometry for fft <= 12, SISO"""
    for fft in range(1, 13):
        for a in [None] + list(range(-fft - 1, fft + 2)):
            for b in [None] + list(range(-fft - 1, fft + 2)):
                for c in (None, 1, 2, 3, 4, 5, -1, -2, -3):
                    sl = [a, b, c]
                    B = len(range(*slice(*sl).indices(fft)))
                    if B == 0:
                        continue
                    case = {'level': 'tdl', 'npseed': 5, 'jakes': False, 'ant': None, 'Ts': 1.0,
                            'powers_dB': [0.0, -3.0], 'delays_s': [0.0, 2.0],
                            'ops': [{'op': 'fx', 'fft': fft, 'sel': {'kind': 'slice', 'slice': sl},
                                     'x': gen_signal(ctx.rng, 1, B)}]}
                    run_oracle(ctx, 'transmit', case)
        if len(ctx.failures) > 20:
            break
    if not ctx.failures:
        oracles(ctx, 1500, 300, 500)
