"""C01 — robustness classes R15 / R16 (helper module of harness/props/c01.py; not a property module).

R15  distinct values that are merely close.  The places where the code of C01 compares, thresholds or
     replaces a value are: the argmin of `demodulate` (two samples next to each other on two sides of a
     decision boundary; samples of tiny magnitude, which all "equal" 0 for `np.isclose` but lie in different
     decision regions; far-away samples 1e-6 apart in relative terms), the sign test of BPSK, the 1e-15
     snap of the PSK table, `setPhaseOffset` (a new offset next to the old one must take effect), and the
     cardinality guards (2^k +- 1).  Every value gets the result of a first-principles computation for
     THAT value.
R16  argument identity and buffer reuse.  The caller keeps ONE preallocated array per role and refills it in
     place before every call on one long-lived object; hands the library's own arrays back to it (the table
     as received data, a returned index array as `modulate` argument, one table array for two modulators);
     overwrites the argument right after the call.  The k-th result must be what a freshly built object
     returns for a copy of the contents, and earlier results must stay what they were.

Margins (near-ties of the discrete decision): a sample takes part only if the exact gap between the two
smallest squared distances, computed by the Lean driver (`margin2`) / by exact rational arithmetic here, is
at least 2^-38 of the second smallest squared distance.  binary64 evaluates |c - z| with a relative error
below 2^-51, so the argmin of the code is the exact one whenever the gap exceeds 2^-48 of that distance:
the rule keeps a factor 1000 and is purely relative (no absolute floor: samples of magnitude 2^-37 and
pairs 1e-11 apart are decided, not skipped).
"""
import math
from fractions import Fraction

import numpy as np

from harness import core

REL = Fraction(1, 2 ** 38)
EPS = 2.0 ** -52


def B():
    from harness.props import c01
    return c01


# ------------------------------------------------------------------ exact helpers
def frac_table(symbols):
    return [(Fraction(float(c.real)), Fraction(float(c.imag))) for c in np.asarray(symbols, dtype=complex).ravel()]


def exact_best(tab, z):
    """exact nearest index and whether the decision is outside the rounding zone (relative rule above)"""
    z = complex(z)
    zr, zi = Fraction(z.real), Fraction(z.imag)
    ds = [(a - zr) * (a - zr) + (b - zi) * (b - zi) for a, b in tab]
    order = sorted(range(len(ds)), key=lambda k: (ds[k], k))
    d1, d2 = ds[order[0]], ds[order[1]]
    return order[0], (d2 > d1 and d2 - d1 >= REL * d2)


def safe_from_margin2(tok):
    d1, d2 = (Fraction(t) for t in tok.split('|'))
    return d2 > d1 and d2 - d1 >= REL * d2


def g2b(i):
    n, s = i, i >> 1
    while s:
        n ^= s
        s >>= 1
    return n


def psk_natural(M, phi):
    """first principles: point k of the M-PSK circle with offset phi, and the tolerance of each entry:
    the 1e-15 snap of the code plus 8 ulp of the phase (the phase 2 pi k / M + phi is itself rounded)"""
    th = [2.0 * math.pi / M * k + phi for k in range(M)]
    pts = np.array([complex(math.cos(t), math.sin(t)) for t in th])
    tol = np.array([1e-15 + 8 * EPS * max(1.0, abs(t)) for t in th])
    return pts, tol


def table_mismatch(tab, M, phi, gray):
    pts, tol = psk_natural(M, phi)
    if gray:
        perm = [g2b(i) for i in range(M)]
        pts, tol = pts[perm], tol[perm]
    tab = np.asarray(tab, dtype=complex)
    if tab.shape != pts.shape:
        return 'table of shape %s' % (tab.shape,)
    err = np.maximum(np.abs(tab.real - pts.real), np.abs(tab.imag - pts.imag))
    bad = np.nonzero(err > tol)[0]
    if bad.size:
        k = int(bad[0])
        return 'entry %d is %r, exp(j(2 pi k/M + %r)) gives %r (off by %.3g, tolerance %.3g)' % (
            k, complex(tab[k]), phi, complex(pts[k]), err[k], tol[k])
    return None


# ------------------------------------------------------------------ generators
def bisector_pair(rng, s, rel, R=0.0):
    """two samples at +-eps from the bisector of a point and its nearest neighbour (R > 0: far out along the
    bisector, away from the origin; eps relative to R, i.e. the two samples differ by 2*rel relatively)"""
    s = np.asarray(s, dtype=complex)
    i = rng.below(s.size)
    d = np.abs(s - s[i])
    d[i] = np.inf
    j = int(np.argmin(d))
    D = abs(s[j] - s[i])
    u = (s[j] - s[i]) / D
    v = 1j * u
    mid = (s[i] + s[j]) / 2
    if R:
        sgn = 1.0 if (mid.conjugate() * v).real >= 0 else -1.0
        base, eps = mid + sgn * R * v, rel * R
    else:
        base, eps = mid + rng.uniform(-0.3, 0.3) * D * v, rel * D
    return complex(base - eps * u), complex(base + eps * u)


BISECTOR_RELS = [1e-6, 1e-8, 1e-9, 1e-10, 1e-11, 3e-12]


def gen_pairs(rng, sym, tag, n):
    """n pairs of close-but-distinct samples of one class; a pair is re-drawn (bisector pairs: moved apart by
    factors of 10) until both decisions are outside the rounding zone, so that no pair is generated in vain"""
    tab = frac_table(sym)

    def safe(pair):
        return all(exact_best(tab, z)[1] for z in pair)

    def draw(t, attempt):
        if tag == 'bisector':
            return bisector_pair(rng, sym, BISECTOR_RELS[t % len(BISECTOR_RELS)] * 10.0 ** attempt)
        if tag == 'tiny':
            k = rng.randint(30, 37) - attempt
            z = complex(round(rng.uniform(-3, 3) * 64) / 64 + 1 / 128.0, round(rng.uniform(-3, 3) * 64) / 64 + 1 / 256.0) * 2.0 ** -k
            return z, [-z, z / 8, z * (1 + 2.0 ** -20), z.conjugate()][t % 4]
        if tag == 'large':
            if t % 3 == 2:
                th = rng.uniform(0, 2 * math.pi)
                e = complex(math.cos(th), math.sin(th))
                return 2.4e9 * e, (2.4e9 + 2e4) * e
            return bisector_pair(rng, sym, 5e-7 * 10.0 ** attempt, R=[1e3, 1e5][t % 3])
        if tag == 'adjacent':
            z = complex(rng.uniform(-1.5, 1.5), rng.uniform(-1.5, 1.5))
            return z, complex(np.nextafter(z.real, 9.0), np.nextafter(z.imag, -9.0))
        raise ValueError(tag)

    out = []
    for t in range(n):
        for attempt in range(6):
            pair = draw(t, attempt)
            if safe(pair):
                break
        out.append(pair)
    return out


OFFSET_PAIRS = [  # (tag, phi, phi2)
    ('tiny', 0.0, 1e-9), ('tiny', 1e-9, 1e-11), ('tiny', 1e-13, 0.0), ('tiny', -1e-9, 1e-9), ('tiny', 1e-12, 1e-15),
    ('abs1e-9', 0.7, 0.7 + 1e-9), ('abs1e-12', 0.3, 0.3 + 1e-12), ('abs1e-12', math.pi / 4, math.pi / 4 - 3e-13),
    ('adjacent', 0.3, 0.30000000000000004), ('adjacent', 1.0, float(np.nextafter(1.0, 2.0))),
    ('rel1e-6', 1000.0, 1000.001), ('rel1e-6', 2.4e9, 2.4e9 + 2e4), ('rel1e-6', -6.25, -6.25 * (1 + 1e-6)),
]

BPSK_VALUES = [1e-9, 1e-12, 1e-15, 1e-18, 1e-100, 1e-300, 5e-324, 2.2250738585072014e-308, 1e-8 * 0.999, 4e-12, 4e-13]


# ------------------------------------------------------------------ R15 oracles
def build(case, offset=None):
    """the modulator of a case: by the constructor, or (`via: setter`) by PSK(M, other) + setPhaseOffset"""
    b = B()
    f = b._f()
    if case.get('via') == 'setter':
        m = f.PSK(case['M'], 0.25)
        m.setPhaseOffset(case.get('phase', 0.0))
    else:
        m = b.make_mod(case['kind'], case['M'], case.get('phase', 0.0))
    if offset is not None:
        m.setPhaseOffset(offset)
    if case.get('generic'):
        g = f.Modulator()
        g.setConstellation(np.array(m.symbols))
        return g
    return m


def o_close_samples(case):
    """R15: pairs of close-but-distinct samples; every sample must get the index that exact arithmetic gives for
    THAT sample: (A) all in one array, (B) in consecutive calls on one object, alternating, (C) in arrays that
    differ from the previous call in one entry only, (D) as 0-d arrays"""
    m = build(case)
    tag, kind = case['tag'], case['kind']
    sym = np.asarray(m.symbols, dtype=complex)
    tab = frac_table(sym)
    zs = [complex(*p) for pair in case['pairs'] for p in pair]
    exp = [exact_best(tab, z) for z in zs]
    cls = 'close:not-nearest:%s:%s' % (tag, kind)

    def cmp(got, ks, how):
        got = np.asarray(got).ravel()
        for g, k in zip(got, ks):
            if exp[k][1] and int(g) != exp[k][0]:
                other = zs[k ^ 1]
                return cls, '%s: sample %r -> %d, nearest is %d (its close companion %r -> %d)' % (
                    how, zs[k], g, exp[k][0], other, exp[k ^ 1][0])
        return None

    n = len(zs)
    order = list(range(n)) + list(range(n - 1, -1, -1))
    r = cmp(m.demodulate(np.array([zs[k] for k in order])), order, 'one array')
    if r:
        return r
    for p in range(0, n, 2):
        for k in (p, p + 1, p, p + 1):
            r = cmp(m.demodulate(np.array([zs[k]])), [k], 'consecutive calls')
            if r:
                return r
        for ks in ([p, p], [p, p + 1], [p + 1, p + 1], [p + 1, p]):
            r = cmp(m.demodulate(np.array([zs[k] for k in ks])), ks, 'array differing in one entry from the previous call')
            if r:
                return r
        for k in (p, p + 1):
            r = cmp(m.demodulate(np.array(zs[k])), [k], '0-d array')
            if r:
                return r
    return None


def o_close_bpsk(case):
    """R15: the BPSK sign detector decides every non-zero real sample by its sign, however small"""
    m = B().make_mod('BPSK', 2)
    xs = []
    for v in case['values']:
        xs += [v, -v]
    exp = [1 if x < 0 else 0 for x in xs]
    got = np.asarray(m.demodulate(np.array(xs)))
    for x, g, e in zip(xs, got, exp):
        if int(g) != e:
            return 'close:bpsk-sign:one-array', 'sample %r -> %d, nearest of +1/-1 is index %d' % (x, g, e)
    for x, e in zip(xs, exp):
        for arr in (np.array([x]), np.array(x), np.array([[x, -x]])):
            g = np.asarray(m.demodulate(arr)).ravel()[0]
            if int(g) != e:
                return 'close:bpsk-sign:consecutive', 'sample %r -> %d, nearest of +1/-1 is index %d' % (x, g, e)
    return None


def o_close_offsets(case):
    """R15: two phase offsets that are close but not equal.  Each gives its own table (first principles:
    exp(j(2 pi k/M + phi)), Gray order from the constructor, natural order from the setter); a setter call with
    the close value takes effect on a used object: the table equals bit for bit the one of a fresh object
    configured by the same call; decisions and round trip refer to the table in force"""
    b = B()
    f = b._f()
    M, tag = case['M'], case['tag']
    idx = np.arange(M)
    for phi, phi2 in ((case['phi'], case['phi2']), (case['phi2'], case['phi'])):
        o = f.PSK(M, phi)
        r = table_mismatch(o.symbols, M, phi, gray=True)
        if r:
            return 'close:offset:constructor-table:' + tag, 'PSK(%d, %r): %s' % (M, phi, r)
        zs = np.array([complex(*p) for p in case['samples']])
        o.demodulate(zs), o.demodulate(np.asarray(o.modulate(idx)))
        for step, ph in enumerate((phi2, phi, phi2)):
            o.setPhaseOffset(ph)
            tab = np.array(o.symbols, copy=True)
            r = table_mismatch(tab, M, ph, gray=False)
            if r:
                return 'close:offset:setter-table:' + tag, 'PSK(%d, %r) then setPhaseOffset %s: %s' % (
                    M, phi, [phi2, phi, phi2][:step + 1], r)
            fresh = f.PSK(M, 0.123456789)
            fresh.setPhaseOffset(ph)
            if not np.array_equal(tab, np.asarray(fresh.symbols)):
                return 'close:offset:setter-vs-fresh:' + tag, \
                    'PSK(%d, %r) then setPhaseOffset %s: table differs from PSK(%d, 0.123456789) + setPhaseOffset(%r)' % (
                        M, phi, [phi2, phi, phi2][:step + 1], M, ph)
            if not np.array_equal(np.asarray(o.demodulate(np.asarray(o.modulate(idx)))), idx):
                return 'close:offset:roundtrip:' + tag, 'round trip after setPhaseOffset(%r)' % ph
            ft = frac_table(tab)
            near = [bisector_pair(core.Rng(case['seed'], 'o%d' % step), tab, 1e-7) for _ in range(1)]
            probe = np.array([z for pr in near for z in pr] + list(zs))
            got = np.asarray(o.demodulate(probe))
            for z, g in zip(probe, got):
                best, safe = exact_best(ft, z)
                if safe and int(g) != best:
                    return 'close:offset:not-nearest:' + tag, 'after setPhaseOffset(%r): sample %r -> %d, nearest %d' % (
                        ph, complex(z), g, best)
    return None


# ------------------------------------------------------------------ R16 oracles
def _arr(vals, shape, bpsk):
    a = np.array([complex(*p) for p in vals]).reshape(shape)
    return a.real.copy() if bpsk else a


def o_reuse(case):
    """R16 (i), (iii), (iv): ONE long-lived object, ONE received-data array and ONE index array that the
    caller refills in place before every call and overwrites right after it.  Every result equals what a
    freshly built object (same configuration) returns for a copy of the contents, and first principles
    (exact nearest point / table entry); results are new arrays; earlier results never change"""
    b = B()
    kind, M = case['kind'], case['M']
    bpsk = kind == 'BPSK' and not case.get('generic')
    shape = tuple(case['shape'])
    m = build(case)
    rx = np.empty(shape, dtype=float if bpsk else complex)
    ix = np.empty(shape, dtype=int)
    lst = []                 # ONE python list of indexes, refilled in place (lst[:] = ...)
    offset = None
    kept = []
    who = ('GEN:' if case.get('generic') else '') + kind
    for n, step in enumerate(case['steps']):
        if step['op'] == 'offset':
            offset = step['phase']
            if case.get('generic'):
                m.setConstellation(np.array(build(dict(case, generic=False), offset).symbols))
            else:
                m.setPhaseOffset(offset)
            continue
        fresh = build(case, offset)
        sym = np.asarray(fresh.symbols, dtype=complex)
        if step['op'] == 'demod':
            contents = _arr(step['samples'], shape, bpsk)
            buf = rx
            buf[...] = contents
            out = m.demodulate(buf)
            twin = np.asarray(fresh.demodulate(contents.copy()))
            tab = frac_table(sym)
            first = [exact_best(tab, z) for z in contents.ravel()]
            ok_first = all((not s) or int(g) == e for g, (e, s) in zip(np.asarray(out).ravel(), first))
        else:
            contents = np.array(step['idx'], dtype=int).reshape(shape)
            buf = ix
            buf[...] = contents
            out = m.modulate(buf)
            twin = np.asarray(fresh.modulate(contents.copy()))
            want = (1 - 2 * contents) if bpsk else sym[contents]
            ok_first = np.array_equal(np.asarray(out), want)
            if not bpsk:         # (BPSK.modulate compares `inputData > 1`: python lists are not an accepted form there)
                lst[:] = contents.ravel().tolist()
                lout = np.asarray(m.modulate(lst))
                if not np.array_equal(lout, want.ravel()):
                    return 'reuse:stale-result:mod-list:%s' % who, \
                        '%s call #%d: modulate(list refilled in place) is not the table entries of its contents' % (who, n + 1)
                if lst != contents.ravel().tolist():
                    return 'reuse:argument-modified:mod-list:%s' % who, 'modulate changed the list it was given'
                kept.append(('%s call #%d (mod, list)' % (who, n + 1), lout, np.array(lout, copy=True)))
                lst[:] = [0] * len(lst)
        call = '%s call #%d (%s)' % (who, n + 1, step['op'])
        if np.shape(out) != shape or not np.array_equal(np.asarray(out), twin):
            return 'reuse:stale-result:%s:%s' % (step['op'], who), \
                '%s with the refilled array differs from a fresh object on a copy of the contents' % call
        if not ok_first:
            return 'reuse:wrong-result:%s:%s' % (step['op'], who), '%s: not the nearest point / table entry' % call
        if not np.array_equal(buf, contents):
            return 'reuse:argument-modified:%s:%s' % (step['op'], who), '%s changed the array it was given' % call
        if isinstance(out, np.ndarray) and np.shares_memory(out, buf):
            return 'reuse:result-aliases-argument:%s:%s' % (step['op'], who), '%s returned a view of its argument' % call
        kept.append((call, out, np.array(out, copy=True)))
        # (iii) the caller overwrites its array right after the call
        buf[...] = (np.nan if step['op'] == 'demod' else 0)
        for c, o, o0 in kept:
            if not np.array_equal(o, o0):
                return 'reuse:earlier-result-changed:%s' % who, 'result of %s changed after %s' % (c, call)
    return None


def o_roles(case):
    """R16 (ii): one array object in two roles — the object's own table as received data, arrays returned by
    the library handed back to it and then overwritten, one table array shared by two modulators, one array as
    table and as received data"""
    b = B()
    f = b._f()
    kind, M = case['kind'], case['M']
    m = build(case)
    who = kind
    sym0 = np.array(m.symbols, copy=True)
    idx = np.array(case['idx'], dtype=int)
    # the table itself as received data
    d = np.asarray(m.demodulate(m.symbols))
    if not np.array_equal(d, np.arange(M)):
        return 'roles:table-as-received-data:' + who, 'demodulate(obj.symbols) != arange(M)'
    if not np.array_equal(np.asarray(m.symbols), sym0):
        return 'roles:table-modified:' + who, 'demodulate(obj.symbols) changed the table'
    # the library's own outputs handed back, then overwritten by the caller
    s = m.modulate(idx)
    s0 = np.array(s, copy=True)
    d = m.demodulate(s)
    if not np.array_equal(np.asarray(d), idx):
        return 'roles:roundtrip:' + who, 'demodulate(modulate(idx)) != idx'
    s2 = m.modulate(d)
    if not np.array_equal(np.asarray(s2), s0):
        return 'roles:modulate-of-returned-indexes:' + who, 'modulate(demodulate(s)) != s'
    s2_0 = np.array(s2, copy=True)
    newd = (np.asarray(d) + 1) % M
    d[...] = newd
    if not np.array_equal(s2, s2_0) or not np.array_equal(s, s0):
        return 'roles:earlier-result-changed:' + who, 'overwriting the returned index array changed earlier symbol arrays'
    s3 = np.asarray(m.modulate(d))
    want = (1 - 2 * newd) if kind == 'BPSK' else sym0[newd]
    if not np.array_equal(s3, want):
        return 'roles:stale-result:' + who, 'modulate of the overwritten index array returns the symbols of its old contents'
    if kind != 'BPSK':
        s[...] = sym0[newd]
        if not np.array_equal(np.asarray(m.demodulate(s)), newd):
            return 'roles:stale-result:' + who, 'demodulate of the overwritten symbol array returns the decisions of its old contents'
    if not np.array_equal(np.asarray(m.symbols), sym0):
        return 'roles:table-modified:' + who, 'table changed by calls that are not setters'
    # one table array, two modulators
    g = f.Modulator()
    g.setConstellation(m.symbols)
    zs = np.array([complex(*p) for p in case['samples']])
    zz = zs.real.copy() if kind == 'BPSK' else zs
    before = np.array(g.demodulate(zs), copy=True)
    if kind in ('PSK', 'QPSK'):
        m.setPhaseOffset(case['offset'])
        m.demodulate(zz), m.modulate(idx)
    else:
        m.demodulate(zz), m.modulate(idx)
    tab = frac_table(sym0)
    got = np.asarray(g.demodulate(zs))
    for z, gk in zip(zs, got):
        best, safe = exact_best(tab, z)
        if safe and int(gk) != best:
            return 'roles:shared-table:' + who, 'a second modulator given obj.symbols changed when the first was reconfigured / used'
    if not np.array_equal(got, before) or not np.array_equal(np.asarray(g.modulate(idx)), sym0[idx]):
        return 'roles:shared-table:' + who, 'a second modulator given obj.symbols changed when the first was reconfigured / used'
    # one array as table and as received data
    buf = np.array(sym0)
    h = f.Modulator()
    h.setConstellation(buf)
    d = np.asarray(h.demodulate(buf))
    if not np.array_equal(d, np.arange(M)) or not np.array_equal(buf, sym0):
        return 'roles:table-argument-as-received-data:' + who, 'setConstellation(a); demodulate(a) != arange(M) or a modified'
    return None


def o_set_constellation_argument(case):
    """R16 (iii) for `Modulator.setConstellation(symbols)`: the table of the object is the contents of the
    array at the time of the call; the caller may refill or overwrite its array afterwards (e.g. to configure
    the next modulator from the same scratch array)"""
    f = B()._f()
    t1 = np.array([complex(*p) for p in case['table']])
    t2 = np.array([complex(*p) for p in case['table2']])
    zs = np.array([complex(*p) for p in case['samples']])
    buf = np.array(t1)
    g = f.Modulator()
    g.setConstellation(buf)
    if not np.array_equal(buf, t1):
        return 'setConstellation-modifies-argument', 'the array handed to setConstellation was changed'
    tab = frac_table(t1)
    first = [exact_best(tab, z) for z in zs]
    d1 = np.asarray(g.demodulate(zs))
    for z, gk, (e, s) in zip(zs, d1, first):
        if s and int(gk) != e:
            return 'setConstellation-not-nearest', 'sample %r -> %d, nearest %d' % (complex(z), gk, e)
    buf[...] = t2           # the caller reuses its array
    d2 = np.asarray(g.demodulate(zs))
    s2 = np.asarray(g.modulate(np.arange(t1.size)))
    for z, gk, (e, s) in zip(zs, d2, first):
        if s and int(gk) != e:
            return 'setConstellation-keeps-argument', \
                'after the caller refilled the array it had passed to setConstellation: sample %r -> %d, ' \
                'nearest point of the installed table is %d' % (complex(z), gk, e)
    if not np.array_equal(s2, t1):
        return 'setConstellation-keeps-argument', 'modulate returns the new contents of the caller\'s array'
    return None


def _observable(m):
    """what a user can see of a modulator without sending anything through it"""
    return {'M': int(m.M), 'K': float(m.K), 'symbols': np.array(m.symbols, dtype=complex).tolist(),
            'name': type(m).__name__}


ODD_TABLES = [
    ('duplicates-same-size', lambda n: [1 + 0j] * 2 + [np.exp(2j * np.pi * k / n) for k in range(2, n)] if n >= 2 else [1 + 0j]),
    ('duplicates-smaller', lambda n: [1j, 1j, -1 + 0j, 1 + 0j][:max(2, n // 2)] if n > 2 else [1 + 0j]),
    ('duplicates-larger', lambda n: [0.5 + 0j, 0.5 + 0j] + [np.exp(2j * np.pi * k / (2 * n)) for k in range(2 * n - 2)]),
    ('distinct-other-size', lambda n: [np.exp(2j * np.pi * k / (2 * n)) for k in range(2 * n)]),
    ('single-point', lambda n: [1 + 0j]),
    ('all-equal', lambda n: [0.5 - 0.5j] * n),
]


def o_set_constellation_odd(case):
    """R4 for setConstellation on an EXISTING object of every class: whatever table it is given, the call either
    raises and leaves the object exactly as it was (M, K, table, behaviour), or installs the table consistently
    (M = number of points, K = log2 M, modulate(i) = table[i], indexes >= M refused).  Which of the two
    happens is the library's choice; a call that raises after it changed something is what must not happen"""
    m = build(case)
    n = int(m.M)
    for name, mk in ODD_TABLES:
        tab = np.array(mk(n), dtype=complex)
        before = _observable(m)
        try:
            m.setConstellation(tab)
            raised = None
        except Exception as e:
            raised = type(e).__name__
        after = _observable(m)
        cls = 'setConstellation:%s:%s' % (name, case['kind'])
        if raised is not None:
            if after != before:
                diff = [k for k in before if before[k] != after[k]]
                return ('rejected-call-changed-the-object:' + cls,
                        '%s raised, but %s changed: M %r -> %r, table size %d' % (raised, diff, before['M'], after['M'],
                                                                                 len(after['symbols'])))
        else:
            if after['M'] != tab.size or len(after['symbols']) != tab.size:
                return 'accepted-table-not-installed:' + cls, 'M=%r, %d symbols, table of %d' % (after['M'], len(after['symbols']), tab.size)
            if tab.size >= 1 and abs(after['K'] - math.log2(tab.size)) > 1e-12:
                return 'accepted-table-wrong-K:' + cls, 'K=%r for %d points' % (after['K'], tab.size)
        # in either case the object must still be usable and self-consistent
        M = int(m.M)
        sym = np.asarray(m.symbols, dtype=complex)
        if sym.size != M:
            return 'M-differs-from-table-size:' + cls, 'M=%d, %d symbols (raised=%s)' % (M, sym.size, raised)
        if type(m).__name__ != 'BPSK':
            try:
                out = np.asarray(m.modulate(np.arange(M)))
            except Exception as e:
                return 'valid-indexes-refused:' + cls, '%s after the call (raised=%s)' % (type(e).__name__, raised)
            if not np.array_equal(out, sym):
                return 'modulate-not-the-table:' + cls, 'after the call (raised=%s)' % raised
            try:
                m.modulate(np.array([M]))
                return 'index-M-accepted:' + cls, 'modulate([%d]) emitted a symbol (raised=%s)' % (M, raised)
            except ValueError:
                pass
            except Exception as e:
                return 'index-M-wrong-exception:' + cls, type(e).__name__
    return None


ORACLES = {'setConstellation.odd-tables': o_set_constellation_odd, 'close.samples': o_close_samples, 'close.bpsk': o_close_bpsk, 'close.offsets': o_close_offsets,
           'reuse': o_reuse, 'roles': o_roles, 'setConstellation.argument': o_set_constellation_argument}


# ------------------------------------------------------------------ scenario sets
def pairs_json(pairs):
    return [[[a.real, a.imag], [c.real, c.imag]] for a, c in pairs]


def sample_mods(ctx, rng, deep=None):
    """(kind, M, phase, via) for the R15 sample streams"""
    deep = ctx.tier == 'thorough' if deep is None else deep
    out = [('QPSK', 4, 0.0, None), ('PSK', 2, 0.0, None), ('PSK', 2, 1e-9, None), ('PSK', 4, 0.0, None),
           ('PSK', 8, rng.uniform(-7, 7), None), ('PSK', 8, 1e-12, 'setter'), ('PSK', 16, rng.uniform(-7, 7), 'setter'),
           ('QAM', 4, 0.0, None), ('QAM', 16, 0.0, None), ('QAM', 64, 0.0, None)]
    if deep:
        out += [('PSK', 32, rng.uniform(-7, 7), None), ('PSK', 64, 1e-9, None), ('PSK', 256, 0.0, None),
                ('PSK', 1024, rng.uniform(-7, 7), None), ('QAM', 256, 0.0, None), ('QAM', 1024, 0.0, None)]
    else:
        out += [('PSK', 256, rng.uniform(-7, 7), None), ('QAM', 256, 0.0, None)]
    return out


def reuse_cases(ctx, rng, deep=None):
    """R16 histories of 2–4 calls for every object kind (+ the generic Modulator with a copied table)"""
    b = B()
    deep = ctx.tier == 'thorough' if deep is None else deep
    out = []
    kinds = [('BPSK', 2, 0.0, False), ('QPSK', 4, 0.0, False), ('PSK', 8, rng.uniform(-7, 7), False),
             ('QAM', 16, 0.0, False), ('QAM', 16, 0.0, True), ('PSK', 4, 0.3, True), ('PSK', 2, 0.0, False),
             ('QAM', 64, 0.0, False)]
    if deep:
        kinds += [(k, M, rng.uniform(-7, 7) if k == 'PSK' else 0.0, rng.chance(0.3))
                  for k, M in (('PSK', 16), ('PSK', 64), ('QAM', 4), ('QAM', 256), ('PSK', 32), ('QPSK', 4), ('BPSK', 2)) for _ in range(6)]
    for kind, M, phase, generic in kinds:
        for variant in range(4 if deep else 2):
            shape = [[6], [2, 3], [3, 1, 2], [1, 6]][(variant + M) % 4]
            n = int(np.prod(shape))
            sym = np.asarray(b.make_mod(kind, M, phase).symbols, dtype=complex)
            steps = []
            ops = [['demod', 'demod', 'mod', 'demod'], ['mod', 'mod', 'demod', 'mod'], ['demod', 'mod', 'demod'],
                   ['mod', 'demod']][variant % 4]
            for k, op in enumerate(ops):
                if kind == 'PSK' and k == 2 and variant % 2 == 0:
                    ph = rng.uniform(-7, 7)
                    steps.append({'op': 'offset', 'phase': ph})
                    sym = np.asarray(build({'kind': kind, 'M': M, 'phase': phase}, ph).symbols, dtype=complex)
                if op == 'demod':
                    z = b.gen_samples(rng, sym, n, rng.choice(['near', 'uniform', 'boundary']))
                    if kind == 'BPSK' and not generic:
                        z = z.real + 0j
                    steps.append({'op': 'demod', 'samples': [[c.real, c.imag] for c in z]})
                else:
                    steps.append({'op': 'mod', 'idx': [rng.below(M) for _ in range(n)]})
            out.append({'kind': kind, 'M': M, 'phase': phase, 'generic': generic, 'shape': shape, 'steps': steps})
    return out


def run(ctx, call, case, key, branch):
    b = B()
    before = len(ctx.failures)
    b.run_oracle(ctx, call, case, key=key)
    if len(ctx.failures) == before:
        ctx.branch(branch)


ALIAS_CASE = {'table': [[1.0, 1.0], [-1.0, 1.0], [-1.0, -1.0], [1.0, -1.0]],
              'table2': [[-1.0, -1.0], [1.0, -1.0], [1.0, 1.0], [-1.0, 1.0]],
              'samples': [[0.5, 0.75], [-2.0, 0.25], [-0.125, -3.0], [1.5, -0.5]]}


def corpus_cases():
    """corpus/c01/*.json: minimised inputs that separated earlier property-breaking edits; replayed on every run"""
    import json
    import os
    d = os.path.join(core.VERIF, 'corpus', 'c01')
    out = []
    if os.path.isdir(d):
        for fn in sorted(os.listdir(d)):
            if fn.endswith('.json'):
                with open(os.path.join(d, fn)) as fh:
                    out += json.load(fh)
    return out


def oracles(ctx, deep=None, stream='oracles'):
    b = B()
    for n, rec in enumerate(corpus_cases()):
        run(ctx, rec['call'], rec['case'], ('corpus', n), 'oracle:corpus:' + rec['class'])
    rng = core.Rng(ctx.seed, 'C01/robust/' + stream)
    deep = ctx.tier == 'thorough' if deep is None else deep
    quick = not deep
    # ---- R15 samples
    for kind, M, phase, via in sample_mods(ctx, rng, deep):
        case0 = {'kind': kind, 'M': M, 'phase': phase, 'via': via}
        sym = np.asarray(build(case0).symbols, dtype=complex)
        tags = ['bisector', 'tiny', 'large', 'adjacent'] if M <= 16 else ['bisector', 'large', 'adjacent']
        for tag in tags:
            n = (6 if tag == 'bisector' else 4) if (quick or M > 64) else 18
            pairs = gen_pairs(rng, sym, tag, n)
            run(ctx, 'close.samples', dict(case0, tag=tag, pairs=pairs_json(pairs)), ('close', kind, M, phase != 0, via, tag),
                'oracle:R15:sample-pair:' + tag)
    run(ctx, 'close.bpsk', {'values': BPSK_VALUES + [rng.uniform(0, 1) * 10.0 ** -rng.randint(9, 300) for _ in range(8)]},
        ('close-bpsk',), 'oracle:R15:bpsk-sign')
    # ---- R15 offsets
    Ms = [2, 4, 8, 64] if quick else [2, 4, 8, 16, 64, 256, 1024]
    for t, (tag, phi, phi2) in enumerate(OFFSET_PAIRS):
        for M in (Ms if not quick else [Ms[t % len(Ms)], Ms[(t + 1) % len(Ms)]]):
            z = b.gen_samples(rng, np.asarray(b.make_mod('PSK', M, phi2).symbols), 6, 'uniform')
            run(ctx, 'close.offsets', {'M': M, 'phi': phi, 'phi2': phi2, 'tag': tag, 'seed': rng.below(1 << 30),
                                       'samples': [[c.real, c.imag] for c in z]}, ('close-off', M, t),
                'oracle:R15:offset-pair:' + tag)
    # ---- R15 cardinalities next to supported ones (relative distance down to 1e-6)
    import warnings
    with warnings.catch_warnings():
        warnings.simplefilter('ignore')
        for M in (4095, 4097, 2 ** 16 - 1, 2 ** 16, 2 ** 16 + 1, 2 ** 20 - 1, 2 ** 20 + 1):
            run(ctx, 'constructor', {'kind': 'PSK', 'M': M}, ('close-psk', M), 'oracle:R15:constructor')
        for M in (4 ** 6 - 1, 4 ** 6 + 1, 2 * 4 ** 6, 4 ** 7 - 1, 4 ** 7, 4 ** 7 + 1, 4 ** 8 + 1, 4 ** 10 - 1, 4 ** 10 + 1):
            run(ctx, 'constructor', {'kind': 'QAM', 'M': M}, ('close-qam', M), 'oracle:R15:constructor')
    # ---- R16
    for case in reuse_cases(ctx, rng, deep):
        who = ('GEN' if case['generic'] else case['kind'])
        run(ctx, 'reuse', case, ('reuse', who, case['kind'], case['M'], tuple(case['shape']), len(case['steps'])),
            'oracle:R16:buffer-refilled:' + who)
    role_mods = [('BPSK', 2, 0.0), ('QPSK', 4, 0.0), ('PSK', 8, rng.uniform(-7, 7)), ('PSK', 2, 0.0), ('QAM', 4, 0.0),
                 ('QAM', 16, 0.0), ('QAM', 64, 0.0)]
    if not quick:
        role_mods += [('PSK', 64, rng.uniform(-7, 7)), ('PSK', 1024, 0.0), ('QAM', 256, 0.0), ('QAM', 1024, 0.0)]
    for kind, M, phase in role_mods:
        sym = np.asarray(b.make_mod(kind, M, phase).symbols, dtype=complex)
        z = b.gen_samples(rng, sym, 8, 'uniform')
        run(ctx, 'roles', {'kind': kind, 'M': M, 'phase': phase, 'idx': [rng.below(M) for _ in range(7)] + [M - 1],
                           'offset': rng.uniform(-7, 7), 'samples': [[c.real, c.imag] for c in z]},
            ('roles', kind, M), 'oracle:R16:two-roles')
    # the generic Modulator keeps the caller's array: known finding C01:setConstellation-keeps-argument
    b.run_oracle(ctx, 'setConstellation.argument', ALIAS_CASE, key=('alias',))
    for kind, M in (('PSK', 8), ('QPSK', 4), ('QAM', 16), ('BPSK', 2), ('PSK', 4)):
        for generic in (False, True):
            b.run_oracle(ctx, 'setConstellation.odd-tables', {'kind': kind, 'M': M, 'phase': 0.0, 'generic': generic},
                         key=('odd', kind, M, generic))
            ctx.branch('oracle:R4:setConstellation-odd-tables')
    ctx.branch('oracle:R16:setConstellation-argument')


# ------------------------------------------------------------------ correspondence
def correspondence(ctx):
    b = B()
    f = b._f()
    drv = core.Driver(b.DRIVER)
    rng = core.Rng(ctx.seed, 'C01/robust/corr')
    quick = ctx.tier == 'quick'
    # ---- R15: close pairs decided by the exact model (margins by the model)
    jobs, lines = [], []
    for kind, M, phase, via in sample_mods(ctx, rng):
        if M > 256:
            continue
        case0 = {'kind': kind, 'M': M, 'phase': phase, 'via': via}
        m = build(case0)
        sym = np.asarray(m.symbols, dtype=complex)
        crat = b.pts_rat(sym)
        for tag in (['bisector', 'tiny', 'large'] if M <= 16 else ['bisector', 'large']):
            pairs = gen_pairs(rng, sym, tag, 6 if quick or M > 64 else 24)
            z = np.array([v for pr in pairs for v in pr])
            got = np.asarray(m.demodulate(z))
            jobs.append((case0, tag, z, got))
            lines += ['demodq %s %s' % (crat, b.pts_rat(z)), 'margin2 %s %s' % (crat, b.pts_rat(z))]
    rep = drv.ask(lines)
    for n, (case0, tag, z, got) in enumerate(jobs):
        mo = [int(t) for t in rep[2 * n].split(',')]
        ms = [safe_from_margin2(t) for t in rep[2 * n + 1].split(',')]
        for k in range(z.size):
            if not ms[k]:
                ctx.branch('corr:R15:near-tie-skipped')
                continue
            ctx.corr('demodulate.close-pair', dict(case0, tag=tag, z=[z[k].real, z[k].imag]), int(got[k]), mo[k],
                     key=('close', case0['kind'], case0['M'], case0['via'], tag, k))
            ctx.branch('corr:R15:close-pair:' + tag)
            if ms[k ^ 1] and mo[k] != mo[k ^ 1]:
                ctx.branch('corr:R15:close-pair:decisions-differ')
    # ---- R15: tables of close offsets (model at Float; 1e-12 as for the other tables; only pairs whose model
    #      tables differ by more than that take part)
    lines, jobs = [], []
    for tag, phi, phi2 in OFFSET_PAIRS:
        if abs(phi2 - phi) < 5e-10 or abs(phi) > 1e6:
            continue
        for M in ([2, 8, 64] if quick else [2, 4, 8, 16, 64, 256, 1024]):
            for ph in (phi, phi2):
                jobs.append((tag, M, ph, np.asarray(f.PSK(M, ph).symbols, dtype=complex)))
                lines.append('psk %d %s' % (M, core.f2s(ph)))
    rep = drv.ask(lines)
    tabs = []
    for (tag, M, ph, sym), r in zip(jobs, rep):
        v = [core.s2f(t) for t in r.split(',')] if not r.startswith('error') else []
        tabs.append(np.array(v[0::2]) + 1j * np.array(v[1::2]))
    for n, (tag, M, ph, sym) in enumerate(jobs):
        tab, other = tabs[n], tabs[n ^ 1]
        tol = 1e-12 * max(1.0, abs(ph))
        ok = tab.shape == sym.shape and np.max(np.abs(tab - sym)) <= tol
        apart = other.shape == tab.shape and np.max(np.abs(tab - other)) > 20 * tol
        ctx.corr('table.PSK.close-offset', {'M': M, 'phase': ph, 'tag': tag}, 'match' if ok else 'differs', 'match',
                 nontrivial=bool(apart), key=('close-table', M, n))
        if apart:
            ctx.branch('corr:R15:offset-table')
    # ---- R16: histories on ONE object with ONE array per role, against the object-with-caller-arrays model.
    # `setConstellation` is modelled as the code that exists (`S`: the caller's array is kept — the known finding
    # the oracle reports) unless the real method is observed not to keep it (`C`: the repair, a copy); whichever
    # it is, the whole history must follow that one semantics
    r = o_set_constellation_argument(ALIAS_CASE)
    SC = 'S' if (r is not None and r[0] == 'setConstellation-keeps-argument') else 'C'
    cases = reuse_cases(ctx, rng)
    runs = []
    lines = []
    for case in cases:
        offset = None
        for step in case['steps']:
            if step['op'] == 'offset':
                offset = step['phase']
            elif step['op'] == 'demod':
                sym = np.asarray(build(dict(case, generic=False), offset).symbols, dtype=complex)
                lines.append('margin2 %s %s' % (b.pts_rat(sym), b.pts_rat(np.array([complex(*p) for p in step['samples']]))))
    margins = drv.ask(lines)
    mi = 0
    lines = []
    for case in cases:
        bpsk = case['kind'] == 'BPSK' and not case['generic']
        shape = tuple(case['shape'])
        n = int(np.prod(shape))
        m = build(case)
        words = ['T=' + b.pts_rat(m.symbols)]
        if case['generic']:
            # the generic modulator was given a caller's array: say so to the model (array 9, never refilled)
            words = ['F9=' + b.pts_rat(m.symbols), SC + '9']
        rx = np.empty(shape, dtype=float if bpsk else complex)
        ix = np.empty(shape, dtype=int)
        outs = []
        for step in case['steps']:
            if step['op'] == 'offset':
                if case['generic']:
                    t = np.array(build(dict(case, generic=False), step['phase']).symbols)
                    m.setConstellation(t)
                    words += ['F8=' + b.pts_rat(t), SC + '8']
                else:
                    m.setPhaseOffset(step['phase'])
                    words.append('T=' + b.pts_rat(m.symbols))
            elif step['op'] == 'demod':
                safe = [safe_from_margin2(t) for t in margins[mi].split(',')]
                mi += 1
                z = np.array([complex(*p) for p in step['samples']])
                # an unsafe sample (near-tie) is replaced by the table's first point (exact, margin = d_min^2)
                z = np.where(safe, z, complex(np.asarray(m.symbols).ravel()[0]))
                rx[...] = (z.real if bpsk else z).reshape(shape)
                words += ['F0=' + b.pts_rat(z), 'D0']
                outs.append(','.join(str(int(v)) for v in np.asarray(m.demodulate(rx)).ravel()))
                rx[...] = np.nan
            else:
                idx = list(step['idx'])
                if len(outs) % 2 == 1 and not case['generic']:
                    idx[len(idx) // 2] = case['M'] + (len(outs) % 3)      # a rejected call inside the history
                ix[...] = np.array(idx).reshape(shape)
                words += ['I0=' + ','.join(map(str, idx)), 'M0']
                try:
                    outs.append(b.pts_rat(np.asarray(m.modulate(ix)).ravel()))
                except ValueError:
                    outs.append('error:ValueError')
                ix[...] = 0
        runs.append((case, ';'.join(outs)))
        lines.append('arun ' + ' '.join(words))
    # the code that exists: setConstellation keeps the caller's array, so a refill reaches the object
    t1 = np.array([complex(*p) for p in ALIAS_CASE['table']])
    t2 = np.array([complex(*p) for p in ALIAS_CASE['table2']])
    zs = np.array([complex(*p) for p in ALIAS_CASE['samples']])
    g = f.Modulator()
    buf = np.array(t1)
    g.setConstellation(buf)
    outs = [','.join(str(int(v)) for v in g.demodulate(zs))]
    buf[...] = t2
    outs.append(','.join(str(int(v)) for v in g.demodulate(zs)))
    outs.append(b.pts_rat(g.modulate(np.array([0, 3]))))
    g.setConstellation(np.array(t1))
    outs.append(','.join(str(int(v)) for v in g.demodulate(zs)))
    lines.append('arun F5=%s %s5 F0=%s D0 F5=%s D0 I0=0,3 M0 F6=%s %s6 D0' % (
        b.pts_rat(t1), SC, b.pts_rat(zs), b.pts_rat(t2), b.pts_rat(t1), SC))
    rep = drv.ask(lines)
    for (case, impl), model in zip(runs, rep[:-1]):
        who = 'GEN' if case['generic'] else case['kind']
        ctx.corr('history.refilled-arrays', case, impl, model,
                 key=('reuse', who, case['kind'], case['M'], tuple(case['shape']), len(case['steps'])))
        ctx.branch('corr:R16:buffer-refilled:' + who)
    ctx.corr('history.setConstellation-argument', dict(ALIAS_CASE, model='keeps' if SC == 'S' else 'copies'),
             ';'.join(outs), rep[-1], key=('alias-corr',))
    ctx.branch('corr:R16:setConstellation-argument')
    ctx.branch('corr:R16:setConstellation-%s-argument' % ('keeps' if SC == 'S' else 'copies'))


REQUIRED = ['oracle:R15:sample-pair:bisector', 'oracle:R15:sample-pair:tiny', 'oracle:R15:sample-pair:large',
            'oracle:R15:sample-pair:adjacent', 'oracle:R15:bpsk-sign', 'oracle:R15:constructor',
            'oracle:R15:offset-pair:tiny', 'oracle:R15:offset-pair:abs1e-9', 'oracle:R15:offset-pair:abs1e-12',
            'oracle:R15:offset-pair:adjacent', 'oracle:R15:offset-pair:rel1e-6',
            'oracle:R16:buffer-refilled:BPSK', 'oracle:R16:buffer-refilled:QPSK', 'oracle:R16:buffer-refilled:PSK',
            'oracle:R16:buffer-refilled:QAM', 'oracle:R16:buffer-refilled:GEN', 'oracle:R16:two-roles',
            'oracle:R16:setConstellation-argument']
REQUIRED_CORR = ['corr:R15:close-pair:bisector', 'corr:R15:close-pair:tiny', 'corr:R15:close-pair:large',
                 'corr:R15:close-pair:decisions-differ', 'corr:R15:offset-table',
                 'corr:R16:buffer-refilled:BPSK', 'corr:R16:buffer-refilled:QPSK', 'corr:R16:buffer-refilled:PSK',
                 'corr:R16:buffer-refilled:QAM', 'corr:R16:buffer-refilled:GEN', 'corr:R16:setConstellation-argument']


def search(ctx):
    """failing-input search when a proof / correspondence broke: the thorough scenario sets on fresh streams"""
    for k in range(2):
        oracles(ctx, deep=True, stream='search%d' % k)
        if any(f['call'] != 'setConstellation.argument' for f in ctx.failures):
            return
