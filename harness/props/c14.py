"""C14 — Jakes fading samples do not depend on how generation was chunked
(DESIGN.md §5 C14).

Model: lean/PyPhysim/Model/C14.lean (state = integer sample counter; request n
returns the process samples k..k+n-1 evaluated at (k+j)*Ts).  Tie to the source:
seeded request histories are run on the real `JakesSampleGenerator` and on the
compiled model; counts, shapes, first-sample numbers, counter, phase epoch and
what get_samples() holds are compared exactly, time vectors to 2 ulp, values to
`tol` (below).  Independent oracles (no model, no formula of the code): closed
form in extended precision at exactly k*Ts, one-request-vs-chunked comparison,
zero-Doppler constancy, |h| <= sqrt(L).
"""
import math

import numpy as np

from harness import core

MODULE = 'PyPhysim.Properties.C14'
DRIVER = 'drv_c14'

CLAIM = {
    'technique': 'Lean 4 induction over request histories on an integer sample-counter model + real-number '
                 'facts about the Jakes sum; exact bookkeeping correspondence and toleranced value correspondence',
    'text': 'For every start state and every finite history of generate / skip / shape requests the model of '
            'JakesSampleGenerator returns exactly the requested number of samples with the configured shape and '
            'entry j of a request is the Jakes sum at time (k0 + samples requested before + j)*Ts for the phase '
            'draw in force (chunking_invariant, chunks_concat_eq_single, skip_is_discarded_generation, '
            'history_counter: induction over the operation list, no bound on sizes or positions); over the reals '
            'Fd = 0 gives a constant process and |h| <= sqrt(L) (triangle inequality by induction over the rays, '
            'bound attained). The model is the index-based time stepping of the repaired code and is tied to it '
            'by seeded histories (positions up to 1e10 reached by skips, n up to 1e5, Ts 1e-9..1, shapes '
            'None/int/tuples, shape reassignments): counts, shapes, sample numbers, counter, epoch compared '
            'exactly, time vectors to 2 ulp, values to sqrt(L)*(1e-12 + 2^-48*phase). The float-stepped arange '
            'of the original code is kept as a separate model with kernel-evaluated binary64 negative witnesses.',
    'note': 'Trusted: Lean kernel, axioms {propext, Classical.choice, Quot.sound}; Lean Float kernel model = '
            'IEEE binary64 for the historical witness only; the correspondence harness for the hand model; '
            'numpy RNG draws of phi/psi are a model parameter (read back from the generator). binary64 rounding '
            'of the Jakes sum is outside the theorems: values are compared with tolerance sqrt(L)*(1e-12 + '
            '2^-48*(2*pi*Fd*t + 2*pi)), which becomes vacuous for Fd*t above ~1e13 cycles (inherent to binary64 '
            'time). Requests with n <= 0, non-integer n and L = 0 (ZeroDivisionError, modelled) are outside '
            'the property quantifier.'}

TWO_PI = 2.0 * math.pi
EPS48 = 2.0 ** -48
# largest observed error / tolerance ratios (reported in the evidence: the margin of the stated tolerances)
STATS = {'oracle_value': 0.0, 'oracle_chunk': 0.0, 'corr_value': 0.0, 'chunk_bit_exact': 0, 'chunk_compared': 0}


# ------------------------------------------------------------------ helpers
def _impl():
    from pyphysim.channels import fading_generators
    return fading_generators


def norm_shape(shape):
    """None | int | tuple  ->  None | tuple   (what the property calls the configured shape)"""
    if shape is None:
        return None
    if isinstance(shape, int):
        return (shape,)
    return tuple(int(d) for d in shape)


def shape_arg(shape):
    """JSON (None | int | list) -> constructor argument"""
    if shape is None or isinstance(shape, int):
        return shape
    return tuple(int(d) for d in shape)


def shape_tok(shape):
    if shape is None:
        return 'n'
    if isinstance(shape, int):
        return 'i%d' % shape
    return 't' + ';'.join(str(int(d)) for d in shape)


def op_tok(op):
    kind, arg = op[0], op[1]
    if kind == 'g':
        return 'g' if arg is None else 'g%d' % arg
    if kind == 's':
        return 's%d' % arg
    return 'S' + shape_tok(arg if not isinstance(arg, list) else tuple(arg))


def tol_for(L, Fd, tmax):
    """stated value tolerance: binary64 phase rounding is ~6*2^-53 relative to the phase"""
    return math.sqrt(max(L, 1)) * (1e-12 + EPS48 * (TWO_PI * abs(Fd) * abs(tmax) + TWO_PI))


def regime(k, n):
    """input class: how far the generator has run relative to the request size"""
    return 'k/n>=2^18' if k >= (max(int(n), 1) << 18) else 'k/n<2^18'


def probe_indices(n):
    """deterministic subset of the time axis that is checked against the reference"""
    if n <= 512:
        return np.arange(n)
    a = np.arange(128)
    r = (np.arange(256, dtype=np.int64) * 2654435761) % n
    return np.unique(np.concatenate([a, n - 1 - a, r]))


_LD = np.longdouble
_PI_LD = _LD(4) * np.arctan(_LD(1))


def ref_values(Fd, Ts, phi, psi, ks):
    """First-principles Jakes sum h(k*Ts), k in ks, for the generator's own phi/psi
    (arrays of shape (L, *shape, 1)), in extended precision with the phase
    reduced in cycles.  Returns complex128 array of shape (*shape, len(ks))."""
    L = phi.shape[0]
    c = np.cos(phi.astype(_LD))
    tk = np.asarray(ks, dtype=_LD) * _LD(Ts)
    cycles = _LD(Fd) * c * tk
    frac = cycles - np.floor(cycles)
    ph = _LD(2) * _PI_LD * frac + psi.astype(_LD)
    re = np.cos(ph).sum(axis=0) / np.sqrt(_LD(L))
    im = np.sin(ph).sum(axis=0) / np.sqrt(_LD(L))
    return re.astype(np.float64) + 1j * im.astype(np.float64)


def ref_exact_point(Fd, Ts, phis, psis, k):
    """Same value for one entry with the phase reduced in exact rational arithmetic
    (validates `ref_values`, independent of long double)."""
    from fractions import Fraction
    L = len(phis)
    re = im = 0.0
    for p, q in zip(phis, psis):
        cyc = Fraction(float(Fd)) * Fraction(math.cos(float(p))) * int(k) * Fraction(float(Ts))
        frac = float(cyc - math.floor(cyc))
        a = TWO_PI * frac + float(q)
        re += math.cos(a)
        im += math.sin(a)
    s = 1.0 / math.sqrt(L)
    return complex(re * s, im * s)


class ConstRS:
    """RandomState stand-in (public `RS` parameter): every draw is the constant c"""

    def __init__(self, c):
        self.c = c

    def rand(self, *shape):
        return np.full(shape, self.c, dtype=float)


def make_rs(seed):
    if isinstance(seed, dict):
        return ConstRS(float(seed['const']))
    return np.random.RandomState(int(seed))


def make_gen(case, cls=None):
    fg = _impl()
    cls = cls or fg.JakesSampleGenerator
    return cls(case['Fd'], case['Ts'], int(case['L']), shape_arg(case['shape']), make_rs(case['seed']))


def entry_count(shape):
    s = norm_shape(shape)
    return 1 if s is None else int(np.prod(s, dtype=np.int64)) if len(s) else 1


# ------------------------------------------------------------------ oracles
# every oracle takes a JSON-serialisable case, runs the REAL code and returns
# None (property holds) or (class, detail); classes are computed from the input.
def o_history(case):
    """count / shape / value of every request of a history, against the closed
    form at exactly (number of samples requested before + j) * Ts"""
    Fd, Ts, L = case['Fd'], case['Ts'], int(case['L'])
    k = 0          # the oracle's own count of samples consumed so far
    try:
        g = make_gen(case)
    except Exception as e:
        return 'exception:%s:%s' % (type(e).__name__, regime(0, 1)), 'constructor: %r' % (e,)
    shape = norm_shape(shape_arg(case['shape']))
    pending = [('g', None, True)] + [(o[0], o[1], False) for o in case['ops']]
    held = None
    for kind, arg, is_ctor in pending:
        if kind == 'S':
            try:
                g.shape = shape_arg(arg)
            except Exception as e:
                return 'exception:%s:%s' % (type(e).__name__, regime(k, 1)), 'shape setter: %r' % (e,)
            shape = norm_shape(shape_arg(arg))
            if g.get_samples() is not held:
                return 'get_samples-changed-by-shape:' + regime(k, 1), 'at sample %d' % k
            continue
        if kind == 's':
            n = int(arg)
            try:
                g.skip_samples_for_next_generation(n)
            except Exception as e:
                return 'exception:%s:%s' % (type(e).__name__, regime(k, n)), 'skip(%d) at %d: %r' % (n, k, e)
            if g.get_samples() is not held:
                return 'get_samples-changed-by-skip:' + regime(k, n), 'at sample %d' % k
            k += n
            continue
        n = 1 if arg is None else int(arg)
        reg = regime(k, n)
        try:
            if not is_ctor:
                if arg is None:
                    g.generate_more_samples()
                else:
                    g.generate_more_samples(n)
            h = g.get_samples()
        except Exception as e:
            return 'exception:%s:%s' % (type(e).__name__, reg), 'generate_more_samples(%s) at sample %d: %r' % (arg, k, e)
        held = h
        exp_shape = ((n,) if shape is None else shape + (n,))
        if not isinstance(h, np.ndarray):
            return 'shape:' + reg, 'get_samples() is %s' % type(h).__name__
        if h.shape[-1:] != (n,):
            return 'count:' + reg, 'request of %d at sample %d returned shape %s' % (n, k, h.shape)
        if h.shape != exp_shape:
            return 'shape:' + reg, 'request of %d returned shape %s, expected %s' % (n, h.shape, exp_shape)
        js = probe_indices(n)
        ref = ref_values(Fd, Ts, g._phi_l, g._psi_l, k + js)
        tol = tol_for(L, Fd, (k + n) * Ts)
        err = float(np.max(np.abs(h[..., js] - ref))) if h.size else 0.0
        STATS['oracle_value'] = max(STATS['oracle_value'], err / tol)
        if not err <= tol:
            w = int(js[int(np.argmax(np.max(np.abs(h[..., js] - ref).reshape(-1, len(js)), axis=0)))])
            return 'value:' + reg, ('request of %d at sample %d: entry %d differs from the Jakes sum at (%d)*Ts by '
                                    '%.3g (tolerance %.3g)' % (n, k, w, k + w, err, tol))
        k += n
    return None


def o_chunking(case):
    """one request for the whole stretch vs an arbitrary chunking with skips
    (same phases): the chunked generator must return the same samples"""
    Fd, Ts, L = case['Fd'], case['Ts'], int(case['L'])
    k0, chunks = int(case['k0']), case['chunks']
    total = sum(int(c[1]) for c in chunks)
    reg = regime(k0, max(1, min(int(c[1]) for c in chunks)))
    try:
        a = make_gen(case)
        b = make_gen(case)
        if not (np.array_equal(a._phi_l, b._phi_l) and np.array_equal(a._psi_l, b._psi_l)):
            return None     # phases are not reproducible from the seed: nothing to compare
        if k0:
            a.skip_samples_for_next_generation(k0)
            b.skip_samples_for_next_generation(k0)
        a.generate_more_samples(total)
        whole = a.get_samples()
        if whole.shape[-1] != total:
            return 'count:' + regime(k0, total), 'request of %d returned %s' % (total, whole.shape)
        tol = 2 * tol_for(L, Fd, (k0 + 1 + total) * Ts)
        pos = 0
        for kind, n in chunks:
            n = int(n)
            if kind == 's':
                b.skip_samples_for_next_generation(n)
            else:
                b.generate_more_samples(n)
                part = b.get_samples()
                if part.shape != whole.shape[:-1] + (n,):
                    return 'count:' + reg, 'chunk of %d at offset %d returned %s' % (n, pos, part.shape)
                err = float(np.max(np.abs(part - whole[..., pos:pos + n])))
                STATS['oracle_chunk'] = max(STATS['oracle_chunk'], err / tol)
                STATS['chunk_compared'] += 1
                STATS['chunk_bit_exact'] += int(np.array_equal(part, whole[..., pos:pos + n]))
                if not err <= tol:
                    return 'chunk-mismatch:' + reg, ('chunk of %d at offset %d of a %d-sample stretch starting at '
                                                     'sample %d differs by %.3g (tol %.3g)'
                                                     % (n, pos, total, k0 + 1, err, tol))
            pos += n
    except Exception as e:
        return 'exception:%s:%s' % (type(e).__name__, reg), repr(e)[:300]
    return None


def o_zero_doppler(case):
    """Fd = 0: every sample of every request equals the constructor's sample"""
    assert case['Fd'] == 0
    try:
        g = make_gen(case)
        first = g.get_samples()[..., :1].copy()
        k = 1
        for kind, arg in case['ops']:
            if kind == 's':
                g.skip_samples_for_next_generation(int(arg))
                k += int(arg)
            elif kind == 'g':
                n = 1 if arg is None else int(arg)
                g.generate_more_samples(arg)
                h = g.get_samples()
                if h.shape[-1] != n:
                    return 'count:' + regime(k, n), 'request of %d returned %s' % (n, h.shape)
                dev = float(np.max(np.abs(h - first)))
                if not dev <= 1e-12:
                    return 'not-time-invariant:' + regime(k, n), 'sample deviates by %.3g at request of %d from sample %d' % (dev, n, k)
                k += n
    except Exception as e:
        return 'exception:%s:%s' % (type(e).__name__, regime(k, 1)), repr(e)[:300]
    return None


def o_magnitude(case):
    """|h| <= sqrt(L) on every returned sample"""
    L = int(case['L'])
    k = 0
    try:
        g = make_gen(case)
        bound = math.sqrt(L) * (1 + 1e-12)
        hs = [g.get_samples()]
        k = 1
        for kind, arg in case['ops']:
            if kind == 's':
                g.skip_samples_for_next_generation(int(arg))
                k += int(arg)
            elif kind == 'g':
                g.generate_more_samples(arg)
                hs.append(g.get_samples())
                k += 1 if arg is None else int(arg)
        m = max(float(np.max(np.abs(h))) for h in hs)
        if not m <= bound:
            return 'magnitude>sqrtL', 'max |h| = %.17g > sqrt(%d)' % (m, L)
    except Exception as e:
        return 'exception:%s:%s' % (type(e).__name__, regime(k, 1)), repr(e)[:300]
    return None


def o_function(case):
    """the free function generate_jakes_samples: NSamples samples of the right
    shape, Jakes sum at current_time + j*Ts, next time advanced by NSamples*Ts"""
    fg = _impl()
    Fd, Ts, L, N = case['Fd'], case['Ts'], int(case['L']), int(case['N'])
    shape = norm_shape(shape_arg(case['shape']))
    k0 = int(case['k0'])
    ct = k0 * Ts
    reg = regime(k0, N)
    rs = np.random.RandomState(int(case['seed']))
    dims = (L, 1) if shape is None else (L,) + shape + (1,)
    phi = TWO_PI * rs.rand(*dims)
    psi = TWO_PI * rs.rand(*dims)
    try:
        new_ct, h = fg.generate_jakes_samples(Fd, Ts, N, L, shape, ct, phi, psi)
    except Exception as e:
        return 'exception:%s:%s' % (type(e).__name__, reg), repr(e)[:300]
    exp_shape = (N,) if shape is None else shape + (N,)
    if h.shape[-1:] != (N,):
        return 'count:' + reg, 'NSamples=%d at time %r returned shape %s' % (N, ct, h.shape)
    if h.shape != exp_shape:
        return 'shape:' + reg, '%s != %s' % (h.shape, exp_shape)
    if not abs(new_ct - (k0 + N) * Ts) <= 1e-9 * max(1.0, (k0 + N)) * Ts:
        return 'next-time:' + reg, 'returned %r, expected %r' % (new_ct, (k0 + N) * Ts)
    js = probe_indices(N)
    ref = ref_values(Fd, Ts, phi, psi, k0 + js)
    # the function's time origin is the float ct = fl(k0*Ts): one more rounding of the time
    tol = 2 * tol_for(L, Fd, (k0 + N) * Ts)
    err = float(np.max(np.abs(h[..., js] - ref)))
    if not err <= tol:
        return 'value:' + reg, 'differs from the Jakes sum by %.3g (tol %.3g)' % (err, tol)
    return None


ORACLES = {
    'generate_more_samples': o_history,
    'generate_more_samples.chunking': o_chunking,
    'generate_more_samples.zero_doppler': o_zero_doppler,
    'generate_more_samples.magnitude': o_magnitude,
    'generate_jakes_samples': o_function,
}


def run_oracle(ctx, call, case, key=None, nontrivial=True):
    ctx.count((call, key if key is not None else repr(case)), nontrivial)
    try:
        r = ORACLES[call](case)
    except MemoryError:
        raise core.Infra('out of memory in oracle ' + call)
    if r is not None:
        ctx.fail(call, r[0], case, r[1])
        ctx.branch('oracle-fail:' + call)
    else:
        ctx.branch('oracle-ok:' + call)
    return r


def replay(ctx, rep):
    return ORACLES[rep['call']](rep['case']) is not None


# ------------------------------------------------------------------ generators
BUDGET = 1 << 21       # max L * entries * n of one request (memory of the real code: 16 B each)


def gen_config(rng, zero_fd=False):
    r = rng.uniform()
    if zero_fd:
        Fd = 0
    elif r < 0.08:
        Fd = 0
    elif r < 0.5:
        Fd = round(rng.uniform(0.5, 300.0), 3)
    else:
        Fd = float(10.0 ** rng.uniform(-2.0, 3.0))
    r = rng.uniform()
    if r < 0.25:
        Ts = rng.choice([1e-3, 1.0, 2.0 ** -10, 1e-9, 5e-4, 1e-6, 0.1])
    else:
        Ts = float(10.0 ** rng.uniform(-9.0, 0.0))
    L = rng.choice([1, 2, 3, 4, 8, 8, 16, rng.randint(1, 20)])
    r = rng.uniform()
    if r < 0.3:
        shape = None
    elif r < 0.55:
        shape = rng.randint(1, 4)
    else:
        shape = [rng.randint(1, 3) for _ in range(rng.randint(0, 3))]
    return {'Fd': Fd, 'Ts': Ts, 'L': L, 'shape': shape, 'seed': rng.below(1 << 31)}


def gen_shape(rng):
    r = rng.uniform()
    if r < 0.3:
        return None
    if r < 0.6:
        return rng.randint(1, 4)
    return [rng.randint(1, 3) for _ in range(rng.randint(0, 3))]


def gen_size(rng, cap):
    r = rng.uniform()
    if r < 0.12:
        return None
    if r < 0.35:
        return 1
    if r < 0.7:
        return rng.randint(2, min(64, cap))
    if r < 0.9:
        return rng.randint(1, min(4096, cap))
    return rng.randint(1, min(100000, cap))


def gen_skip(rng):
    r = rng.uniform()
    if r < 0.4:
        return rng.randint(1, 100000)
    if r < 0.7:
        e = rng.randint(17, 33)
        return (1 << e) + rng.randint(-3, 3)
    return int(10.0 ** rng.uniform(0.0, 9.9))


def gen_ops(rng, cfg, n_ops, with_shape=True, max_pos=10 ** 10):
    ops = []
    pos = 1
    shape = cfg['shape']
    for _ in range(n_ops):
        r = rng.uniform()
        if with_shape and r < 0.08:
            shape = gen_shape(rng)
            ops.append(['S', shape])
            continue
        if r < 0.35:
            n = gen_skip(rng)
            if pos + n > max_pos:
                n = rng.randint(1, 1000)
            ops.append(['s', n])
            pos += n
            continue
        cap = max(1, BUDGET // (cfg['L'] * entry_count(shape)))
        n = gen_size(rng, cap)
        ops.append(['g', n])
        pos += 1 if n is None else n
    if not any(o[0] == 'g' for o in ops):
        ops.append(['g', rng.randint(1, 8)])
    return ops


def gen_history(rng, n_ops=None, **kw):
    cfg = gen_config(rng, **kw)
    cfg['ops'] = gen_ops(rng, cfg, n_ops or rng.randint(1, 12))
    return cfg


def long_run_cases(rng, exps, offsets, sizes, tss):
    """positions 2^e + d (reached by one skip) where the binary64 spacing of the
    time changes, followed by small requests"""
    out = []
    for e in exps:
        for d in offsets:
            for n in sizes:
                Ts = rng.choice(tss)
                pos = (1 << e) + d
                if pos < 1 or pos + 3 * n + 2 > 10 ** 10:
                    continue
                out.append({'Fd': rng.choice([0.5, 5, 37.25, 100]), 'Ts': Ts, 'L': rng.choice([1, 4, 8]),
                            'shape': rng.choice([None, 2, [2, 1]]), 'seed': rng.below(1 << 31),
                            'ops': [['s', pos], ['g', n], ['g', None], ['g', n]]})
    return out


def small_scope_histories(max_len):
    """every history of at most max_len requests over a small alphabet, from each kind of shape"""
    import itertools
    alphabet = [['g', None], ['g', 1], ['g', 2], ['g', 5], ['s', 1], ['s', 3], ['S', None], ['S', 2], ['S', [2, 1]]]
    out = []
    for shape in (None, 3, [1, 2]):
        for ln in range(1, max_len + 1):
            for ops in itertools.product(alphabet, repeat=ln):
                out.append({'Fd': 7.5, 'Ts': 1e-3, 'L': 2, 'shape': shape, 'seed': 12345 + ln,
                            'ops': [list(o) for o in ops]})
    return out


def tiny_request_history(rng, n_req, start=None):
    """the usual way a generator is used: very many requests of one or a few samples
    (after an optional skip), so that rounding of a stepped time would accumulate"""
    cfg = {'Fd': rng.choice([5, 100, 37.25]), 'Ts': rng.choice([1e-3, 0.37e-4, 1e-6, 0.1]),
           'L': rng.choice([2, 4, 8]), 'shape': rng.choice([None, 2]), 'seed': rng.below(1 << 31)}
    ops = []
    if start is None:
        start = rng.choice([0, (1 << rng.randint(18, 30)) + rng.randint(-2, 2)])
    if start:
        ops.append(['s', start])
    for _ in range(n_req):
        r = rng.uniform()
        ops.append(['g', None] if r < 0.5 else ['g', 1] if r < 0.8 else ['g', rng.randint(2, 4)] if r < 0.95
                   else ['s', rng.randint(1, 3)])
    cfg['ops'] = ops
    return cfg


WITNESS = {'Fd': 5, 'Ts': 1e-3, 'L': 4, 'shape': None, 'seed': 1, 'ops': [['s', 2048002], ['g', 1]]}


def corpus_cases():
    import glob
    import json
    import os
    out = [('generate_more_samples', WITNESS)]
    for p in sorted(glob.glob(os.path.join(core.VERIF, 'corpus', 'c14', '*.json'))):
        with open(p) as f:
            rec = json.load(f)
        out.append((rec['call'], rec['case']))
    return out


# ------------------------------------------------------------------ correspondence
def ulps(a, b):
    if a == b:
        return 0.0
    return abs(a - b) / math.ulp(max(abs(a), abs(b)))


def probe_class():
    """subclass of the real generator that records the time vector of every request"""
    fg = _impl()

    class Probe(fg.JakesSampleGenerator):
        def __init__(self, *a, **k):
            self.verif_times = []
            super().__init__(*a, **k)

        def _generate_time_samples(self, num_samples=None):
            t = super()._generate_time_samples(num_samples)
            self.verif_times.append(np.array(t, dtype=float).ravel().copy())
            return t

    return Probe


def block_str(dims, first, count, epoch):
    return '%s/%s/%d/%d' % (';'.join(str(int(d)) for d in dims), first, count, epoch)


def impl_history(case, Probe):
    """run a history on the real generator; one canonical state string per state
    (constructor first) + the numeric material for the value / time comparison"""
    Ts = case['Ts']
    g = make_gen(case, Probe)
    states, blocks = [], []
    known = {}                       # id(array) -> block string (arrays are kept alive in `blocks`)
    cur = {'phi': g._phi_l, 'psi': g._psi_l, 'phi_v': g._phi_l.copy(), 'psi_v': g._psi_l.copy(), 'epoch': 0}

    def track_epoch():
        """a new draw of phi/psi = new array objects or changed contents"""
        if (g._phi_l is not cur['phi'] or g._psi_l is not cur['psi']
                or not np.array_equal(g._phi_l, cur['phi_v']) or not np.array_equal(g._psi_l, cur['psi_v'])):
            cur.update({'phi': g._phi_l, 'psi': g._psi_l, 'phi_v': g._phi_l.copy(), 'psi_v': g._psi_l.copy(),
                        'epoch': cur['epoch'] + 1})
    have_hook = hasattr(_impl().JakesSampleGenerator, '_generate_time_samples')

    def snapshot(prod):
        ct = getattr(g, '_current_time', None)
        k = 'x' if ct is None else str(int(round(float(ct) / Ts)))
        sh = g.shape
        last = g.get_samples()
        states.append('k=%s e=%d shape=%s prod=%s last=%s'
                      % (k, cur['epoch'], 'n' if sh is None else 't' + ';'.join(str(int(d)) for d in sh),
                         prod or '-', '-' if last is None else known.get(id(last), 'unknown')))

    def record_block():
        h = g.get_samples()
        t = g.verif_times[-1] if (have_hook and g.verif_times) else None
        first = '?' if t is None or t.size == 0 else str(int(round(float(t[0]) / Ts)))
        s = block_str(h.shape, first, h.shape[-1] if h.ndim else -1, cur['epoch'])
        known[id(h)] = s
        blocks.append({'h': h, 't': t, 'first': first, 'epoch': cur['epoch'], 'phi': cur['phi_v'], 'psi': cur['psi_v'],
                       'str': s})
        return s

    snapshot(record_block())
    for kind, arg in case['ops']:
        if kind == 'g':
            nt = len(g.verif_times)
            g.generate_more_samples(arg)
            if have_hook and len(g.verif_times) != nt + 1:
                have_hook = False
            track_epoch()
            snapshot(record_block())
        elif kind == 's':
            g.skip_samples_for_next_generation(int(arg))
            track_epoch()
            snapshot(None)
        else:
            g.shape = shape_arg(arg)
            track_epoch()
            snapshot(None)
    return states, blocks, have_hook


def correspondence(ctx, cases):
    drv = core.Driver(DRIVER)
    Probe = probe_class()
    lines = ['hist shape=%s ops=%s' % (shape_tok(shape_arg(c['shape'])), ','.join(op_tok(o) for o in c['ops']))
             for c in cases]
    replies = drv.ask(lines)
    vlines, vmeta = [], []
    tlines, tmeta = [], []
    for c, rep in zip(cases, replies):
        try:
            states, blocks, have_hook = impl_history(c, Probe)
            impl = ' | '.join(states)
        except Exception as e:
            impl, blocks, have_hook = 'exception:%s' % type(e).__name__, [], False
        model = rep
        if not have_hook:
            # no time hook: the first-sample number is not observable; compare the rest
            ctx.branch('time-hook-missing')
            import re
            model = re.sub(r'(\d)/\d+/(\d+)/(\d+)', r'\1/?/\2/\3', model)
        nontriv = len(c['ops']) >= 2
        ctx.corr('history.bookkeeping', c, impl, model, nontrivial=nontriv,
                 key=('hist', shape_tok(shape_arg(c['shape'])), tuple(op_tok(o) for o in c['ops'])))
        for o in c['ops']:
            ctx.branch('op:' + ('gen-default' if (o[0] == 'g' and o[1] is None) else
                                {'g': 'gen', 's': 'skip', 'S': 'set-shape'}[o[0]]))
        ctx.branch('shape:' + ('none' if c['shape'] is None else 'int' if isinstance(c['shape'], int) else
                               'tuple%d' % len(c['shape'])))
        if impl != model:
            continue
        # numeric part: model blocks parsed from the model reply (first / count are the model's)
        mblocks = [f.split(' prod=')[1].split(' ')[0] for f in rep.split(' | ')]
        mblocks = [b for b in mblocks if b != '-']
        for b, mb in zip(blocks, mblocks):
            first, count = int(mb.split('/')[1]), int(mb.split('/')[2])
            if first + count >= (1 << 21):
                ctx.branch('long-run-request(k>=2^21)')
            if first + count >= 10 ** 9:
                ctx.branch('position>=1e9')
            h = b['h']
            L = b['phi'].shape[0]
            ent = int(np.prod(h.shape[:-1], dtype=np.int64))
            hh = h.reshape(ent, count)
            phi = b['phi'].reshape(L, ent)
            psi = b['psi'].reshape(L, ent)
            js = sorted({0, count - 1, count // 2} | {ctx.rng.below(count) for _ in range(3)})
            idxs = range(ent) if ent <= 4 else sorted({0, ent - 1, ctx.rng.below(ent)})
            tol = tol_for(L, c['Fd'], (first + count) * c['Ts'])
            if tol < 1e-6:
                ctx.branch('value-tol<1e-6')
            for i in idxs:
                for j in js:
                    vlines.append('val Fd=%s Ts=%s first=%d j=%d phi=%s psi=%s'
                                  % (core.f2s(c['Fd']), core.f2s(c['Ts']), first, j,
                                     ','.join(core.f2s(x) for x in phi[:, i]),
                                     ','.join(core.f2s(x) for x in psi[:, i])))
                    vmeta.append((c, first, i, j, complex(hh[i, j]), tol,
                                  None if b['t'] is None else float(b['t'][j])))
            if b['t'] is not None and count <= 2048:
                tlines.append('time Ts=%s k=%d n=%d' % (core.f2s(c['Ts']), first, count))
                tmeta.append((c, first, count, b['t']))
    # values and probe times
    for (c, first, i, j, hv, tol, tv), rep in zip(vmeta, drv.ask(vlines)):
        f = dict(x.split('=') for x in rep.split(' ')) if rep.startswith('t=') else None
        if f is None:
            ctx.corr('history.value', [c, first, i, j], repr(hv), rep)
            continue
        mv = complex(core.s2f(f['re']), core.s2f(f['im']))
        ok = abs(hv - mv) <= tol
        STATS['corr_value'] = max(STATS['corr_value'], abs(hv - mv) / tol)
        ctx.corr('history.value', {'case': c, 'first': first, 'entry': i, 'j': j},
                 'close' if ok else 'impl=%r model=%r tol=%.3g' % (hv, mv, tol), 'close',
                 nontrivial=tol < 1e-6, key=('val', c['seed'], first, i, j))
        if tv is not None:
            mt = core.s2f(f['t'])
            ok = ulps(tv, mt) <= 2
            ctx.corr('history.time', {'case': c, 'first': first, 'j': j},
                     'close' if ok else 'impl=%r model=%r' % (tv, mt), 'close', key=('time', c['seed'], first, j))
            ctx.branch('time-bit-exact' if tv == mt else 'time-within-2ulp' if ok else 'time-differs')
    # whole time vectors of the smaller requests
    for (c, first, count, t), rep in zip(tmeta, drv.ask(tlines)):
        mt = np.array([core.s2f(x) for x in rep.split(',')]) if rep else np.zeros(0)
        ok = mt.shape == t.shape and all(ulps(float(a), float(b)) <= 2 for a, b in zip(t, mt))
        ctx.corr('history.time-vector', {'case': c, 'first': first, 'n': count},
                 'close' if ok else 'impl=%s model=%s' % (t[:4].tolist(), mt[:4].tolist()), 'close',
                 key=('tvec', c['seed'], first, count))


def rejection_correspondence(ctx):
    """L = 0: the code raises ZeroDivisionError, the model says error:ZeroDivisionError"""
    drv = core.Driver(DRIVER)
    rep = drv.ask(['val Fd=%s Ts=%s first=0 j=0 phi= psi=' % (core.f2s(5.0), core.f2s(1e-3))])[0]
    try:
        make_gen({'Fd': 5.0, 'Ts': 1e-3, 'L': 0, 'shape': None, 'seed': 0})
        impl = 'ok'
    except ZeroDivisionError:
        impl = 'error:ZeroDivisionError'
    except Exception as e:
        impl = 'error:' + type(e).__name__
    ctx.corr('jakes.no-rays', {'L': 0}, impl, rep, nontrivial=False)


def old_model_check(ctx, n_cases):
    """the pre-fix stepping model (historical witness): its element count must be
    what numpy's float arange returns — validates the model the negative witness
    is stated about (numpy only; the repaired code no longer calls it)"""
    drv = core.Driver(DRIVER)
    infl = 1.0000000001
    cases = [(1e-3, 0.001 + 2048002 * 0.001, 1)]
    for _ in range(n_cases):
        Ts = float(10.0 ** ctx.rng.uniform(-9, 0))
        ct = Ts * ctx.rng.randint(0, 1 << ctx.rng.randint(1, 33))
        cases.append((Ts, ct, ctx.rng.choice([1, 2, 3, 10, 100])))
    out = drv.ask(['old infl=%s Ts=%s ct=%s n=%d' % (core.f2s(infl), core.f2s(Ts), core.f2s(ct), n)
                   for Ts, ct, n in cases])
    for (Ts, ct, n), rep in zip(cases, out):
        ln = len(np.arange(ct, n * Ts + ct, Ts * infl))
        ctx.corr('old-stepping.arange-length', {'Ts': Ts, 'ct': ct, 'n': n}, 'len=%d' % ln, rep.split(' ')[0],
                 nontrivial=False)
        ctx.branch('old-model:len==n' if ln == n else 'old-model:len!=n')
    if out[0].split(' ')[0] != 'len=2':
        ctx.tie_broken('correspondence', 'old-stepping.witness', 'witness no longer yields 2 elements: ' + out[0])


# ------------------------------------------------------------------ oracle campaigns
def oracle_campaign(ctx, n_hist, n_chunk, n_zero, n_mag, n_fun, long_cases, n_tiny=2, tiny_len=3000):
    for call, case in corpus_cases():
        run_oracle(ctx, call, case, nontrivial=True)
        ctx.branch('corpus')
    for case in long_cases:
        r = run_oracle(ctx, 'generate_more_samples', case)
        ctx.branch('oracle:long-run')
    for _ in range(n_tiny):
        run_oracle(ctx, 'generate_more_samples', tiny_request_history(ctx.rng, tiny_len))
        ctx.branch('oracle:tiny-request-history')
    for _ in range(n_hist):
        run_oracle(ctx, 'generate_more_samples', gen_history(ctx.rng))
    for _ in range(n_chunk):
        cfg = gen_config(ctx.rng)
        cap = max(4, min(60000, BUDGET // (cfg['L'] * entry_count(cfg['shape']))))
        total = ctx.rng.randint(2, cap)
        chunks, left = [], total
        while left > 0:
            n = min(left, ctx.rng.randint(1, max(1, total // ctx.rng.randint(1, 6))))
            chunks.append(['s' if ctx.rng.chance(0.25) else 'g', n])
            left -= n
        if not any(c[0] == 'g' for c in chunks):
            chunks[0][0] = 'g'
        r = ctx.rng.uniform()
        k0 = 0 if r < 0.3 else gen_skip(ctx.rng)
        cfg.update({'k0': min(k0, 10 ** 10 - total - 2), 'chunks': chunks})
        run_oracle(ctx, 'generate_more_samples.chunking', cfg)
    for _ in range(n_zero):
        cfg = gen_config(ctx.rng, zero_fd=True)
        cfg['ops'] = [o for o in gen_ops(ctx.rng, cfg, ctx.rng.randint(2, 8), with_shape=False)]
        run_oracle(ctx, 'generate_more_samples.zero_doppler', cfg)
        ctx.branch('Fd=0')
    for i in range(n_mag):
        cfg = gen_config(ctx.rng)
        if i % 3 == 0:
            # all rays in phase and no Doppler spread: |h| = sqrt(L), the bound itself
            cfg['seed'] = {'const': ctx.rng.choice([0.0, 0.25, 0.5])}
            ctx.branch('magnitude:at-bound')
        cfg['ops'] = gen_ops(ctx.rng, cfg, ctx.rng.randint(1, 5), with_shape=False)
        run_oracle(ctx, 'generate_more_samples.magnitude', cfg)
    for _ in range(n_fun):
        cfg = gen_config(ctx.rng)
        cap = max(1, min(20000, BUDGET // (cfg['L'] * entry_count(cfg['shape']))))
        cfg.update({'N': ctx.rng.randint(1, cap), 'k0': ctx.rng.choice([0, 0, gen_skip(ctx.rng)])})
        cfg['k0'] = min(cfg['k0'], 10 ** 10 - cfg['N'])
        run_oracle(ctx, 'generate_jakes_samples', cfg)


def reference_selfcheck(ctx, n):
    """the extended-precision reference against exact-rational phase reduction"""
    for _ in range(n):
        L = ctx.rng.randint(1, 8)
        Fd = float(10.0 ** ctx.rng.uniform(-1, 3))
        Ts = float(10.0 ** ctx.rng.uniform(-9, 0))
        k = ctx.rng.randint(0, 10 ** 10)
        rs = np.random.RandomState(ctx.rng.below(1 << 31))
        phi = TWO_PI * rs.rand(L, 1)
        psi = TWO_PI * rs.rand(L, 1)
        a = complex(ref_values(Fd, Ts, phi, psi, np.array([k]))[0])
        b = ref_exact_point(Fd, Ts, phi[:, 0], psi[:, 0], k)
        tol = tol_for(L, Fd, k * Ts) / 4
        if not abs(a - b) <= tol:
            raise core.Infra('reference self-check failed: %r vs %r (tol %.3g) Fd=%r Ts=%r k=%d'
                             % (a, b, tol, Fd, Ts, k))
        ctx.branch('reference-selfcheck')


# ------------------------------------------------------------------ entry points
def check(ctx):
    quick = ctx.tier == 'quick'
    ctx.rule = ('histories: constructor + 1..12 seeded requests generate(None|1..1e5) / skip(1..~8e9, incl. 2^e+-3) / '
                'shape reassignment, Fd in {0} u [0.01,1000], Ts in 1e-9..1 (log-uniform + fixed values), L 1..20, '
                'shape None/int/tuples of 0..3 dims, numpy RandomState(seed) phases; long-run sweep: skip to 2^e+d '
                'then small requests; histories of 1e3..3e4 requests of 1..4 samples; every history of <= 3 (quick) / 4 (thorough) requests over a 9-letter alphabet; non-trivial = distinct history with >= 2 requests / distinct value probe '
                'whose tolerance is < 1e-6 / distinct oracle case')
    core.prove(ctx, MODULE, generated=[], drivers=[DRIVER], scratch=ctx.scratch)
    ctx.required_branches = ['op:gen', 'op:gen-default', 'op:skip', 'op:set-shape', 'shape:none', 'shape:int',
                             'long-run-request(k>=2^21)', 'position>=1e9', 'value-tol<1e-6', 'Fd=0',
                             'magnitude:at-bound', 'oracle:long-run', 'corpus', 'tiny-request-history',
                             'oracle:tiny-request-history']
    n_hist = 600 if quick else 6000
    cases = [dict(WITNESS)]
    cases += [gen_history(ctx.rng) for _ in range(n_hist)]
    if quick:
        longs = long_run_cases(ctx.rng, range(17, 34, 2), (-1, 0, 1), (1, 3), [1e-3, 1.0, 1e-6, 2.0 ** -10, 0.37e-4])
    else:
        longs = long_run_cases(ctx.rng, range(10, 34), (-2, -1, 0, 1, 2, 1000003), (1, 2, 3, 10, 100, 1000),
                               [1e-3, 1.0, 1e-6, 1e-9, 2.0 ** -10, 0.37e-4, 0.1, 7e-3])
    cases += longs[:60] if quick else longs[::3]
    cases += [tiny_request_history(ctx.rng, 1000 if quick else 10000) for _ in range(1 if quick else 3)]
    ctx.branch('tiny-request-history')
    small = small_scope_histories(3 if quick else 4)
    ctx.branch('small-scope-histories', len(small))
    cases += small
    try:
        correspondence(ctx, cases)
        rejection_correspondence(ctx)
        old_model_check(ctx, 200 if quick else 5000)
    except core.Infra as e:
        if not ctx.broken:
            raise
        ctx.notes.append('correspondence skipped: %s' % e)
        ctx.required_branches = []
    reference_selfcheck(ctx, 20 if quick else 500)
    if quick:
        oracle_campaign(ctx, 400, 200, 100, 100, 100, longs)
    else:
        oracle_campaign(ctx, 6000, 3000, 1000, 1000, 1000, longs, n_tiny=10, tiny_len=30000)
    ctx.extra['max_error_over_tolerance'] = {k: (round(v, 4) if isinstance(v, float) else v) for k, v in STATS.items()}
    ctx.sample({'call': 'generate_more_samples', 'case': WITNESS,
                'check': 'skip 2048002 then request 1 sample: 1 sample, value = Jakes sum at 2048003*Ts'})
    ctx.sample({'call': 'history.bookkeeping', 'line': 'hist shape=t2;3 ops=g5,g,s7,Si4,g2',
                'compare': 'k / epoch / shape / produced block dims/first/count/epoch / get_samples() block'})
    ctx.sample({'call': 'generate_more_samples.chunking', 'compare': 'one request vs chunks with skips, same phases'})


def search(ctx):
    """deeper failing-input search, used when a proof / correspondence broke"""
    longs = long_run_cases(ctx.rng, range(8, 34), (-3, -1, 0, 1, 2, 7, 12345), (1, 2, 3, 7, 10, 100, 1000),
                           [1e-3, 1.0, 1e-6, 1e-9, 2.0 ** -10, 0.37e-4, 0.1])
    for case in longs[::2]:
        run_oracle(ctx, 'generate_more_samples', case)
        if len(ctx.failures) >= 20:
            return
    # very many tiny requests far into the process: accumulated rounding of a stepped time shows up here
    for e in (21, 24, 28, 31):
        run_oracle(ctx, 'generate_more_samples', tiny_request_history(ctx.rng, 20000, start=(1 << e) + 3))
        if len(ctx.failures) >= 20:
            return
    for _ in range(400):
        run_oracle(ctx, 'generate_more_samples', gen_history(ctx.rng, n_ops=ctx.rng.randint(4, 20)))
        cfg = gen_config(ctx.rng)
        total = ctx.rng.randint(2, max(4, min(20000, BUDGET // (cfg['L'] * entry_count(cfg['shape'])))))
        a = ctx.rng.randint(1, total - 1)
        cfg.update({'k0': ctx.rng.choice([0, gen_skip(ctx.rng)]), 'chunks': [['g', a], ['g', total - a]]})
        run_oracle(ctx, 'generate_more_samples.chunking', cfg)
        if len(ctx.failures) >= 20:
            return
