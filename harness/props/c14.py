"""C14 — Jakes fading samples do not depend on how generation was chunked
(DESIGN.md §5 C14).

Model: lean/PyPhysim/Model/C14.lean (state = integer sample counter; request n
returns the process samples k..k+n-1 evaluated at (k+j)*Ts).  Tie to the source:
seeded request histories are run on the real `JakesSampleGenerator` and on the
compiled model; counts, shapes, first-sample numbers, counter, phase epoch and
what get_samples() holds are compared exactly, time vectors to 2 ulp, values to
`tol` (below).  Independent oracles (no model, no formula of the code): closed
form in extended precision at exactly k*Ts, one-request-vs-chunked comparison,
zero-Doppler constancy, |h| <= sqrt(L).
"""
import math

import numpy as np

from harness import core

MODULE = 'PyPhysim.Properties.C14'
DRIVER = 'drv_c14'

CLAIM = {
    'technique': 'Lean 4 induction over request histories on an integer sample-counter model + real-number '
                 'facts about the Jakes sum; sample-index bookkeeping, time scale and Jakes formula regenerated from the '
                 'AST (symbolic execution) and equated with the model by bridge theorems; exact bookkeeping '
                 'correspondence and toleranced value correspondence',
    'text': 'For every start state and every finite history of generate / skip / shape requests the model of '
            'JakesSampleGenerator returns exactly the requested number of samples with the configured shape and '
            'entry j of a request is the Jakes sum at time (k0 + samples requested before + j)*Ts for the phase '
            'draw in force (chunking_invariant, chunks_concat_eq_single, skip_is_discarded_generation, '
            'history_counter: induction over the operation list, no bound on sizes or positions); over the reals '
            'Fd = 0 gives a constant process and |h| <= sqrt(L) (triangle inequality by induction over the rays, '
            'bound attained). The model is the index-based time stepping of the repaired code. It is tied to the '
            'current source (a) by regeneration: harness/gen/c14.py executes generate_more_samples / '
            'skip_samples_for_next_generation symbolically on the AST (private helpers and properties inlined, one '
            'run per kind of request size: default / integer z / non-integer; canonical linear integer forms in '
            'the counter k and the validated size z; typed values so that a time vector is accepted only as '
            '(integer index vector) * scalar) and re-emits Generated/C14Jakes.lean: counter after the call on '
            'every path incl. the raising ones, exception, index vector (first, count, step), time scale, ray '
            'phase, amplitude, sum over the rays (also for the free function generate_jakes_samples); '
            'generated_bookkeeping_matches_model, generated_jakes_formula_matches_model and '
            'generated_request_evaluates_model_samples equate it with the model for ALL counters, sizes and real '
            'parameters (linear integer arithmetic / ring; cos, sin, sqrt, pi stay class operations); (b) '
            'by seeded histories (positions up to 1e10 reached by skips, n up to 1e5, Ts 1e-9..1, shapes '
            'None/int/tuples, shape reassignments): counts, shapes, sample numbers, counter, epoch compared '
            'exactly, time vectors to 2 ulp, values to sqrt(L)*(1e-12 + 2^-48*phase). The float-stepped arange '
            'of the original code is kept as a separate model with kernel-evaluated binary64 negative witnesses.',
    'note': 'Trusted: Lean kernel, axioms {propext, Classical.choice, Quot.sound}; Lean Float kernel model = '
            'IEEE binary64 for the historical witness only; the correspondence harness for the hand model; '
            'numpy RNG draws of phi/psi are a model parameter (read back from the generator). binary64 rounding '
            'of the Jakes sum is outside the theorems: values are compared with tolerance sqrt(L)*(1e-12 + '
            '2^-48*(2*pi*Fd*t + 2*pi)), which becomes vacuous for Fd*t above ~1e13 cycles (inherent to binary64 '
            'time). Robustness classes: R1 (element types) - theorem request_value_only / counter_monotone (the '
            'model request is the integer VALUE, the counter an unbounded Nat) + correspondence and oracles with '
            'sizes of every numpy integer type crossing its range, 0-d arrays, bool, typed Fd/Ts/L (narrow float '
            'Fd/Ts add that type eps times the phase to the tolerance), typed shapes; R2 (layout/shape) - '
            'correspondence/oracle only (phases delivered Fortran/strided/reversed/transposed/read-only through '
            'the RS parameter, zero-length axes, size-0 requests, phi/psi layouts and float32/list inputs of the '
            'free function); R3 - theorem produced_independent_of_future + content snapshots of every returned '
            'array, phases, function inputs, caller lists; R4 - theorems rejected_request_keeps_state / '
            'rejected_requests_invisible + exact error-kind correspondence and unchanged-observables oracle '
            '(negative sizes -> ValueError, non-integers incl. 5.0 -> TypeError: the oracle demands that '
            'ill-formed sizes raise); R5 - boundary families (n=0, skip 0, L=1, Fd 0/0.0/-0.0, Ts=0.0 oracle '
            'only, shapes with axes 0/1, sizes and positions 2^p+-1, 2^31/2^32) by correspondence/oracle; R6 - '
            'oracle/correspondence only (time axis rescaled by 1e-12..1e12, tolerances relative to the phase); '
            'R7 - theorem history_equiv_fresh + life-cycle oracle (fresh generator with replayed phases, '
            'copy/deepcopy, get_similar_fading_generator, RandomState shared by two generators). Second round: '
            'R8 (argument forms) - theorems default_forms_agree / constructor_vs_setter + correspondence/oracles '
            'with every call positional / keyword / explicit None / explicit default, constructor positional / '
            'keyword / shuffled / defaults omitted / RS omitted (global generator), constructor-vs-setter oracle '
            'with replayed draws, generator vs free function generate_jakes_samples (all call forms, default '
            'phases, documented defaults), get_similar forwarding; R9 (counts) - theorem request_value_only + '
            'every numpy integer name (intp, longlong, short, intc, byte and unsigned twins), values > 256, range '
            'crossings, by correspondence and oracle; R10 (heterogeneous) - shapes whose elements differ in type, '
            'phi/psi of the free function differing in dtype / container (float32 next to float64, int16, lists, '
            'nested mixed rows), correspondence/oracle only; R11 (non-mutating API) - model op `query` + theorem '
            'queries_invisible, driver token q, 16 queries (get_samples, properties, repr/str, ==, hash, dir, vars, '
            'copy, deepcopy, pickle, similar; derived objects are also used) inside histories, unchanged '
            'observables and canonical twin without the queries; R12 (container order) does not apply: the API '
            'has no dict / set / named container, only keyword order of the constructor (shuffled under R8); R13 '
            '(derived objects) - theorem derived_copy_replays_history + fork correspondence (copy / deepcopy / '
            'pickle inside a history, parent and child continued interleaved) and oracle against never-related '
            'twins incl. similar generator, second round trip of the child, default-RS generators; R14 (count '
            'scale) - L = 257 / 258 / 300 / 65537 rays, 257 / 258 / 300 / 65537 entries, 12-dimensional shape, '
            'by correspondence/oracle (the model is unbounded). Third round: R15 (distinct values that are merely close) - '
            'theorems close_values_distinct_samples / tiny_doppler_not_time_invariant / close_phase_distinct_samples (single '
            'ray: two (Fd, t) pairs less than one cycle apart, two starting phases less than one turn apart give different '
            'samples, so only Fd = 0 is time invariant and the model is a function of the exact values) + oracles: sets of '
            'live generators whose Fd / Ts are 0, 1e-15 .. 1e-9, or differ by a relative 1e-9 .. 1e-5, or are adjacent '
            'doubles, same phases, histories issued interleaved / one after the other, each checked against the closed '
            'form for its OWN values with the separation of the variants computed from the reference (>= 20 tolerances, '
            'reported as close_margin_min; adjacent doubles: exact storage / forwarding only), call sequences of the free '
            'function with close Fd / Ts / current_time / phi_l / psi_l, Ts = 1e-9 with requests and skips of 0..9 samples; '
            'every variant also runs through the correspondence (model evaluated at exactly these values). The class has '
            'no float setter (Fd / Ts / L are read-only), so "a setter takes effect for a close value" does not apply. R16 '
            '(argument identity and buffer reuse) - model of the caller (Caller / CallerOp / runC: ONE 0-d size buffer and '
            'ONE shape buffer refilled in place, passed to generate and skip alike, overwritten after the call), theorems '
            'buffer_contents_at_call_time / later_refills_invisible, driver command histb + correspondence and oracles '
            '(closed form, canonical twin with fresh Python ints) on histories whose sizes / shapes travel in such buffers '
            '(rejected contents, constructor list reused by the setter, one buffer serving parent and derived copy), free '
            'function with ONE phi / psi array (reshaped and refilled in place, the same array in both roles, equal-content '
            'fresh copies, phases beyond one turn, arguments overwritten after the call, earlier results intact, equal to a '
            'later call on fresh copies), ONE RandomState re-seeded in place for several constructors / shape assignments. '
            'Arrays handed out by get_samples() are not arguments: scribbling over them is not part of R16. An exception escaping an oracle is a failing input '
            '(exit 1), a harness exception in the correspondence a broken tie (exit 1), never exit 2. L = 0 '
            '(ZeroDivisionError, modelled) is outside the property quantifier.'}

TWO_PI = 2.0 * math.pi
EPS48 = 2.0 ** -48
# largest observed error / tolerance ratios (reported in the evidence: the margin of the stated tolerances)
STATS = {'oracle_twin': 0.0, 'oracle_value': 0.0, 'oracle_chunk': 0.0, 'corr_value': 0.0, 'chunk_bit_exact': 0, 'chunk_compared': 0}


# ------------------------------------------------------------------ helpers
def _impl():
    from pyphysim.channels import fading_generators
    return fading_generators


# ---- arguments as the caller passes them (robustness classes R1/R2/R4/R5) ----
# A request size spec (JSON) is None (default argument), a Python int, or
#   {'t': 'uint16', 'v': 40000}   numpy integer scalar of that width
#   {'t': 'arr0:int32', 'v': 7}   0-d integer array
#   {'t': 'bool', 'v': 1}         Python bool (an int)
#   {'t': 'float'|'float32'|..., 'v': 2.5}   Python / numpy float (not an integer object)
#   {'t': 'str'} / {'t': 'list', 'v': 3}     not a number
# A shape spec is None, an int, a list of ints (passed as a tuple), or
#   {'t': 'np:int64', 'v': 3}       numpy integer scalar
#   {'t': 'list', 'v': [2, 3]}      Python list (the caller mutates it after the call)
#   {'t': 'nptuple:int8', 'v': [2, 3]}  tuple of numpy integers
#   {'t': 'arr:int32', 'v': [2, 3]}     integer array
#   {'t': 'neg', 'v': [2, -1]} / {'t': 'negint', 'v': -1} / {'t': 'str'} / {'t': 'float'} / {'t': 'tuplefloat'}
INT_TYPES = ('int8', 'uint8', 'int16', 'uint16', 'int32', 'uint32', 'int64', 'uint64',
             'intp', 'uintp', 'longlong', 'ulonglong', 'short', 'ushort', 'intc', 'uintc', 'byte', 'ubyte')
# argument BUFFERS (R16): {'t': 'buf0:int64', 'v': 7} is the caller's ONE preallocated 0-d array of that type, refilled
# in place (buf[...] = 7) for this call and overwritten right after it; {'t': 'buf:list', 'v': [2, 3]} /
# {'t': 'buf:arr:int64', 'v': [2, 3]} the caller's ONE list / integer array (per length) for shapes, refilled in place
# argument FORMS (R8): a size spec may be wrapped as {'form': 'kw' | 'none', 'a': spec}: the call is made by
# keyword (num_samples=...) / with an explicit None instead of leaving the argument out
QUERIES = ('get_samples', 'shape', 'L', 'Ts', 'Fd', 'repr', 'str', 'eq', 'hash', 'current_time', 'dir', 'vars',
           'copy', 'deepcopy', 'pickle', 'similar')


def unform(spec):
    if isinstance(spec, dict) and 'form' in spec:
        return spec['form'], spec['a']
    return None, spec

FLOAT_TYPES = ('float16', 'float32', 'float64')

# the caller's preallocated argument buffers (R16); emptied at the start of every oracle / implementation run so that
# a replay starts from the same caller state
_BUFS = {}
SCRIBBLE = 77


def reset_buffers():
    _BUFS.clear()


def size_buffer(dt, v):
    b = _BUFS.get(('size', dt))
    if b is None:
        b = _BUFS[('size', dt)] = np.zeros((), dtype=dt)
    b[...] = v
    return b


def shape_buffer(t, v):
    if t == 'buf:list':
        b = _BUFS.setdefault(('shape', 'list'), [])
        b[:] = [int(d) for d in v]
        return b
    dt = t.split(':')[2]
    b = _BUFS.get(('shape', dt, len(v)))
    if b is None:
        b = _BUFS[('shape', dt, len(v))] = np.zeros(len(v), dtype=dt)
    b[...] = v
    return b


def is_buf(spec):
    spec = unform(spec)[1] if isinstance(spec, dict) and 'form' in spec else spec
    return isinstance(spec, dict) and str(spec.get('t', '')).startswith('buf')


def scribble(obj):
    """the caller goes on using its own argument object right after the call (R3 / R16 iii)"""
    if isinstance(obj, list):
        obj.append(5)
    elif isinstance(obj, np.ndarray) and obj.flags.writeable and obj.dtype.kind in 'iuf':
        obj[...] = SCRIBBLE


def mk_size(spec):
    spec = unform(spec)[1]
    if spec is None or isinstance(spec, int):
        return spec
    t, v = spec['t'], spec.get('v')
    if t in INT_TYPES:
        return getattr(np, t)(v)
    if t.startswith('arr0:'):
        return np.array(v, dtype=t[5:])
    if t.startswith('buf0:'):
        return size_buffer(t[5:], v)
    if t == 'bool':
        return bool(v)
    if t == 'float':
        return float(v)
    if t in FLOAT_TYPES:
        return getattr(np, t)(v)
    if t == 'str':
        return 'a'
    if t == 'list':
        return [v]
    raise ValueError(spec)


def size_value(spec):
    """('ok', n) integer-valued object with value n >= 0 | ('reject', kind) must raise |
    ('either', n) integral float: may be refused or taken as n"""
    spec = unform(spec)[1]
    if spec is None:
        return 'ok', 1
    if isinstance(spec, int):
        return ('ok', spec) if spec >= 0 else ('reject', 'ValueError')
    t, v = spec['t'], spec.get('v')
    if t in INT_TYPES or t == 'bool' or (t[:5] in ('arr0:', 'buf0:') and t[5:] in INT_TYPES):
        return ('ok', int(v)) if int(v) >= 0 else ('reject', 'ValueError')
    if t == 'float' or t in FLOAT_TYPES or t[:5] in ('arr0:', 'buf0:'):
        return ('either', int(v)) if float(v) == int(v) and v >= 0 else ('reject', 'TypeError')
    return 'reject', 'TypeError'


def size_tok(spec):
    """the model's view of the argument: its integer value, or x = not an integer object"""
    spec = unform(spec)[1]
    if spec is None:
        return ''
    if isinstance(spec, int):
        return str(spec)
    t = spec['t']
    if t in INT_TYPES or t == 'bool' or (t[:5] in ('arr0:', 'buf0:') and t[5:] in INT_TYPES):
        return str(int(spec['v']))
    return 'x'


def size_dtype(spec):
    spec = unform(spec)[1]
    return None if (spec is None or isinstance(spec, int)) else spec['t']


def mk_shape(spec):
    if spec is None or isinstance(spec, int):
        return spec
    if isinstance(spec, (list, tuple)):
        return tuple(int(d) for d in spec)
    t, v = spec['t'], spec.get('v')
    if t.startswith('np:'):
        return getattr(np, t[3:])(v)
    if t == 'list':
        return [int(d) for d in v]
    if t.startswith('nptuple:'):
        return tuple(getattr(np, t[8:])(d) for d in v)
    if t.startswith('arr:'):
        return np.array(v, dtype=t[4:])
    if t.startswith('buf:'):
        return shape_buffer(t, v)
    if t == 'mixed':        # a tuple whose ELEMENTS differ in type (R10)
        kinds = [int, np.int8, np.uint64, np.intp, lambda d: np.array(d, dtype=np.int16), np.uint8]
        return tuple((bool(d) if (d == 1 and i % 3 == 2) else kinds[i % len(kinds)](d)) for i, d in enumerate(v))
    if t == 'mixedlist':
        kinds = [np.int32, int, np.uint16]
        return [kinds[i % 3](d) for i, d in enumerate(v)]
    if t == 'neg':
        return tuple(int(d) for d in v)
    if t == 'negint':
        return int(v)
    if t == 'str':
        return 'ab'
    if t == 'float':
        return 2.5
    if t == 'tuplefloat':
        return (2, 1.5)
    raise ValueError(spec)


def shape_value(spec):
    """('ok', None | tuple) | ('reject', kind)"""
    if spec is None:
        return 'ok', None
    if isinstance(spec, int):
        return ('ok', (spec,)) if spec >= 0 else ('reject', 'ValueError')
    if isinstance(spec, (list, tuple)):
        return 'ok', tuple(int(d) for d in spec)
    t, v = spec['t'], spec.get('v')
    if t.startswith('np:'):
        return 'ok', (int(v),)
    if t.startswith('buf:'):        # whatever the buffer holds at call time: negative entries are refused
        return ('ok', tuple(int(d) for d in v)) if all(int(d) >= 0 for d in v) else ('reject', 'ValueError')
    if t in ('list', 'mixed', 'mixedlist') or t.startswith('nptuple:') or t.startswith('arr:'):
        return 'ok', tuple(int(d) for d in v)
    if t in ('neg', 'negint'):
        return 'reject', 'ValueError'
    return 'reject', 'TypeError'


def shape_tok(spec):
    """token of the model's RawShape"""
    if spec is None:
        return 'n'
    if isinstance(spec, int):
        return 'i%d' % spec
    if isinstance(spec, (list, tuple)):
        return 't' + ';'.join(str(int(d)) for d in spec)
    t, v = spec['t'], spec.get('v')
    if t.startswith('np:') or t == 'negint':
        return 'i%d' % int(v)
    if t in ('list', 'neg', 'mixed', 'mixedlist') or t.startswith('nptuple:') or t.startswith('arr:') or t.startswith('buf:'):
        return 't' + ';'.join(str(int(d)) for d in v)
    return 'x'


def norm_shape(shape):
    """logical configured shape of a VALID shape spec: None | tuple"""
    st, val = shape_value(shape)
    assert st == 'ok', shape
    return val


shape_arg = mk_shape


def op_tok(op):
    kind, arg = op[0], op[1]
    if kind == 'g':
        return 'g' + size_tok(arg)
    if kind == 's':
        return 's' + size_tok(arg)
    if kind == 'Q':
        return 'q'
    return 'S' + shape_tok(arg)


def call_size_op(g, kind, spec):
    """issue generate_more_samples / skip_samples_for_next_generation in the argument form of the spec"""
    form, a = unform(spec)
    obj = mk_size(a)
    try:
        if kind == 's':
            if form == 'kw':
                g.skip_samples_for_next_generation(num_samples=obj)
            else:
                g.skip_samples_for_next_generation(obj)
        elif a is None and form != 'none':
            g.generate_more_samples()
        elif form == 'kw':
            g.generate_more_samples(num_samples=obj)
        else:
            g.generate_more_samples(obj)
    finally:
        if is_buf(a):
            obj[...] = SCRIBBLE     # R16: the caller overwrites its buffer right after the call
    return obj


def derive(g, how):
    """an object obtained FROM a generator (R13)"""
    import copy as _copy
    import pickle as _pickle
    if how == 'copy':
        return _copy.copy(g)
    if how == 'deepcopy':
        return _copy.deepcopy(g)
    if how == 'pickle':
        return _pickle.loads(_pickle.dumps(g))
    if how == 'similar':
        return g.get_similar_fading_generator()
    raise ValueError(how)


def do_query(g, name, use_child=True):
    """one call of the non-mutating API (R11); derived objects are also USED, which must not reach
    back into the generator they came from (R13)"""
    if name == 'get_samples':
        g.get_samples()
        g.get_samples()
    elif name in ('shape', 'L', 'Ts', 'Fd'):
        getattr(g, name)
    elif name == 'repr':
        repr(g)
    elif name == 'str':
        str(g)
    elif name == 'eq':
        (g == g, g != derive(g, 'copy'))
    elif name == 'hash':
        hash(g)
    elif name == 'current_time':
        g._current_time
    elif name == 'dir':
        dir(g)
    elif name == 'vars':
        dict(vars(g))
    else:
        child = derive(g, name)
        if use_child:
            child.generate_more_samples(3)
            child.skip_samples_for_next_generation(2)
            # a shallow copy shares the parent's RandomState, and every generator without an explicit RS
            # shares numpy's global one: drawing new phases there is visible to the parent by design
            if name != 'copy' and getattr(child, 'RS', None) is not np.random:
                child.shape = 2
                child.generate_more_samples(2)


def mk_param(v, t):
    """a numeric parameter passed as the given Python / numpy type (same value)"""
    if t is None:
        return v
    if t == 'int':
        return int(v)
    if t == 'float':
        return float(v)
    return getattr(np, t)(v)


def narrow_eps(case):
    """relative precision a narrow float type of Fd/Ts legitimately limits the phase to"""
    e = 0.0
    for name in ('Fd', 'Ts'):
        t = (case.get('types') or {}).get(name)
        if t in ('float16', 'float32'):
            e = max(e, float(np.finfo(getattr(np, t)).eps))
    return e


def case_tag(case, arg=None):
    """input class of a case: which robustness variants it exercises, and the type of the failing
    argument when there is one (computed from the input, coarse enough to group)"""
    tags = []
    if isinstance(arg, dict):
        tags.append('arg=' + arg['t'])
    elif isinstance(arg, int) and not isinstance(arg, bool) and arg < 0:
        tags.append('arg=negative')
    specs = [o[1] for o in case.get('ops', []) if o[0] in 'gs'] + [c[1] for c in case.get('chunks', [])]
    if any(size_dtype(a) for a in specs) and not isinstance(arg, dict):
        tags.append('typed-sizes')
    if (any(o[0] == 'S' and isinstance(o[1], dict) for o in case.get('ops', []))
            or isinstance(case.get('shape'), dict)) and not isinstance(arg, dict):
        tags.append('typed-shapes')
    if any(is_buf(a) for a in specs) or is_buf(case.get('shape')) or any(o[0] == 'S' and is_buf(o[1]) for o in case.get('ops', [])):
        tags.append('arg-buffers')
    if case.get('r15'):
        tags.append('close-values=' + case['r15'])
    if case.get('types'):
        tags.append('params=' + '+'.join(sorted(set(case['types'].values()))))
    if isinstance(case.get('seed'), dict) and 'layout' in case['seed']:
        tags.append('layout=' + case['seed']['layout'])
    if case.get('scale_exp10'):
        tags.append('scaled')
    if case.get('ctor'):
        tags.append('ctor=' + case['ctor'])
    if any(o[0] in 'gs' and unform(o[1])[0] for o in case.get('ops', [])):
        tags.append('call-forms')
    if any(o[0] == 'Q' for o in case.get('ops', [])) and not isinstance(arg, dict):
        tags.append('queries')
    return ','.join(tags)


def cls(kind, case, k, n, arg=None):
    """failure class: what failed + robustness variant of the input + how far the generator had run"""
    tag = case_tag(case, arg)
    return '%s:%s%s' % (kind, (tag + ':') if tag else '', regime(k, n))


def tol_for(L, Fd, tmax):
    """stated value tolerance: binary64 phase rounding is ~6*2^-53 relative to the phase"""
    return math.sqrt(max(L, 1)) * (1e-12 + EPS48 * (TWO_PI * abs(Fd) * abs(tmax) + TWO_PI))


def regime(k, n):
    """input class: how far the generator has run relative to the request size"""
    return 'k/n>=2^18' if k >= (max(int(n), 1) << 18) else 'k/n<2^18'


def probe_indices(n):
    """deterministic subset of the time axis that is checked against the reference"""
    if n <= 512:
        return np.arange(n)
    a = np.arange(128)
    r = (np.arange(256, dtype=np.int64) * 2654435761) % n
    return np.unique(np.concatenate([a, n - 1 - a, r]))


_LD = np.longdouble
_PI_LD = _LD(4) * np.arctan(_LD(1))


def ref_values(Fd, Ts, phi, psi, ks):
    """First-principles Jakes sum h(k*Ts), k in ks, for the generator's own phi/psi
    (arrays of shape (L, *shape, 1)), in extended precision with the phase
    reduced in cycles.  Returns complex128 array of shape (*shape, len(ks))."""
    L = phi.shape[0]
    c = np.cos(phi.astype(_LD))
    tk = np.asarray(ks, dtype=_LD) * _LD(Ts)
    cycles = _LD(Fd) * c * tk
    frac = cycles - np.floor(cycles)
    ph = _LD(2) * _PI_LD * frac + psi.astype(_LD)
    re = np.cos(ph).sum(axis=0) / np.sqrt(_LD(L))
    im = np.sin(ph).sum(axis=0) / np.sqrt(_LD(L))
    return re.astype(np.float64) + 1j * im.astype(np.float64)


def ref_exact_point(Fd, Ts, phis, psis, k):
    """Same value for one entry with the phase reduced in exact rational arithmetic
    (validates `ref_values`, independent of long double)."""
    from fractions import Fraction
    L = len(phis)
    re = im = 0.0
    for p, q in zip(phis, psis):
        cyc = Fraction(float(Fd)) * Fraction(math.cos(float(p))) * int(k) * Fraction(float(Ts))
        frac = float(cyc - math.floor(cyc))
        a = TWO_PI * frac + float(q)
        re += math.cos(a)
        im += math.sin(a)
    s = 1.0 / math.sqrt(L)
    return complex(re * s, im * s)


class ConstRS:
    """RandomState stand-in (public `RS` parameter): every draw is the constant c"""

    def __init__(self, c):
        self.c = c

    def rand(self, *shape):
        return np.full(shape, self.c, dtype=float)


class LayoutRS:
    """RandomState stand-in: the same draws as RandomState(seed) handed over in another
    memory layout (R2) or read-only (R3)"""

    def __init__(self, seed, mode):
        self.rs = np.random.RandomState(int(seed))
        self.mode = mode

    def rand(self, *shape):
        base = self.rs.rand(*shape)
        m = self.mode
        if m == 'F':
            return np.asfortranarray(base)
        if m == 'transposed':
            return np.ascontiguousarray(base.T).T
        if m == 'strided':
            big = np.full((2 * base.shape[0],) + base.shape[1:], 123.0) if base.ndim else base
            if base.ndim:
                big[::2] = base
                return big[::2]
            return base
        if m == 'reversed':
            return np.ascontiguousarray(base[::-1])[::-1] if base.ndim else base
        if m == 'readonly':
            base.flags.writeable = False
            return base
        raise ValueError(m)


class RecordingRS:
    """RandomState wrapper that remembers every draw"""

    def __init__(self, seed):
        self.rs = np.random.RandomState(int(seed))
        self.draws = []

    def rand(self, *shape):
        u = self.rs.rand(*shape)
        self.draws.append(u.copy())
        return u


class ReplayRS:
    def __init__(self, draws):
        self.draws = [d.copy() for d in draws]

    def rand(self, *shape):
        u = self.draws.pop(0)
        assert u.shape == tuple(shape), (u.shape, shape)
        return u


def make_rs(seed):
    if isinstance(seed, dict):
        if 'const' in seed:
            return ConstRS(float(seed['const']))
        return LayoutRS(seed['seed'], seed['layout'])
    return np.random.RandomState(int(seed))


def scaled(case):
    """(Fd, Ts) actually passed: the whole time axis rescaled by 10^e (Fd*10^e, Ts/10^e) — R6"""
    e = case.get('scale_exp10') or 0
    if not e:
        return case['Fd'], case['Ts']
    return case['Fd'] * (10.0 ** e), case['Ts'] / (10.0 ** e)


DEFAULTS = {'Fd': 100, 'Ts': 1e-3, 'L': 8, 'shape': None}


def make_gen(case, cls=None, rs=None, shape_obj='build'):
    """build the generator in the argument form case['ctor'] (R8): positional (default), 'kw', 'kw-shuffled',
    'mixed' (Fd, Ts positional), 'omit-defaults' (parameters equal to their documented default are left
    out), 'explicit-none-shape' is the ordinary shape=None; 'global-rs': RS left out, numpy's global
    generator seeded with the case seed instead (the documented default RS)"""
    fg = _impl()
    cls = cls or fg.JakesSampleGenerator
    types = case.get('types') or {}
    Fd, Ts = scaled(case)
    form = case.get('ctor')
    args = {'Fd': mk_param(Fd, types.get('Fd')), 'Ts': mk_param(Ts, types.get('Ts')),
            'L': mk_param(int(case['L']), types.get('L')),
            'shape': mk_shape(case['shape']) if isinstance(shape_obj, str) else shape_obj}
    if form == 'global-rs' and rs is None:
        np.random.seed(int(case['seed']))
        rs_kw = {}
    else:
        rs_kw = {'RS': rs if rs is not None else make_rs(case['seed'])}
    if form in (None, 'global-rs'):
        if rs_kw:
            return cls(args['Fd'], args['Ts'], args['L'], args['shape'], rs_kw['RS'])
        return cls(args['Fd'], args['Ts'], args['L'], args['shape'])
    if form == 'mixed':
        return cls(args['Fd'], args['Ts'], shape=args['shape'], L=args['L'], **rs_kw)
    if form == 'omit-defaults':
        kw = {k: v for k, v in args.items()
              if not (types.get(k) is None and not case.get('scale_exp10') and case[k] == DEFAULTS[k]
                      and type(case[k]) is type(DEFAULTS[k]))}
        return cls(**kw, **rs_kw)
    kw = dict(args, **rs_kw)
    if form == 'kw-shuffled':
        keys = sorted(kw, key=lambda k: (hash((k, int(case['seed']) if not isinstance(case['seed'], dict) else 0)) & 0xffff))
        kw = {k: kw[k] for k in keys}
    return cls(**kw)


def twin_case(case):
    """the canonical twin: positional Python ints / float64 / C layout / unscaled / explicit RandomState,
    rejected calls and non-mutating calls left out"""
    t = {k: v for k, v in case.items() if k not in ('types', 'scale_exp10', 'ctor')}
    if isinstance(case.get('seed'), dict) and 'layout' in case['seed']:
        t['seed'] = case['seed']['seed']
    st, val = shape_value(case['shape'])
    t['shape'] = None if val is None else list(val)
    ops = []
    for kind, arg in case['ops']:
        if kind == 'Q':
            continue
        if kind == 'S':
            st, val = shape_value(arg)
            if st == 'ok':
                ops.append(['S', None if val is None else list(val)])
        else:
            st, val = size_value(arg)
            if st == 'ok':
                ops.append([kind, None if unform(arg)[1] is None else val])
            elif st == 'either':
                ops.append([kind, {'either': val}])
    t['ops'] = ops
    return t


def entry_count(shape):
    s = norm_shape(shape)
    return 1 if s is None else max(1, int(np.prod(s, dtype=np.int64))) if len(s) else 1


# ------------------------------------------------------------------ oracles
# every oracle takes a JSON-serialisable case, runs the REAL code and returns
# None (property holds) or (class, detail); classes are computed from the input.
def observables(g):
    """everything a user can see of a generator (R4: compared before / after a rejected call)"""
    def safe(f):
        try:
            return f()
        except Exception as e:
            return 'exc:' + type(e).__name__
    import warnings
    h = g.get_samples()
    with warnings.catch_warnings():
        warnings.simplefilter('ignore')     # int * np.float16 overflow in the private time property
        tm = safe(lambda: repr(float(g._current_time)))
    return {'samples-object': id(h), 'samples': None if h is None else np.array(h, copy=True),
            'shape': safe(lambda: repr(g.shape)), 'phi': g._phi_l.copy(), 'psi': g._psi_l.copy(),
            'phi-object': id(g._phi_l), 'time': tm,
            'index': safe(lambda: repr(getattr(g, '_sample_index', None)))}


def diff_observables(a, b):
    for key in a:
        x, y = a[key], b[key]
        same = np.array_equal(x, y) if isinstance(x, np.ndarray) or isinstance(y, np.ndarray) else x == y
        if not same:
            return key
    return None


def case_tol(case, L, tmax):
    """stated value tolerance of a case (see tol_for); a rescaled time axis adds the rounding of the
    rescaling, a float16/float32 Fd or Ts limits the phase to that type's precision"""
    t = tol_for(L, case['Fd'], tmax) * (2.0 if case.get('scale_exp10') else 1.0)
    return t + 2.0 * math.sqrt(max(L, 1)) * narrow_eps(case) * (TWO_PI * abs(case['Fd']) * abs(tmax) + 1.0)


def o_history(case):
    """count / shape / dtype / value of every request of a history, against the closed form at exactly
    (number of samples requested before + j) * Ts — request sizes, shapes and parameters passed as
    any integer / float type (R1), phases delivered in any memory layout (R2), earlier outputs and
    phases untouched by later calls (R3), ill-formed calls raise and change nothing (R4)"""
    Fd, Ts, L = case['Fd'], case['Ts'], int(case['L'])
    k = 0          # the oracle's own count of samples consumed so far
    ctor_shape = mk_shape(case['shape'])
    try:
        g = make_gen(case, shape_obj=ctor_shape)
    except Exception as e:
        return cls('exception:' + type(e).__name__, case, 0, 1, case['shape']), 'constructor: %r' % (e,)
    shape = norm_shape(case['shape'])
    if isinstance(ctor_shape, (list, np.ndarray)):
        scribble(ctor_shape)        # the caller goes on using its own list / array
        if tuple(g.shape) != shape:
            return cls('shape-attribute', case, 0, 1, case['shape']), \
                'the shape follows the list the caller passed to the constructor: %r' % (g.shape,)
    pending = [('g', None, True)] + [(o[0], o[1], False) for o in case['ops']]
    held = None
    kept = []                                   # (array handed out earlier, copy taken then)
    phases = (g._phi_l.copy(), g._psi_l.copy())

    def earlier_outputs_intact():
        for i, (arr, cp) in enumerate(kept):
            if not np.array_equal(arr, cp):
                return i
        return None

    for step_no, (kind, arg, is_ctor) in enumerate(pending):
        if kind == 'Q':
            # R11: a call of the non-mutating API (derived objects are used, R13) changes nothing observable
            before = observables(g)
            try:
                do_query(g, arg)
            except Exception as e:
                return cls('exception:' + type(e).__name__, case, k, 1, {'t': 'query:' + arg}), \
                    'query %s at sample %d: %r' % (arg, k, e)
            d = diff_observables(before, observables(g))
            if d:
                return cls('query-changed-state', case, k, 1, {'t': 'query:' + arg}), \
                    'the non-mutating call %s at sample %d changed %s' % (arg, k, d)
            bad = earlier_outputs_intact()
            if bad is not None:
                return cls('output-changed-by-later-call', case, k, 1, {'t': 'query:' + arg}), \
                    'query %s changed an array returned earlier' % arg
            continue
        if kind == 'S':
            st, val = shape_value(arg)
            obj = mk_shape(arg)
            before = observables(g)
            try:
                g.shape = obj
                raised = None
            except Exception as e:
                raised = e
            if st == 'reject' and is_buf(arg):
                scribble(obj)
            if st == 'reject':
                if raised is None:
                    return cls('invalid-shape-accepted', case, k, 1, arg), 'shape = %r was accepted' % (obj,)
                d = diff_observables(before, observables(g))
                if d:
                    return cls('rejected-call-changed-state', case, k, 1, arg), \
                        'shape = %r raised %s but changed %s' % (obj, type(raised).__name__, d)
                continue
            if raised is not None:
                return cls('exception:' + type(raised).__name__, case, k, 1, arg), 'shape = %r: %r' % (obj, raised)
            shape = val
            scribble(obj)           # the caller goes on using its own list / array
            got = g.shape
            if not (got is None and val is None or (got is not None and tuple(got) == val)):
                return cls('shape-attribute', case, k, 1, arg), 'shape = %r reads back as %r' % (mk_shape(arg), got)
            if g.get_samples() is not held:
                return cls('get_samples-changed-by-shape', case, k, 1), 'at sample %d' % k
            phases = (g._phi_l.copy(), g._psi_l.copy())
            continue
        st, val = size_value(arg)
        obj = None if (is_ctor or is_buf(arg)) else mk_size(arg)
        n = val if st != 'reject' else 1
        reg_n = max(n, 1)
        before = observables(g) if st != 'ok' else None
        try:
            if not is_ctor:
                call_size_op(g, kind, arg)
            raised = None
        except Exception as e:
            raised = e
        what = '%s(%r) at sample %d' % ('skip' if kind == 's' else 'generate_more_samples',
                                       unform(arg)[1] if is_buf(arg) else obj, k)
        if st == 'reject' and raised is None:
            return cls('invalid-size-accepted', case, k, 1, arg), what + ' was accepted'
        if st in ('reject', 'either') and raised is not None:
            d = diff_observables(before, observables(g))
            if d:
                return cls('rejected-call-changed-state', case, k, 1, arg), \
                    '%s raised %s but changed %s' % (what, type(raised).__name__, d)
            continue
        if raised is not None:
            return cls('exception:' + type(raised).__name__, case, k, reg_n, arg), '%s: %r' % (what, raised)
        bad = earlier_outputs_intact()
        if bad is not None:
            return cls('output-changed-by-later-call', case, k, reg_n), \
                '%s changed an array returned %d requests earlier' % (what, len(kept) - bad)
        if not (np.array_equal(g._phi_l, phases[0]) and np.array_equal(g._psi_l, phases[1])):
            return cls('phases-changed-by-request', case, k, reg_n), what
        if kind == 's':
            if g.get_samples() is not held:
                return cls('get_samples-changed-by-skip', case, k, reg_n), 'at sample %d' % k
            k += n
            continue
        h = g.get_samples()
        held = h
        exp_shape = ((n,) if shape is None else shape + (n,))
        if not isinstance(h, np.ndarray):
            return cls('shape', case, k, reg_n), 'get_samples() is %s' % type(h).__name__
        if h.shape[-1:] != (n,):
            return cls('count', case, k, reg_n), 'request of %d at sample %d returned shape %s' % (n, k, h.shape)
        if h.shape != exp_shape:
            return cls('shape', case, k, reg_n), 'request of %d returned shape %s, expected %s' % (n, h.shape, exp_shape)
        if h.dtype != np.complex128:
            return cls('dtype', case, k, reg_n), 'samples have dtype %s' % h.dtype
        if h.size and any(np.shares_memory(h, o) for o in [x[0] for x in kept] + [g._phi_l, g._psi_l]):
            return cls('outputs-share-memory', case, k, reg_n), what + ' returned memory already handed out / internal'
        js = probe_indices(n)
        ref = ref_values(Fd, Ts, g._phi_l, g._psi_l, k + js)
        tol = case_tol(case, L, (k + n) * Ts)
        err = float(np.max(np.abs(h[..., js] - ref))) if h.size else 0.0
        STATS['oracle_value'] = max(STATS['oracle_value'], err / tol)
        if not err <= tol:
            w = int(js[int(np.argmax(np.max(np.abs(h[..., js] - ref).reshape(-1, len(js)), axis=0)))])
            return cls('value', case, k, reg_n), ('request of %d at sample %d: entry %d differs from the Jakes sum at '
                                               '(%d)*Ts by %.3g (tolerance %.3g)' % (n, k, w, k + w, err, tol))
        kept.append((h, h.copy()))
        if len(kept) > 5:
            del kept[1]
        k += n
    bad = earlier_outputs_intact()
    if bad is not None:
        return cls('output-changed-by-later-call', case, k, 1), 'an earlier array changed by the end of the history'
    return None


def run_plain(g, ops):
    """drive a canonical (twin) history; returns the arrays of its generate requests"""
    outs = []
    for kind, arg in ops:
        if isinstance(arg, dict) and 'either' in arg:
            arg = arg['either']
        if kind == 'S':
            g.shape = mk_shape(arg)
        elif kind == 's':
            g.skip_samples_for_next_generation(arg)
        else:
            g.generate_more_samples(arg)
            outs.append(g.get_samples())
    return outs


def o_twin(case):
    """the same logical history through the canonical twin (Python ints, float64 parameters,
    C-contiguous phases, unscaled time axis, rejected calls never issued) must give positionally
    equal outputs — first-principles metamorphic check for R1, R2, R4, R6 (no formula involved)"""
    L = int(case['L'])
    tw = twin_case(case)
    try:
        b = make_gen(tw)
        a = make_gen(case)
    except Exception as e:
        return cls('exception:' + type(e).__name__, case, 0, 1), 'constructor: %r' % (e,)
    if not (np.array_equal(a._phi_l, b._phi_l) and np.array_equal(a._psi_l, b._psi_l)):
        return cls('phases-differ-from-twin', case, 0, 1), 'same draws, different phi/psi'
    outs_a = [a.get_samples()]
    k = 1
    ks = [0]
    for kind, arg in case['ops']:
        try:
            if kind == 'Q':
                st, val = 'ok', 0
                do_query(a, arg)
            elif kind == 'S':
                st, val = shape_value(arg)
                a.shape = mk_shape(arg)
            else:
                st, val = size_value(arg)
                call_size_op(a, kind, arg)
                if kind == 'g':
                    outs_a.append(a.get_samples())
                    ks.append(k)
                k += val
        except Exception as e:
            if st == 'ok':
                return cls('exception:' + type(e).__name__, case, k, 1), '%s %r: %r' % (kind, arg, e)
            if st == 'either':
                # the twin must not issue it either
                for o in tw['ops']:
                    if isinstance(o[1], dict) and o[1].get('either') == val and o[0] == kind:
                        tw['ops'].remove(o)
                        break
    try:
        outs_b = [b.get_samples()] + run_plain(b, tw['ops'])
    except Exception as e:
        return None     # the canonical history itself fails: o_history reports it
    if len(outs_a) != len(outs_b):
        return cls('twin-request-count', case, k, 1), '%d outputs vs %d for the twin' % (len(outs_a), len(outs_b))
    for i, (x, y) in enumerate(zip(outs_a, outs_b)):
        n = y.shape[-1]
        if x.shape != y.shape or x.dtype != y.dtype:
            return cls('twin-shape', case, ks[i], max(n, 1)), \
                'request %d: %s %s vs twin %s %s' % (i, x.shape, x.dtype, y.shape, y.dtype)
        tol = case_tol(case, L, (ks[i] + n) * case['Ts']) * 2
        err = float(np.max(np.abs(x - y))) if x.size else 0.0
        STATS['oracle_twin'] = max(STATS.get('oracle_twin', 0.0), err / tol)
        if not err <= tol:
            return cls('twin-mismatch', case, ks[i], max(n, 1)), \
                'request %d (first sample %d, %d samples) differs from the canonical twin by %.3g (tol %.3g)' \
                % (i, ks[i], n, err, tol)
    return None


def o_lifecycle(case):
    """R7: after any history the generator is equivalent to a fresh one with the same phases that
    skipped to the same sample number; copies continue identically and independently; the similar
    generator is independent; a RandomState shared by two generators is only used by constructor
    and shape assignments"""
    import copy as _copy
    fg = _impl()
    L = int(case['L'])
    n = int(case['tail'])
    rec = RecordingRS(case['seed'])
    try:
        g = make_gen(case, rs=rec)
        k = 1
        shape = norm_shape(case['shape'])
        for kind, arg in case['ops']:
            if kind == 'S':
                g.shape = mk_shape(arg)
                shape = norm_shape(arg)
            elif kind == 's':
                g.skip_samples_for_next_generation(arg)
                k += arg
            else:
                g.generate_more_samples(arg)
                k += 1 if arg is None else arg
        reg = regime(k, n)
        before = observables(g)
        # similar generator: same configuration, independent state
        sim = g.get_similar_fading_generator()
        if (sim.shape != g.shape or sim.Fd != g.Fd or sim.Ts != g.Ts or sim.L != g.L):
            return 'similar-config-differs:' + reg, 'shape %r/%r' % (sim.shape, g.shape)
        sim.generate_more_samples(n)
        sim.skip_samples_for_next_generation(7)
        ref = ref_values(case['Fd'], case['Ts'], sim._phi_l, sim._psi_l, 1 + probe_indices(n))
        hs = sim.get_samples()
        if hs.shape[-1] != n or float(np.max(np.abs(hs[..., probe_indices(n)] - ref))) > tol_for(L, case['Fd'], (1 + n) * case['Ts']):
            return 'similar-not-fresh:' + reg, 'the similar generator does not start at sample 1'
        d = diff_observables(before, observables(g))
        if d:
            return 'similar-not-independent:' + reg, 'using the similar generator changed %s' % d
        # copies
        c, dd = _copy.copy(g), _copy.deepcopy(g)
        c.generate_more_samples(n)
        hc = c.get_samples().copy()
        d = diff_observables(before, observables(g))
        if d:
            return 'copy-not-independent:' + reg, 'using a copy changed %s of the original' % d
        dd.generate_more_samples(n)
        g.generate_more_samples(n)
        hg = g.get_samples()
        if not (np.array_equal(hc, hg) and np.array_equal(dd.get_samples(), hg)):
            return 'copy-diverges:' + reg, 'copy / deepcopy / original return different samples for the same request'
        # fresh generator with the same phases (replayed draws) that skipped to sample k
        fresh_case = dict(case, shape=None if shape is None else list(shape))
        f = make_gen(fresh_case, rs=ReplayRS(rec.draws[-2:]))
        if k > 1:
            f.skip_samples_for_next_generation(k - 1)
        f.generate_more_samples(n)
        hf = f.get_samples()
        tol = 2 * tol_for(L, case['Fd'], (k + n) * case['Ts'])
        if hf.shape != hg.shape or float(np.max(np.abs(hf - hg))) > tol:
            return 'differs-from-fresh:' + reg, ('after the history the generator returns %s, a fresh one with the same '
                                                 'phases skipped to sample %d returns something else' % (hg.shape, k))
        # shared RandomState
        outs = []
        for busy in (False, True):
            rs = np.random.RandomState(int(case['seed']))
            A = make_gen(case, rs=rs)
            if busy:
                for kind, arg in case['ops']:
                    if kind == 's':
                        A.skip_samples_for_next_generation(arg)
                    elif kind == 'g':
                        A.generate_more_samples(arg)
                A.get_samples()
            B = make_gen(case, rs=rs)
            B.generate_more_samples(n)
            B.shape = 2
            B.generate_more_samples(3)
            outs.append((B._phi_l.copy(), B.get_samples().copy()))
        if not (np.array_equal(outs[0][0], outs[1][0]) and np.array_equal(outs[0][1], outs[1][1])):
            return 'shared-rs-consumed:' + reg, 'requests on one generator changed what another generator sharing its RS draws'
    except Exception as e:
        return 'exception:%s:R7' % type(e).__name__, repr(e)[:300]
    return None


def o_ctor_setter(case):
    """R8: a generator configured through the constructor and one configured through the setter (built
    with another shape first), given the same phase draws, are the same generator: same shape attribute,
    same outputs for the same later requests; int n and the tuple (n,) are the same shape"""
    try:
        rec = RecordingRS(case['seed'])
        A = make_gen(case, rs=rec)
        junk = RecordingRS(int(case['seed']) + 7)
        B0 = make_gen(dict(case, shape=case['shape0']), rs=junk)
        B = make_gen(dict(case, shape=case['shape0']), rs=ReplayRS(junk.draws + rec.draws))
        B.shape = mk_shape(case['shape'])
        del B0
        k = 1
        reg = regime(1, 1)
        tag = 'shape0=%s,shape=%s' % (shape_tok(case['shape0']) if not isinstance(case['shape0'], dict) else case['shape0']['t'],
                                      shape_tok(case['shape']) if not isinstance(case['shape'], dict) else case['shape']['t'])
        if A.shape != B.shape:
            return 'ctor-vs-setter:shape-attribute:%s:%s' % (tag, reg), '%r vs %r' % (A.shape, B.shape)
        if not (np.array_equal(A._phi_l, B._phi_l) and np.array_equal(A._psi_l, B._psi_l)):
            return 'ctor-vs-setter:phases:%s:%s' % (tag, reg), 'same draws, different phases'
        for kind, arg in case['ops']:
            call_size_op(A, kind, arg)
            call_size_op(B, kind, arg)
            n = size_value(arg)[1]
            if kind == 'g' and not np.array_equal(A.get_samples(), B.get_samples()):
                return 'ctor-vs-setter:samples:%s:%s' % (tag, regime(k, max(n, 1))), \
                    'request of %d at sample %d differs between constructor path and setter path' % (n, k)
            k += n
    except Exception as e:
        return 'exception:%s:ctor-vs-setter' % type(e).__name__, repr(e)[:300]
    return None


def o_wrapper(case):
    """R8: entry points documented as the same model agree — the generator's next request and the free
    function generate_jakes_samples given the generator's parameters, phases and time (every argument
    must be forwarded / honoured: called positionally, by keyword, mixed); the function with its phases
    left out draws them from numpy's global generator with the requested shape; its defaults are the
    documented ones"""
    fg = _impl()
    Fd, Ts, L, n = case['Fd'], case['Ts'], int(case['L']), int(case['tail'])
    form = case.get('call')
    try:
        g = make_gen(case)
        k = 1
        shape = norm_shape(case['shape'])
        for kind, arg in case['ops']:
            if kind == 'S':
                g.shape = mk_shape(arg)
                shape = norm_shape(arg)
            else:
                call_size_op(g, kind, arg)
                k += size_value(arg)[1]
        reg = ('call=%s:' % form if form else '') + regime(k, n)
        g.generate_more_samples(n)
        hg = g.get_samples()
        ct = k * Ts
        if form == 'kw':
            nt, hf = fg.generate_jakes_samples(psi_l=g._psi_l, phi_l=g._phi_l, current_time=ct, shape=shape, L=L,
                                               NSamples=n, Ts=Ts, Fd=Fd)
        elif form == 'mixed':
            nt, hf = fg.generate_jakes_samples(Fd, Ts, n, current_time=ct, phi_l=g._phi_l, psi_l=g._psi_l, L=L,
                                               shape=shape)
        else:
            nt, hf = fg.generate_jakes_samples(Fd, Ts, n, L, shape, ct, g._phi_l, g._psi_l)
        tol = 2 * tol_for(L, Fd, (k + n) * Ts)
        if hf.shape != hg.shape or hf.dtype != hg.dtype:
            return 'wrapper-shape:' + reg, 'function %s %s vs generator %s %s' % (hf.shape, hf.dtype, hg.shape, hg.dtype)
        err = float(np.max(np.abs(hf - hg))) if hg.size else 0.0
        if not err <= tol:
            return 'wrapper-mismatch:' + reg, ('generate_jakes_samples at time %r differs from the generator at '
                                               'sample %d by %.3g (tol %.3g)' % (ct, k, err, tol))
        if not abs(nt - (k + n) * Ts) <= 1e-9 * (k + n) * Ts:
            return 'wrapper-next-time:' + reg, '%r vs %r' % (nt, (k + n) * Ts)
        # phases left out: drawn from numpy's global generator with shape (L, *shape, 1); shape is honoured
        seed = int(case['seed']) % (1 << 31)
        np.random.seed(seed)
        dims = (L, 1) if shape is None else (L,) + shape + (1,)
        phi, psi = np.random.rand(*dims), np.random.rand(*dims)
        np.random.seed(seed)
        if form == 'kw':
            nt, hd = fg.generate_jakes_samples(Fd=Fd, Ts=Ts, NSamples=n, L=L, shape=shape, current_time=ct)
        else:
            nt, hd = fg.generate_jakes_samples(Fd, Ts, n, L, shape, ct)
        exp_shape = (n,) if shape is None else shape + (n,)
        if hd.shape != exp_shape:
            return 'function-default-phases:shape:' + reg, '%s != %s' % (hd.shape, exp_shape)
        ref = ref_values(Fd, Ts, phi, psi, k + np.arange(n))
        if hd.size and float(np.max(np.abs(hd - ref))) > tol:
            return 'function-default-phases:value:' + reg, 'not the Jakes sum for the phases drawn'
        # documented defaults: Ts=1e-3, NSamples=100, L=8, shape=None, current_time=0
        np.random.seed(seed)
        nt1, h1 = fg.generate_jakes_samples(Fd)
        np.random.seed(seed)
        nt2, h2 = fg.generate_jakes_samples(Fd, 1e-3, 100, 8, None, 0, None, None)
        if h1.shape != (100,) or not np.array_equal(h1, h2) or nt1 != nt2:
            return 'function-defaults:' + reg, 'defaults are not Ts=1e-3, NSamples=100, L=8, shape=None, current_time=0'
    except Exception as e:
        return 'exception:%s:wrapper' % type(e).__name__, repr(e)[:300]
    return None


def o_derived(case):
    """R13: an object derived from a generator (copy, deepcopy, pickle round trip, similar generator) and
    its parent, both used and reconfigured afterwards in interleaved order, behave like two generators
    that were never related: the parent like a twin that ran pre + parent calls, the child like a twin
    that ran pre + child calls (similar generator: like a fresh generator of the parent's configuration at
    the time it was derived); a second round trip of the child gives back the child"""
    how = case['how']
    L = int(case['L'])

    def run(g, ops, outs):
        for kind, arg in ops:
            if kind == 'S':
                g.shape = mk_shape(arg)
            elif kind == 'Q':
                do_query(g, arg)
            else:
                call_size_op(g, kind, arg)
                if kind == 'g':
                    outs.append(g.get_samples())

    try:
        pre, par, chi = case['ops'], case['parent'], case['child']
        kpre = 1 + sum(size_value(o[1])[1] for o in pre if o[0] in 'gs')
        reg = 'how=%s%s:%s' % (how, ',default-RS' if case.get('ctor') == 'global-rs' else '', regime(kpre, 1))
        g = make_gen(case)
        run(g, pre, [])
        child = derive(g, how)
        shape_at_fork = g.shape
        outs_p, outs_c = [], []
        # interleave: parent call, child call, ...
        for i in range(max(len(par), len(chi))):
            if i < len(par):
                run(g, par[i:i + 1], outs_p)
            if i < len(chi):
                run(child, chi[i:i + 1], outs_c)
        tp = make_gen(case)
        exp_p = []
        run(tp, pre, [])
        run(tp, par, exp_p)
        if len(exp_p) != len(outs_p) or not all(np.array_equal(x, y) for x, y in zip(outs_p, exp_p)):
            return 'parent-changed-by-child:' + reg, 'the parent returns other samples than a generator that never had a child'
        if tp.shape != g.shape or not np.array_equal(tp._phi_l, g._phi_l):
            return 'parent-changed-by-child:' + reg, 'shape / phases of the parent differ from the unrelated twin'
        if how == 'similar':
            if child.shape != shape_at_fork or child.Fd != g.Fd or child.Ts != g.Ts or child.L != g.L:
                return 'child-config:' + reg, 'similar generator has shape %r, parent had %r' % (child.shape, shape_at_fork)
            return None
        tc = make_gen(case)
        exp_c = []
        run(tc, pre, [])
        run(tc, chi, exp_c)
        if len(exp_c) != len(outs_c) or not all(np.array_equal(x, y) for x, y in zip(outs_c, exp_c)):
            return 'child-changed-by-parent:' + reg, ('the %s returns other samples than a generator that ran the '
                                                      'same calls and was never derived' % how)
        if tc.shape != child.shape:
            return 'child-changed-by-parent:' + reg, 'shape %r vs %r' % (child.shape, tc.shape)
        # a further round trip of the child gives back the child (not the parent)
        again = derive(child, 'pickle')
        again.generate_more_samples(3)
        tc.generate_more_samples(3)
        if again.shape != tc.shape or not np.array_equal(again.get_samples(), tc.get_samples()):
            return 'child-round-trip:' + reg, 'pickle round trip of the child does not continue like the child'
    except Exception as e:
        return 'exception:%s:derived:how=%s%s' % (type(e).__name__, how, ',default-RS' if case.get('ctor') == 'global-rs' else ''), repr(e)[:300]
    return None


def o_chunking(case):
    """one request for the whole stretch vs an arbitrary chunking with skips
    (same phases): the chunked generator must return the same samples"""
    Fd, Ts, L = case['Fd'], case['Ts'], int(case['L'])
    k0, chunks = int(case['k0']), case['chunks']
    total = sum(size_value(c[1])[1] for c in chunks)
    nmin = max(1, min(size_value(c[1])[1] for c in chunks))
    tag = case_tag(case)
    reg = (tag + ':' if tag else '') + regime(k0, nmin)
    try:
        a = make_gen(case)
        b = make_gen(case)
        if not (np.array_equal(a._phi_l, b._phi_l) and np.array_equal(a._psi_l, b._psi_l)):
            return None     # phases are not reproducible from the seed: nothing to compare
        if k0:
            a.skip_samples_for_next_generation(k0)
            b.skip_samples_for_next_generation(k0)
        a.generate_more_samples(total)
        whole = a.get_samples()
        if whole.shape[-1] != total:
            return 'count:' + (tag + ':' if tag else '') + regime(k0, total), 'request of %d returned %s' % (total, whole.shape)
        tol = 2 * tol_for(L, Fd, (k0 + 1 + total) * Ts)
        pos = 0
        for kind, spec in chunks:
            n = size_value(spec)[1]
            if kind == 's':
                b.skip_samples_for_next_generation(mk_size(spec))
            else:
                b.generate_more_samples(mk_size(spec))
                part = b.get_samples()
                if part.shape != whole.shape[:-1] + (n,):
                    return 'count:' + reg, 'chunk of %d at offset %d returned %s' % (n, pos, part.shape)
                err = float(np.max(np.abs(part - whole[..., pos:pos + n])))
                STATS['oracle_chunk'] = max(STATS['oracle_chunk'], err / tol)
                STATS['chunk_compared'] += 1
                STATS['chunk_bit_exact'] += int(np.array_equal(part, whole[..., pos:pos + n]))
                if not err <= tol:
                    return 'chunk-mismatch:' + reg, ('chunk of %d at offset %d of a %d-sample stretch starting at '
                                                     'sample %d differs by %.3g (tol %.3g)'
                                                     % (n, pos, total, k0 + 1, err, tol))
            pos += n
    except Exception as e:
        return 'exception:%s:%s' % (type(e).__name__, reg), repr(e)[:300]
    return None


def o_zero_doppler(case):
    """Fd = 0: every sample of every request equals the constructor's sample"""
    assert case['Fd'] == 0
    try:
        g = make_gen(case)
        first = g.get_samples()[..., :1].copy()
        k = 1
        for kind, arg in case['ops']:
            if kind == 's':
                g.skip_samples_for_next_generation(int(arg))
                k += int(arg)
            elif kind == 'g':
                n = 1 if arg is None else int(arg)
                g.generate_more_samples(arg)
                h = g.get_samples()
                if h.shape[-1] != n:
                    return 'count:' + regime(k, n), 'request of %d returned %s' % (n, h.shape)
                dev = float(np.max(np.abs(h - first)))
                if not dev <= 1e-12:
                    return 'not-time-invariant:' + regime(k, n), 'sample deviates by %.3g at request of %d from sample %d' % (dev, n, k)
                k += n
    except Exception as e:
        return 'exception:%s:%s' % (type(e).__name__, regime(k, 1)), repr(e)[:300]
    return None


def o_magnitude(case):
    """|h| <= sqrt(L) on every returned sample"""
    L = int(case['L'])
    k = 0
    try:
        g = make_gen(case)
        bound = math.sqrt(L) * (1 + 1e-12)
        hs = [g.get_samples()]
        k = 1
        for kind, arg in case['ops']:
            if kind == 's':
                g.skip_samples_for_next_generation(int(arg))
                k += int(arg)
            elif kind == 'g':
                g.generate_more_samples(arg)
                hs.append(g.get_samples())
                k += 1 if arg is None else int(arg)
        m = max(float(np.max(np.abs(h))) for h in hs)
        if not m <= bound:
            return 'magnitude>sqrtL', 'max |h| = %.17g > sqrt(%d)' % (m, L)
    except Exception as e:
        return 'exception:%s:%s' % (type(e).__name__, regime(k, 1)), repr(e)[:300]
    return None


def vary_array(x, mode):
    """the same values in another dtype / memory layout / container (R1, R2)"""
    if mode in (None, 'C'):
        return x
    if mode == 'F':
        return np.asfortranarray(x)
    if mode == 'transposed':
        return np.ascontiguousarray(x.T).T
    if mode == 'strided':
        big = np.full((2 * x.shape[0],) + x.shape[1:], 123.0, dtype=x.dtype)
        big[::2] = x
        return big[::2]
    if mode == 'reversed':
        return np.ascontiguousarray(x[::-1])[::-1]
    if mode == 'readonly':
        y = x.copy()
        y.flags.writeable = False
        return y
    if mode == 'list':
        return x.tolist()
    if mode == 'float32':
        return x.astype(np.float32)
    if mode == 'int':
        return x.astype(np.int16)
    if mode == 'nested':        # a list whose rows are lists, tuples and arrays in turn
        rows = [x[i] for i in range(x.shape[0])]
        return [r.tolist() if i % 3 == 0 else tuple(r.tolist()) if i % 3 == 1 else r for i, r in enumerate(rows)]
    raise ValueError(mode)


def o_function(case):
    """the free function generate_jakes_samples: NSamples samples of the right shape and dtype, Jakes
    sum at current_time + j*Ts, next time advanced by NSamples*Ts; phi/psi passed in any layout /
    float32 / as lists and NSamples as any integer type give the same result, the inputs are not
    modified and the output does not alias them"""
    fg = _impl()
    Fd, Ts, L = case['Fd'], case['Ts'], int(case['L'])
    st, N = size_value(case['N'])
    mode = case.get('arr')
    shape = norm_shape(case['shape'])
    k0 = int(case['k0'])
    ct = k0 * Ts
    tag = ','.join(x for x in ['arr=' + mode + ('/' + case['arr_psi'] if case.get('arr_psi') else '') if mode else '',
                               'N=' + size_dtype(case['N']) if size_dtype(case['N']) else '',
                               'call=' + case['call'] if case.get('call') else ''] if x)
    reg = (tag + ':' if tag else '') + regime(k0, max(N, 1))
    rs = np.random.RandomState(int(case['seed']))
    dims = (L, 1) if shape is None else (L,) + shape + (1,)
    phi = TWO_PI * rs.rand(*dims)
    psi = TWO_PI * rs.rand(*dims)
    if mode == 'float32':       # the float32 values are the logical phases
        phi, psi = phi.astype(np.float32).astype(np.float64), psi.astype(np.float32).astype(np.float64)
    mode_psi = case.get('arr_psi', mode)
    if mode_psi == 'float32' and mode != 'float32':
        psi = psi.astype(np.float32).astype(np.float64)
    if mode == 'float32' and mode_psi != 'float32':
        psi = TWO_PI * np.random.RandomState(int(case['seed']) + 1).rand(*dims)
    if mode == 'int':           # integer-valued phases in an integer array next to a float array
        phi = np.floor(phi)
    if mode_psi == 'int':
        psi = np.floor(psi)
    phi_in, psi_in = vary_array(phi, mode), vary_array(psi, mode_psi)
    snap = (np.array(phi_in, copy=True), np.array(psi_in, copy=True))
    try:
        form = case.get('call')
        kw = {'Fd': Fd, 'Ts': Ts, 'NSamples': mk_size(case['N']), 'L': L, 'shape': shape, 'current_time': ct,
              'phi_l': phi_in, 'psi_l': psi_in}
        if form == 'kw':
            new_ct, h = fg.generate_jakes_samples(**{k: kw[k] for k in sorted(kw, reverse=True)})
        elif form == 'mixed':
            new_ct, h = fg.generate_jakes_samples(Fd, Ts, psi_l=psi_in, phi_l=phi_in, current_time=ct, shape=shape,
                                                  L=L, NSamples=kw['NSamples'])
        elif form == 'omit-defaults':
            dflt = {'Ts': 1e-3, 'NSamples': 100, 'L': 8, 'shape': None, 'current_time': 0}
            new_ct, h = fg.generate_jakes_samples(**{k: v for k, v in kw.items() if not (
                k in dflt and not isinstance(v, np.generic) and type(v) in (int, float, type(None))
                and v == dflt[k])})
        else:
            new_ct, h = fg.generate_jakes_samples(Fd, Ts, kw['NSamples'], L, shape, ct, phi_in, psi_in)
    except Exception as e:
        return 'exception:%s:%s' % (type(e).__name__, reg), repr(e)[:300]
    if not (np.array_equal(np.asarray(phi_in), snap[0]) and np.array_equal(np.asarray(psi_in), snap[1])):
        return 'input-modified:' + reg, 'phi_l / psi_l were changed by the call'
    if h.size and any(isinstance(x, np.ndarray) and np.shares_memory(h, x) for x in (phi_in, psi_in)):
        return 'output-aliases-input:' + reg, 'the returned samples share memory with phi_l / psi_l'
    exp_shape = (N,) if shape is None else shape + (N,)
    if h.shape[-1:] != (N,):
        return 'count:' + reg, 'NSamples=%d at time %r returned shape %s' % (N, ct, h.shape)
    if h.shape != exp_shape:
        return 'shape:' + reg, '%s != %s' % (h.shape, exp_shape)
    if h.dtype != np.complex128:
        return 'dtype:' + reg, 'samples have dtype %s' % h.dtype
    if not abs(new_ct - (k0 + N) * Ts) <= 1e-9 * max(1.0, (k0 + N)) * Ts:
        return 'next-time:' + reg, 'returned %r, expected %r' % (new_ct, (k0 + N) * Ts)
    js = probe_indices(N)
    ref = ref_values(Fd, Ts, phi, psi, k0 + js)
    # the function's time origin is the float ct = fl(k0*Ts): one more rounding of the time
    tol = 2 * tol_for(L, Fd, (k0 + N) * Ts)
    # (float32 / integer phases are exactly representable in binary64: no extra tolerance)
    err = float(np.max(np.abs(h[..., js] - ref))) if h.size else 0.0
    if not err <= tol:
        return 'value:' + reg, 'differs from the Jakes sum by %.3g (tol %.3g)' % (err, tol)
    return None


# ---- R15: distinct values that are merely close --------------------------------------------
LAST = {}       # side channel of the R15 oracles: how far apart (in units of the tolerance) the variants' processes are


def same_float(a, b):
    try:
        return float(a).hex() == float(b).hex()
    except Exception:
        return False


def pair_margin(refs, tols):
    """min over pairs of variants of the largest probed |difference| / (sum of their tolerances): the variants are
    told apart by the value check only if this is well above 1 (computed from the first-principles reference)"""
    m = float('inf')
    for i in range(len(refs)):
        for j in range(i + 1, len(refs)):
            d = max((float(np.max(np.abs(a - b))) / (ta + tb) if a.size else 0.0)
                    for (a, ta), (b, tb) in zip(zip(refs[i], tols[i]), zip(refs[j], tols[j])))
            m = min(m, d)
    return m


def o_close(case):
    """R15: generators whose Doppler frequency / sampling interval are DISTINCT but close (tiny magnitudes 1e-9..1e-15
    next to 0 and to each other, relative differences 1e-9..1e-5, adjacent doubles) live in one process, same phases,
    same request history issued interleaved or one after the other: every one returns the Jakes sum for ITS OWN exact
    parameters, stores and forwards (similar generator, copy) exactly the value it was given"""
    L = int(case['L'])
    vs = case['variants']
    tag = 'kind=' + case['kind']
    LAST.pop('margin', None)
    try:
        gens = [make_gen(dict(case, Fd=v['Fd'], Ts=v['Ts'])) for v in vs]
        for g, v in zip(gens, vs):
            sim = g.get_similar_fading_generator()
            for name in ('Fd', 'Ts'):
                if not same_float(getattr(g, name), v[name]):
                    return 'close-values:parameter-not-exact:' + tag, '%s=%r reads back as %r' % (name, v[name], getattr(g, name))
                if not same_float(getattr(sim, name), v[name]):
                    return 'close-values:similar-parameter-not-exact:' + tag, \
                        'similar generator has %s=%r for %r' % (name, getattr(sim, name), v[name])
        if not all(np.array_equal(g._phi_l, gens[0]._phi_l) and np.array_equal(g._psi_l, gens[0]._psi_l) for g in gens):
            return None     # phases not reproducible from the seed: nothing to compare (o_history covers each variant)
        ks = [1] * len(vs)
        refs = [[] for _ in vs]
        tols = [[] for _ in vs]
        if case.get('order') == 'sequential':
            plan = [(i, op) for i in range(len(vs)) for op in case['ops']]
        else:
            plan = [(i, op) for op in case['ops'] for i in range(len(vs))]
        for i, (kind, arg) in plan:
            g, v, k = gens[i], vs[i], ks[i]
            n = 1 if arg is None else int(arg)
            if kind == 's':
                g.skip_samples_for_next_generation(arg)
                ks[i] += n
                continue
            g.generate_more_samples(arg)
            h = g.get_samples()
            if h.shape[-1:] != (n,):
                return 'close-values:count:%s:%s' % (tag, regime(k, n)), \
                    'variant %d (Fd=%r, Ts=%r): request of %d at sample %d returned %s' % (i, v['Fd'], v['Ts'], n, k, h.shape)
            js = probe_indices(n)
            ref = ref_values(v['Fd'], v['Ts'], g._phi_l, g._psi_l, k + js)
            tol = tol_for(L, v['Fd'], (k + n) * v['Ts'])
            refs[i].append(ref)
            tols[i].append(tol)
            err = float(np.max(np.abs(h[..., js] - ref))) if h.size else 0.0
            if not err <= tol:
                return 'close-values:value:%s:%s' % (tag, regime(k, n)), \
                    ('variant %d of %d (Fd=%r, Ts=%r): request of %d at sample %d differs from the Jakes sum for these '
                     'parameters by %.3g (tolerance %.3g)' % (i, len(vs), v['Fd'], v['Ts'], n, k, err, tol))
            ks[i] += n
        LAST['margin'] = pair_margin(refs, tols)
    except Exception as e:
        return 'exception:%s:close-values:%s' % (type(e).__name__, tag), repr(e)[:300]
    return None


def function_phases(case, call):
    """phases of one call of the R15 / R16 function oracles: base draw of the case + this call's perturbation"""
    L = int(case['L'])
    shape = norm_shape(case['shape'])
    dims = (L, 1) if shape is None else (L,) + shape + (1,)
    rs = np.random.RandomState(int(case['seed']))
    phi0, psi0 = TWO_PI * rs.rand(*dims), TWO_PI * rs.rand(*dims)
    u, u2 = 0.5 + 0.5 * rs.rand(*dims), 0.5 + 0.5 * rs.rand(*dims)
    phi = phi0 + float(call.get('dphi', 0.0)) * u
    psi = (psi0 if call.get('psi_scale') is None else float(call['psi_scale']) * u2) + float(call.get('dpsi', 0.0)) * u2
    return phi, psi


def o_function_close(case):
    """R15 for generate_jakes_samples: consecutive calls whose Fd / Ts / current_time / phi_l / psi_l are distinct
    but close (fresh array objects with close contents; phases of size 1e-9..1e-15 next to zeros): every call
    returns the Jakes sum for exactly the values it was given"""
    fg = _impl()
    L = int(case['L'])
    shape = norm_shape(case['shape'])
    tag = 'kind=' + case['kind']
    LAST.pop('margin', None)
    refs, tols = [], []
    try:
        for i, c in enumerate(case['calls']):
            phi, psi = function_phases(case, c)
            N, k0 = int(c['N']), int(c['k0'])
            ct = k0 * c['Ts']
            snap = (phi.copy(), psi.copy())
            nt, h = fg.generate_jakes_samples(c['Fd'], c['Ts'], N, L, shape, ct, phi, psi)
            if not (np.array_equal(phi, snap[0]) and np.array_equal(psi, snap[1])):
                return 'close-values:input-modified:' + tag, 'call %d changed phi_l / psi_l' % i
            exp_shape = (N,) if shape is None else shape + (N,)
            if h.shape != exp_shape:
                return 'close-values:shape:' + tag, 'call %d returned %s, expected %s' % (i, h.shape, exp_shape)
            js = probe_indices(N)
            ref = ref_values(c['Fd'], c['Ts'], phi, psi, k0 + js)
            tol = 2 * tol_for(L, c['Fd'], (k0 + N) * c['Ts'])
            refs.append([ref])
            tols.append([tol])
            err = float(np.max(np.abs(h[..., js] - ref))) if h.size else 0.0
            if not err <= tol:
                return 'close-values:value:%s:%s' % (tag, regime(k0, max(N, 1))), \
                    ('call %d of %d (Fd=%r, Ts=%r, current_time=%r, dphi=%r, dpsi=%r): differs from the Jakes sum for '
                     'these values by %.3g (tolerance %.3g)' % (i, len(case['calls']), c['Fd'], c['Ts'], ct,
                                                              c.get('dphi', 0), c.get('dpsi', 0), err, tol))
            if not abs(nt - (k0 + N) * c['Ts']) <= 1e-9 * max(1.0, (k0 + N)) * c['Ts']:
                return 'close-values:next-time:' + tag, 'call %d returned %r, expected %r' % (i, nt, (k0 + N) * c['Ts'])
        if len({(c['N']) for c in case['calls']}) == 1:
            LAST['margin'] = pair_margin(refs, tols)
    except Exception as e:
        return 'exception:%s:close-values:%s' % (type(e).__name__, tag), repr(e)[:300]
    return None


# ---- R16: argument identity and buffer reuse ------------------------------------------------
def o_function_reuse(case):
    """R16 for generate_jakes_samples: the caller keeps ONE preallocated phi array and ONE psi array (and one shape
    list, one 0-d NSamples array), refills them in place before each of 2..4 calls, overwrites them right after
    each call, sometimes passes the SAME array for phi_l and psi_l, sometimes an equal-content fresh copy: each
    result is the Jakes sum of the contents at call time, equals what a later call with fresh copies of those
    contents returns, and is not changed by the later refills; the buffers are never modified by the call"""
    fg = _impl()
    Fd, Ts, L = case['Fd'], case['Ts'], int(case['L'])
    base = list(norm_shape(case['shape']) or [])
    none_shape = case['shape'] is None
    wide = bool(case.get('wide'))
    roles = 'shared' if any(c.get('same') for c in case['calls']) else 'separate'
    tag = 'roles=%s%s' % (roles, ',wide-phases' if wide else '')
    reset_buffers()
    rs = np.random.RandomState(int(case['seed']))
    phi_buf = psi_buf = None
    shape_list = []
    n_buf = np.zeros((), dtype=case.get('N_buf') or 'int64')
    kept = []
    try:
        for i, c in enumerate(case['calls']):
            shp = None if none_shape else tuple(base[j] for j in c.get('perm', range(len(base))))
            dims = (L, 1) if shp is None else (L,) + shp + (1,)
            draw = (lambda: (rs.rand(*dims) - 0.5) * 8 * TWO_PI) if wide else (lambda: TWO_PI * rs.rand(*dims))
            phi = draw()
            psi = phi.copy() if c.get('same') else draw()
            if phi_buf is None:
                phi_buf, psi_buf = np.empty(dims), np.empty(dims)
            phi_buf.shape = dims            # the same object, reshaped and refilled in place
            psi_buf.shape = dims
            phi_buf[...] = phi
            psi_buf[...] = psi
            if c.get('fresh'):              # equal content, different object
                a_phi, a_psi = phi.copy(), (None if c.get('same') else psi.copy())
            else:
                a_phi, a_psi = phi_buf, (None if c.get('same') else psi_buf)
            if a_psi is None:
                a_psi = a_phi               # ONE object in two roles
            N, k0 = int(c['N']), int(c['k0'])
            ct = k0 * Ts
            if case.get('N_buf'):
                n_buf[...] = N
                a_N = n_buf
            else:
                a_N = N
            if shp is not None and case.get('shape_buf'):
                shape_list[:] = list(shp)
                a_shape = shape_list
            else:
                a_shape = shp
            nt, h = fg.generate_jakes_samples(Fd, Ts, a_N, L, a_shape, ct, a_phi, a_psi)
            if not (np.array_equal(a_phi, phi) and np.array_equal(a_psi, psi)):
                return 'buffer-reuse:input-modified:' + tag, 'call %d changed the caller\'s phi_l / psi_l' % i
            if a_shape is shape_list and shape_list != list(shp) or (a_N is n_buf and int(n_buf) != N):
                return 'buffer-reuse:input-modified:' + tag, 'call %d changed the caller\'s shape list / NSamples array' % i
            exp_shape = (N,) if shp is None else shp + (N,)
            if not isinstance(h, np.ndarray) or h.shape != exp_shape:
                return 'buffer-reuse:shape:' + tag, 'call %d returned %s, expected %s' % (i, getattr(h, 'shape', None), exp_shape)
            if h.size and any(np.shares_memory(h, x) for x in (phi_buf, psi_buf, a_phi, a_psi)):
                return 'buffer-reuse:output-aliases-input:' + tag, 'call %d returned memory of its arguments' % i
            kept.append({'h': h, 'copy': h.copy(), 'phi': phi, 'psi': psi, 'N': N, 'k0': k0, 'shape': shp, 'nt': nt})
            # the caller overwrites everything it passed right after the call
            phi_buf[...] = -1.25
            psi_buf[...] = 0.5
            n_buf[...] = SCRIBBLE
            shape_list[:] = [9, 9, 9]
            if c.get('fresh'):
                a_phi[...] = 3.0
                a_psi[...] = 4.0
            for j, kp in enumerate(kept):
                if not np.array_equal(kp['h'], kp['copy']):
                    return 'buffer-reuse:earlier-result-changed:' + tag, \
                        'the result of call %d changed when the buffers were refilled / call %d was made' % (j, i)
        for i, kp in enumerate(kept):
            js = probe_indices(kp['N'])
            ref = ref_values(Fd, Ts, kp['phi'], kp['psi'], kp['k0'] + js)
            # phases beyond one turn: the rounding of the phase grows with |psi|, |cos| <= 1
            tol = 2 * tol_for(L, Fd, (kp['k0'] + kp['N']) * Ts) + \
                (math.sqrt(L) * EPS48 * float(np.max(np.abs(kp['psi']))) if wide else 0.0)
            err = float(np.max(np.abs(kp['h'][..., js] - ref))) if kp['h'].size else 0.0
            if not err <= tol:
                return 'buffer-reuse:value:%s:call=%s' % (tag, 'first' if i == 0 else 'later'), \
                    ('call %d of %d (buffers refilled in place%s): the result is not the Jakes sum of the contents at '
                     'call time (off by %.3g, tolerance %.3g)' % (i, len(kept), ', phi_l is psi_l' if case['calls'][i].get('same') else '', err, tol))
            nt2, h2 = fg.generate_jakes_samples(Fd, Ts, kp['N'], L, kp['shape'], kp['k0'] * Ts, kp['phi'].copy(), kp['psi'].copy())
            same = h2.shape == kp['h'].shape
            d = (float(np.max(np.abs(h2 - kp['h']))) if h2.size else 0.0) if same else float('nan')
            STATS['reuse_compared'] = STATS.get('reuse_compared', 0) + 1
            STATS['reuse_bit_exact'] = STATS.get('reuse_bit_exact', 0) + int(same and np.array_equal(h2, kp['h']))
            # (the same computation on another array object: bit-identical in practice, required only within the
            # stated tolerance so that memory alignment can never raise a false alarm)
            if not same or not d <= tol or nt2 != kp['nt']:
                return 'buffer-reuse:differs-from-fresh-call:%s:call=%s' % (tag, 'first' if i == 0 else 'later'), \
                    'call %d: a call with fresh copies of the same contents returns something else (max difference %.3g)' % (i, d)
    except Exception as e:
        return 'exception:%s:buffer-reuse:%s' % (type(e).__name__, tag), repr(e)[:300]
    return None


def o_rs_reuse(case):
    """R16 for the RS argument: ONE RandomState object is re-seeded in place (`rs.seed(s)`) and handed to several
    constructors / used by later shape assignments: every generator's phases are the draws of the state the object
    had when they were drawn (a fresh RandomState(s) gives the same), generators built earlier keep theirs"""
    fg = _impl()
    L = int(case['L'])
    tag = 'n=%d' % len(case['steps'])

    def expect(seed, shape):
        r = np.random.RandomState(int(seed))
        dims = (L, 1) if shape is None else (L,) + tuple(shape) + (1,)
        return r.rand(*dims), r.rand(*dims)

    try:
        rs = np.random.RandomState(0)
        live = []
        for i, st in enumerate(case['steps']):
            rs.seed(int(st['seed']))                     # the same object, new contents
            shape = norm_shape(st['shape'])
            if st['how'] == 'ctor' or not live:
                g = fg.JakesSampleGenerator(case['Fd'], case['Ts'], L, mk_shape(st['shape']), rs)
                live.append({'g': g})
            else:
                g = live[st['who'] % len(live)]['g']
                g.shape = mk_shape(st['shape'])
            rec = [x for x in live if x['g'] is g][0]
            u_phi, u_psi = expect(st['seed'], shape)
            rec.update({'phi': g._phi_l.copy(), 'psi': g._psi_l.copy(), 'shape': shape})
            for got, u, nm in ((g._phi_l, u_phi, 'phi'), (g._psi_l, u_psi, 'psi')):
                if got.shape != u.shape or not np.allclose(got, TWO_PI * u, rtol=1e-14, atol=0.0):
                    return 'rs-reuse:stale-draws:' + tag, \
                        'step %d (%s, RS re-seeded in place with %d): %s is not 2*pi * the draws of that state' % (i, st['how'], st['seed'], nm)
            for x in live:
                if not (np.array_equal(x['g']._phi_l, x['phi']) and np.array_equal(x['g']._psi_l, x['psi'])):
                    return 'rs-reuse:other-generator-changed:' + tag, 'step %d changed the phases of a generator built earlier' % i
            n = int(st.get('n', 3))
            k = g._sample_index if hasattr(g, '_sample_index') else None
            g.generate_more_samples(n)
            h = g.get_samples()
            exp_shape = (n,) if shape is None else shape + (n,)
            if h.shape != exp_shape:
                return 'rs-reuse:shape:' + tag, 'step %d: %s, expected %s' % (i, h.shape, exp_shape)
            rec['count'] = rec.get('count', 1) + n
            kk = rec['count'] - n
            ref = ref_values(case['Fd'], case['Ts'], g._phi_l, g._psi_l, kk + np.arange(n))
            if h.size and float(np.max(np.abs(h - ref))) > tol_for(L, case['Fd'], (kk + n) * case['Ts']):
                return 'rs-reuse:value:' + tag, 'step %d: not the Jakes sum for the generator\'s phases at sample %d' % (i, kk)
    except Exception as e:
        return 'exception:%s:rs-reuse:%s' % (type(e).__name__, tag), repr(e)[:300]
    return None


ORACLES = {
    'generate_more_samples': o_history,
    'generate_more_samples.twin': o_twin,
    'generate_more_samples.lifecycle': o_lifecycle,
    'JakesSampleGenerator.ctor_vs_setter': o_ctor_setter,
    'generate_jakes_samples.vs_generator': o_wrapper,
    'generate_more_samples.derived': o_derived,
    'generate_more_samples.chunking': o_chunking,
    'generate_more_samples.zero_doppler': o_zero_doppler,
    'generate_more_samples.magnitude': o_magnitude,
    'generate_jakes_samples': o_function,
    'generate_more_samples.close_values': o_close,
    'generate_jakes_samples.close_values': o_function_close,
    'generate_jakes_samples.buffer_reuse': o_function_reuse,
    'JakesSampleGenerator.rs_reuse': o_rs_reuse,
}


def run_oracle(ctx, call, case, key=None, nontrivial=True):
    ctx.count((call, key if key is not None else repr(case)), nontrivial)
    reset_buffers()
    try:
        r = ORACLES[call](case)
    except MemoryError:
        raise core.Infra('out of memory in oracle ' + call)
    except Exception as e:
        # an exception that escapes an oracle was raised (directly or through what the library handed back)
        # on an input the property covers: a failing input, never an infrastructure error
        import traceback
        r = ('exception:%s:escaped' % type(e).__name__, traceback.format_exc()[-600:])
    if r is not None:
        ctx.fail(call, r[0], case, r[1])
        ctx.branch('oracle-fail:' + call)
    else:
        ctx.branch('oracle-ok:' + call)
    return r


def replay(ctx, rep):
    reset_buffers()
    try:
        return ORACLES[rep['call']](rep['case']) is not None
    except Exception:
        return True


# ------------------------------------------------------------------ generators
BUDGET = 1 << 21       # max L * entries * n of one request (memory of the real code: 16 B each)


def gen_config(rng, zero_fd=False):
    r = rng.uniform()
    if zero_fd:
        Fd = 0
    elif r < 0.08:
        Fd = 0
    elif r < 0.5:
        Fd = round(rng.uniform(0.5, 300.0), 3)
    else:
        Fd = float(10.0 ** rng.uniform(-2.0, 3.0))
    r = rng.uniform()
    if r < 0.25:
        Ts = rng.choice([1e-3, 1.0, 2.0 ** -10, 1e-9, 5e-4, 1e-6, 0.1])
    else:
        Ts = float(10.0 ** rng.uniform(-9.0, 0.0))
    L = rng.choice([1, 2, 3, 4, 8, 8, 16, rng.randint(1, 20)])
    r = rng.uniform()
    if r < 0.3:
        shape = None
    elif r < 0.55:
        shape = rng.randint(1, 4)
    else:
        shape = [rng.randint(1, 3) for _ in range(rng.randint(0, 3))]
    return {'Fd': Fd, 'Ts': Ts, 'L': L, 'shape': shape, 'seed': rng.below(1 << 31)}


def gen_shape(rng):
    r = rng.uniform()
    if r < 0.3:
        return None
    if r < 0.6:
        return rng.randint(1, 4)
    return [rng.randint(1, 3) for _ in range(rng.randint(0, 3))]


def gen_size(rng, cap):
    r = rng.uniform()
    if r < 0.12:
        return None
    if r < 0.35:
        return 1
    if r < 0.7:
        return rng.randint(2, min(64, cap))
    if r < 0.9:
        return rng.randint(1, min(4096, cap))
    return rng.randint(1, min(100000, cap))


def gen_skip(rng):
    r = rng.uniform()
    if r < 0.4:
        return rng.randint(1, 100000)
    if r < 0.7:
        e = rng.randint(17, 33)
        return (1 << e) + rng.randint(-3, 3)
    return int(10.0 ** rng.uniform(0.0, 9.9))


def gen_ops(rng, cfg, n_ops, with_shape=True, max_pos=10 ** 10):
    ops = []
    pos = 1
    shape = cfg['shape']
    for _ in range(n_ops):
        r = rng.uniform()
        if with_shape and r < 0.08:
            shape = gen_shape(rng)
            ops.append(['S', shape])
            continue
        if r < 0.35:
            n = gen_skip(rng)
            if pos + n > max_pos:
                n = rng.randint(1, 1000)
            ops.append(['s', n])
            pos += n
            continue
        cap = max(1, BUDGET // (cfg['L'] * entry_count(shape)))
        n = gen_size(rng, cap)
        ops.append(['g', n])
        pos += 1 if n is None else n
    if not any(o[0] == 'g' for o in ops):
        ops.append(['g', rng.randint(1, 8)])
    return ops


def gen_history(rng, n_ops=None, **kw):
    cfg = gen_config(rng, **kw)
    cfg['ops'] = gen_ops(rng, cfg, n_ops or rng.randint(1, 12))
    return cfg


def long_run_cases(rng, exps, offsets, sizes, tss):
    """positions 2^e + d (reached by one skip) where the binary64 spacing of the
    time changes, followed by small requests"""
    out = []
    for e in exps:
        for d in offsets:
            for n in sizes:
                Ts = rng.choice(tss)
                pos = (1 << e) + d
                if pos < 1 or pos + 3 * n + 2 > 10 ** 10:
                    continue
                out.append({'Fd': rng.choice([0.5, 5, 37.25, 100]), 'Ts': Ts, 'L': rng.choice([1, 4, 8]),
                            'shape': rng.choice([None, 2, [2, 1]]), 'seed': rng.below(1 << 31),
                            'ops': [['s', pos], ['g', n], ['g', None], ['g', n]]})
    return out


def small_scope_histories(max_len):
    """every history of at most max_len requests over a small alphabet, from each kind of shape"""
    import itertools
    alphabet = [['g', None], ['g', 1], ['g', 2], ['g', 5], ['s', 1], ['s', 3], ['S', None], ['S', 2], ['S', [2, 1]]]
    out = []
    for shape in (None, 3, [1, 2]):
        for ln in range(1, max_len + 1):
            for ops in itertools.product(alphabet, repeat=ln):
                out.append({'Fd': 7.5, 'Ts': 1e-3, 'L': 2, 'shape': shape, 'seed': 12345 + ln,
                            'ops': [list(o) for o in ops]})
    return out


def tiny_request_history(rng, n_req, start=None):
    """the usual way a generator is used: very many requests of one or a few samples
    (after an optional skip), so that rounding of a stepped time would accumulate"""
    cfg = {'Fd': rng.choice([5, 100, 37.25]), 'Ts': rng.choice([1e-3, 0.37e-4, 1e-6, 0.1]),
           'L': rng.choice([2, 4, 8]), 'shape': rng.choice([None, 2]), 'seed': rng.below(1 << 31)}
    ops = []
    if start is None:
        start = rng.choice([0, (1 << rng.randint(18, 30)) + rng.randint(-2, 2)])
    if start:
        ops.append(['s', start])
    for _ in range(n_req):
        r = rng.uniform()
        ops.append(['g', None] if r < 0.5 else ['g', 1] if r < 0.8 else ['g', rng.randint(2, 4)] if r < 0.95
                   else ['s', rng.randint(1, 3)])
    cfg['ops'] = ops
    return cfg


# ---- robustness case families (R1 .. R7) ----
def small_cfg(rng, **kw):
    cfg = {'Fd': rng.choice([5, 37.25, 100, 0.5]), 'Ts': rng.choice([1e-3, 0.37e-4, 1e-6, 0.1]),
           'L': rng.choice([1, 2, 4]), 'shape': rng.choice([None, 2, [2, 1]]), 'seed': rng.below(1 << 31)}
    cfg.update(kw)
    return cfg


def typed_range_cases(rng):
    """R1: request and skip sizes carried by every numpy integer type, with the cumulative position
    crossing the range of the type, followed by Python-int requests"""
    out = []
    plan = {'int8': (100, 100, 50), 'uint8': (200, 100, 30), 'int16': (30000, 30000, 9000),
            'uint16': (40000, 40000, 20000)}
    for dt, sizes in plan.items():
        for kinds in ('gg', 'sg', 'gs', 'ss'):
            ops = [[kd, {'t': dt, 'v': v}] for kd, v in zip(kinds, sizes)]
            ops += [['g', 5], ['g', None], ['g', {'t': dt, 'v': sizes[2]}], ['s', {'t': dt, 'v': sizes[2]}], ['g', 3]]
            out.append(small_cfg(rng, ops=ops))
    for dt, edge in (('int32', 1 << 31), ('uint32', 1 << 32)):
        for kinds in ('sg', 'ss'):
            ops = [['s', {'t': dt, 'v': edge - 12 - rng.randint(0, 5)}], [kinds[1], {'t': dt, 'v': 20}], ['g', 4],
                   ['s', {'t': dt, 'v': 7}], ['g', {'t': dt, 'v': 3}], ['g', None]]
            out.append(small_cfg(rng, ops=ops))
    for dt in ('int64', 'uint64', 'arr0:int32', 'arr0:int64', 'arr0:uint8', 'arr0:uint16', 'bool'):
        v = 1 if dt == 'bool' else 200 if dt == 'arr0:uint8' else rng.randint(2, 3000)
        ops = [['g', {'t': dt, 'v': v}], ['s', {'t': dt, 'v': v}], ['g', {'t': dt, 'v': v}], ['g', 2]]
        if dt == 'arr0:uint16':
            ops = [['s', {'t': dt, 'v': 40000}], ['g', {'t': dt, 'v': 30000}], ['g', 2]]
        out.append(small_cfg(rng, ops=ops))
    return out


def typed_shape_cases(rng):
    """R1/R3: every way of passing a shape (numpy integer scalars, lists the caller keeps using, tuples of
    numpy integers, integer arrays), to the constructor and to the setter, repeated and in changing order"""
    specs = [{'t': 'np:int64', 'v': 3}, {'t': 'np:uint8', 'v': 2}, {'t': 'list', 'v': [2, 3]}, {'t': 'list', 'v': [1]},
             {'t': 'nptuple:int8', 'v': [2, 1]}, {'t': 'nptuple:uint16', 'v': [3]}, {'t': 'arr:int32', 'v': [2, 2]},
             {'t': 'arr:int64', 'v': [1, 2, 1]}, {'t': 'list', 'v': []}, {'t': 'list', 'v': [2, 0]}]
    out = []
    for i, sp in enumerate(specs):
        other = specs[(i + 3) % len(specs)]
        out.append(small_cfg(rng, shape=sp, ops=[['g', 2], ['S', other], ['g', 3], ['S', sp], ['S', sp], ['g', None],
                                                 ['S', None], ['g', 2], ['S', other], ['g', 1]]))
    return out


def has_caller_list(case):
    return any(isinstance(sp, dict) and sp['t'] in ('list', 'mixedlist', 'buf:list')
               for sp in [case.get('shape')] + [o[1] for o in case.get('ops', []) if o[0] == 'S'])


def typed_sizes(rng, case):
    """give the sizes / shapes of a plain history random integer types that can hold them"""
    ops = []
    for kind, arg in case['ops']:
        if kind in 'gs' and arg is not None and rng.chance(0.7):
            fits = [t for t in INT_TYPES if arg <= np.iinfo(t).max]
            t = rng.choice(fits + ['arr0:int64'])
            arg = {'t': t, 'v': arg}
        elif kind == 'S' and arg is not None and rng.chance(0.7):
            if isinstance(arg, int):
                arg = {'t': 'np:' + rng.choice(['int64', 'int8', 'uint16']), 'v': arg}
            else:
                arg = {'t': rng.choice(['list', 'nptuple:int8', 'nptuple:int64', 'arr:int32', 'arr:int64']), 'v': arg}
        ops.append([kind, arg])
    out = dict(case, ops=ops)
    if isinstance(case['shape'], list) and rng.chance(0.5):
        out['shape'] = {'t': rng.choice(['list', 'nptuple:uint8', 'arr:int64']), 'v': case['shape']}
    elif isinstance(case['shape'], int) and rng.chance(0.5):
        out['shape'] = {'t': 'np:int32', 'v': case['shape']}
    return out


BAD_SIZES = [-1, -3, {'t': 'int16', 'v': -2}, {'t': 'float', 'v': 2.5}, {'t': 'float', 'v': 5.0},
             {'t': 'float32', 'v': 3.0}, {'t': 'str'}, {'t': 'list', 'v': 3}, {'t': 'arr0:float64', 'v': 2.0},
             {'t': 'float64', 'v': 0.5}]
BAD_SHAPES = [{'t': 'neg', 'v': [2, -1]}, {'t': 'negint', 'v': -1}, {'t': 'str'}, {'t': 'float'}, {'t': 'tuplefloat'}]


def rejected_history(rng, case):
    """R4: ill-formed calls sprinkled into a history"""
    ops = []
    for op in case['ops']:
        if rng.chance(0.4):
            r = rng.uniform()
            ops.append(['g', rng.choice(BAD_SIZES)] if r < 0.4 else ['s', rng.choice(BAD_SIZES)] if r < 0.7
                       else ['S', rng.choice(BAD_SHAPES)])
        ops.append(op)
    ops.append([rng.choice('gs'), rng.choice(BAD_SIZES)])
    ops.append(['S', rng.choice(BAD_SHAPES)])
    ops.append(['g', rng.randint(1, 6)])
    return dict(case, ops=ops)


def boundary_cases(rng):
    """R5: zero-size requests, zero skips, default / single-sample requests, L = 1, Fd = 0 / 0.0 / -0.0,
    shapes with axes of length 0 and 1, request sizes and positions at powers of two +- 1"""
    out = []
    for Fd in (0, 0.0, -0.0, 5):
        for shape in (None, 1, [1, 1], [0], [2, 0], []):
            ops = [['g', 0], ['s', 0], ['g', 1], ['g', None], ['g', 0], ['s', 1], ['g', 2], ['S', shape], ['g', 0], ['g', 3]]
            out.append(small_cfg(rng, Fd=Fd, shape=shape, L=rng.choice([1, 1, 3]), ops=ops))
    for e in (1, 2, 5, 8, 10, 13):
        for d in (-1, 0, 1):
            n = (1 << e) + d
            if n >= 1:
                out.append(small_cfg(rng, L=1, ops=[['s', (1 << (e + 9)) + d], ['g', n], ['g', n], ['s', n], ['g', 1]]))
    for pos in ((1 << 31) - 3, (1 << 32) - 3, (1 << 33) - 3):
        out.append(small_cfg(rng, ops=[['s', pos], ['g', 1], ['g', 1], ['g', 4], ['g', 0], ['g', 1]]))
    return out


def scaled_case(rng, case):
    """R6: the whole time axis rescaled (Fd*10^e, Ts/10^e): the process in sample numbers is the same"""
    return dict(case, scale_exp10=rng.choice([-12, -9, -6, -3, 3, 6, 9, 12]))


def layout_case(rng, case):
    """R2: the random phases arrive non-contiguous / Fortran ordered / read-only"""
    return dict(case, seed={'layout': rng.choice(['F', 'transposed', 'strided', 'reversed', 'readonly']),
                            'seed': rng.below(1 << 31)})


def typed_params_case(rng, case):
    """R1: Fd / Ts / L given as Python ints, numpy floats of narrow width, numpy integers"""
    types = {}
    out = dict(case)
    r = rng.uniform()
    if r < 0.35:
        out['Fd'] = float(np.float32(case['Fd']))
        types['Fd'] = 'float32'
    elif r < 0.5:
        out['Fd'] = float(np.float16(min(case['Fd'], 1000.0)))
        types['Fd'] = 'float16'
    elif r < 0.8:
        out['Fd'] = int(round(case['Fd'])) or 1
        types['Fd'] = rng.choice(['int', 'int32', 'uint8' if out['Fd'] < 256 else 'int64'])
    r = rng.uniform()
    if r < 0.4:
        out['Ts'] = float(np.float32(case['Ts']))
        types['Ts'] = 'float32'
    elif r < 0.55 and case['Ts'] >= 1e-4:
        out['Ts'] = float(np.float16(case['Ts']))
        types['Ts'] = 'float16'
    elif r < 0.7 and case['Ts'] == 1.0:
        out['Ts'] = 1
        types['Ts'] = 'int'
    types['L'] = rng.choice(['int8', 'uint8', 'int32', 'int64', 'uint16'])
    out['types'] = types
    return out


def valid_int_history(rng, n_ops=None):
    cfg = gen_config(rng)
    cfg['ops'] = gen_ops(rng, cfg, n_ops or rng.randint(1, 8))
    return cfg


# ---- second robustness round (R8 .. R14) ----
EXTRA_INT = ('intp', 'uintp', 'longlong', 'ulonglong', 'short', 'ushort', 'intc', 'uintc', 'byte', 'ubyte')


def count_type_cases(rng):
    """R9: counts carried by the remaining numpy integer names (intp, longlong, short, intc, byte, ... and
    their unsigned twins), values above 256 wherever the type allows, positions crossing the type's range"""
    out = []
    for dt in EXTRA_INT:
        mx = int(np.iinfo(dt).max)
        if mx < 1000:
            sizes = (mx - 27, 100, 30)
        elif mx < 100000:
            sizes = (mx - 5000, 9000, 300)
        elif mx < (1 << 33):
            sizes = (mx - 12, 20, 300)
        else:
            sizes = (70000, 300, 257)
        ops = [['s', {'t': dt, 'v': sizes[0]}], ['g', {'t': dt, 'v': sizes[1]}], ['g', 5],
               ['g', {'form': 'kw', 'a': {'t': dt, 'v': sizes[2]}}], ['s', {'t': dt, 'v': sizes[2]}], ['g', None]]
        out.append(small_cfg(rng, L=rng.choice([1, 2]), shape=rng.choice([None, 2]), ops=ops))
    return out


def count_scale_cases(rng, quick):
    """R14: 257 / 258 / 300 rays, 257 / 300 / 2^16+1 entries, a 12-dimensional shape"""
    ops = [['g', 3], ['s', 300], ['g', None], ['g', 2]]
    out = [small_cfg(rng, L=257, shape=None, ops=ops), small_cfg(rng, L=1, shape=[258], ops=ops),
           small_cfg(rng, L=1, shape=[65537], ops=[['g', 2], ['s', 70000], ['g', None]]),
           small_cfg(rng, L=2, shape=[1] * 12, ops=ops)]
    if not quick:
        out += [small_cfg(rng, L=258, shape=2, ops=ops), small_cfg(rng, L=300, shape=[2, 1], ops=ops),
                small_cfg(rng, L=2, shape=[257], ops=ops), small_cfg(rng, L=3, shape=[300], ops=ops),
                small_cfg(rng, L=2, shape=[17, 257], ops=ops), small_cfg(rng, L=65537, shape=None, ops=[['g', 2], ['g', None]])]
    return out


def mixed_shape_cases(rng):
    """R10: shapes whose ELEMENTS differ in type (int, np.int8, np.uint64, np.intp, 0-d array, np.uint8, bool)"""
    out = []
    for v in ([2, 1, 3], [1, 1, 1], [3], [2, 2, 1, 2, 1, 2, 1]):
        for t in ('mixed', 'mixedlist'):
            sp = {'t': t, 'v': v}
            out.append(small_cfg(rng, L=2, shape=sp, ops=[['g', 2], ['S', 2], ['g', 1], ['S', sp], ['g', 3], ['S', sp], ['g', None]]))
    return out


def forms_case(rng, case):
    """R8: every call in a random documented argument form, constructor included"""
    ops = []
    for kind, arg in case['ops']:
        if kind == 'g' and arg is None and rng.chance(0.5):
            arg = rng.choice([{'form': 'none', 'a': None}, {'form': 'kw', 'a': None}, 1, {'form': 'kw', 'a': 1}])
            if isinstance(arg, dict) and arg['form'] == 'kw' and arg['a'] is None:
                arg = {'form': 'none', 'a': None}       # generate_more_samples(num_samples=None) is the explicit None
        elif kind in 'gs' and rng.chance(0.6):
            arg = {'form': 'kw', 'a': arg}
        ops.append([kind, arg])
    out = dict(case, ops=ops)
    form = rng.choice(['kw', 'kw-shuffled', 'mixed', 'omit-defaults', 'omit-defaults', 'global-rs'])
    if form == 'omit-defaults':
        for k in rng.choice([['Fd'], ['Ts'], ['L'], ['shape'], ['Fd', 'Ts', 'L', 'shape'], ['Ts', 'L'], ['Fd', 'shape']]):
            out[k] = DEFAULTS[k]
    if isinstance(out['seed'], dict):
        out['seed'] = rng.below(1 << 31)
    out['ctor'] = form
    return out


def query_case(rng, case):
    """R11: calls of the non-mutating API between the requests"""
    ops = []
    names = [q for q in QUERIES]
    for op in case['ops']:
        while rng.chance(0.45):
            ops.append(['Q', rng.choice(names)])
        ops.append(op)
    ops.append(['Q', rng.choice(names)])
    ops.append(['g', rng.randint(1, 4)])
    if case.get('ctor') == 'global-rs':     # building a similar generator draws from the shared global generator
        ops = [o for o in ops if not (o[0] == 'Q' and o[1] == 'similar')]
    out = dict(case, ops=ops)
    if isinstance(out['seed'], dict):
        out['seed'] = rng.below(1 << 31)
    return out


def all_queries_case(rng):
    ops = []
    for q in QUERIES:
        ops += [['Q', q], ['g', rng.choice([None, 2])]]
    ops += [['S', [2, 1]]] + [['Q', q] for q in QUERIES] + [['g', 3], ['s', 4], ['g', None]]
    return small_cfg(rng, Fd=37.25, Ts=0.37e-4, L=4, shape=2, ops=ops)


def light_ops(rng, n, with_shape):
    ops = []
    for _ in range(n):
        r = rng.uniform()
        if with_shape and r < 0.25:
            ops.append(['S', gen_shape(rng)])
        elif r < 0.45:
            ops.append(['s', rng.randint(0, 5000)])
        elif r < 0.55:
            ops.append(['Q', rng.choice(QUERIES)])
        else:
            ops.append(['g', rng.choice([None, rng.randint(1, 40)])])
    return ops


def derived_case(rng, how=None, default_rs=False):
    """R13: parent history, a derived object, then both are used and reconfigured; default_rs: the
    generator is built without an RS argument (numpy's global generator, which parent and child share,
    so no shape is assigned after the fork)"""
    how = how or rng.choice(['copy', 'deepcopy', 'pickle', 'similar'])
    cfg = gen_config(rng)
    if default_rs:
        cfg['ctor'] = 'global-rs'
        cfg['seed'] = rng.below(1 << 31)
        cfg['L'] = min(cfg['L'], 8)
        cfg['ops'] = light_ops(rng, rng.randint(0, 4), True)
        cfg.update({'how': how, 'parent': light_ops(rng, rng.randint(1, 4), False) + [['g', 2]],
                    'child': light_ops(rng, rng.randint(1, 4), False) + [['g', 3]]})
        for key in ('ops', 'parent', 'child'):      # no derived generators inside (they draw from the global RS too)
            cfg[key] = [o for o in cfg[key] if not (o[0] == 'Q' and o[1] == 'similar')]
        return cfg
    if isinstance(cfg['seed'], dict):
        cfg['seed'] = rng.below(1 << 31)
    cfg['L'] = min(cfg['L'], 8)
    cfg['ops'] = light_ops(rng, rng.randint(0, 5), True)
    sh = how != 'copy'
    cfg.update({'how': how, 'parent': light_ops(rng, rng.randint(1, 5), sh) + [['g', 2]],
                'child': light_ops(rng, rng.randint(1, 5), sh and how != 'similar') + [['g', 3]]})
    return cfg


def fork_case(rng, how, default_rs=False):
    """the same for the correspondence: a fork inside one history"""
    cfg = derived_case(rng, how, default_rs)
    pre = cfg.pop('ops')
    par = cfg.pop('parent')
    cfg['ops'] = pre + par
    cfg['fork'] = {'at': len(pre), 'how': how, 'child': cfg.pop('child')}
    cfg.pop('how')
    return cfg


def robustness2_cases(rng, n_each, quick):
    out = [('R9-count-types', c) for c in count_type_cases(rng)]
    out += [('R14-count-scale', c) for c in count_scale_cases(rng, quick)]
    out += [('R10-mixed-shape', c) for c in mixed_shape_cases(rng)]
    out.append(('R11-queries', all_queries_case(rng)))
    for _ in range(n_each):
        out.append(('R8-forms', forms_case(rng, valid_int_history(rng))))
        out.append(('R8-forms', forms_case(rng, typed_sizes(rng, valid_int_history(rng)))))
        out.append(('R11-queries', query_case(rng, valid_int_history(rng, rng.randint(1, 6)))))
        out.append(('R11-queries', query_case(rng, forms_case(rng, valid_int_history(rng, rng.randint(1, 5))))))
    return out


def robustness_cases(rng, n_each):
    """one list of (family, case) pairs covering R1, R2, R4, R5, R6 (R3 is checked on every history,
    R7 has its own oracle)"""
    out = [('R1-range', c) for c in typed_range_cases(rng)]
    out += [('R1-typed-shape', c) for c in typed_shape_cases(rng)]
    out += [('R5-boundary', c) for c in boundary_cases(rng)]
    for _ in range(n_each):
        out.append(('R1-typed-sizes', typed_sizes(rng, valid_int_history(rng))))
        out.append(('R1-typed-params', typed_params_case(rng, valid_int_history(rng))))
        out.append(('R2-layout', layout_case(rng, valid_int_history(rng))))
        out.append(('R4-rejected', rejected_history(rng, typed_sizes(rng, valid_int_history(rng, rng.randint(1, 6))))))
        out.append(('R6-scale', scaled_case(rng, valid_int_history(rng))))
    return out


# ---- third robustness round: R15 (close values), R16 (argument buffers) ----
def fits_types(vals):
    mx = max([0] + [abs(int(v)) for v in vals])
    return [t for t in ('int16', 'int32', 'uint32', 'int64', 'uint64', 'intp') if mx <= np.iinfo(t).max]


def to_buffers(rng, ops, dt, skind, p):
    out = []
    for kind, arg in ops:
        if kind in 'gs' and isinstance(arg, int) and rng.chance(p):
            arg = {'t': 'buf0:' + dt, 'v': arg}
            if rng.chance(0.25):
                arg = {'form': 'kw', 'a': arg}
        elif kind == 'S' and isinstance(arg, (int, list)):
            arg = {'t': skind, 'v': [arg] if isinstance(arg, int) else list(arg)}
        out.append([kind, arg])
    return out


def buffer_case(rng, case, p=0.8):
    """R16: the sizes of a plain history are carried by ONE 0-d array that the caller refills in place before each
    call (the same object for generate and skip), its shapes by ONE list / ONE integer array (constructor included);
    some calls keep a fresh Python int of equal content.  Cases with a fork (R13) or with parent / child histories:
    the derived object is served from the SAME buffers as its parent (one buffer, two generators)."""
    lists = [case['ops']] + [case[k] for k in ('parent', 'child') if k in case] + \
        ([case['fork']['child']] if case.get('fork') else [])
    sizes = [o[1] for ops in lists for o in ops if o[0] in 'gs' and isinstance(o[1], int)]
    dt = rng.choice([t for t in fits_types(sizes) if not (t.startswith('u') and any(v < 0 for v in sizes))])
    skind = rng.choice(['buf:list', 'buf:list', 'buf:arr:int64', 'buf:arr:int32'])
    out = dict(case, ops=to_buffers(rng, case['ops'], dt, skind, p))
    for k in ('parent', 'child'):
        if k in case:
            out[k] = to_buffers(rng, case[k], dt, skind, p)
    if case.get('fork'):
        out['fork'] = dict(case['fork'], child=to_buffers(rng, case['fork']['child'], dt, skind, p))
    if case['shape'] is not None and not isinstance(case['shape'], dict) and rng.chance(0.7):
        out['shape'] = {'t': skind, 'v': [case['shape']] if isinstance(case['shape'], int) else list(case['shape'])}
    return out


def buffer_scenarios(rng):
    """R16, deterministic part: one scenario per way a buffer can be reused"""
    B = lambda dt, v: {'t': 'buf0:' + dt, 'v': v}
    SL = lambda v: {'t': 'buf:list', 'v': v}
    SA = lambda v, dt='int64': {'t': 'buf:arr:' + dt, 'v': v}
    out = [
        # same content twice, new content, the same object for generate and skip, equal-content fresh objects
        small_cfg(rng, shape=None, ops=[['g', B('int64', 5)], ['g', B('int64', 5)], ['g', B('int64', 7)], ['s', B('int64', 7)],
                                        ['g', B('int64', 1)], ['g', None], ['g', B('int64', 0)], ['s', B('int64', 0)],
                                        ['g', 7], ['g', B('int64', 300)], ['s', 300], ['g', B('int64', 2)]]),
        small_cfg(rng, shape=2, ops=[['s', B('uint8', 200)], ['g', B('uint8', 100)], ['g', B('uint8', 3)], ['g', 3],
                                     ['s', B('uint8', 3)], ['g', {'form': 'kw', 'a': B('uint8', 4)}]]),
        # one shape list: constructor, then the setter again and again (also with unchanged content: a new draw)
        small_cfg(rng, shape=SL([2, 3]), ops=[['g', 2], ['S', SL([3, 2])], ['g', B('int32', 2)], ['S', SL([2, 3])], ['g', 1],
                                              ['S', SL([4])], ['S', SL([4])], ['g', B('int32', 3)], ['S', SL([])], ['g', 2],
                                              ['S', SL([1, 2, 1])], ['g', None]]),
        small_cfg(rng, shape=SA([2, 1]), ops=[['g', 2], ['S', SA([1, 2])], ['g', 2], ['S', SA([2, 1])], ['g', B('intp', 1)],
                                              ['S', SA([3], 'int32')], ['S', SA([2], 'int32')], ['g', 3]]),
        # buffers holding something the call must refuse; the next call with the refilled buffer is served
        small_cfg(rng, shape=SL([2]), ops=[['g', B('int64', -3)], ['g', B('int64', 4)], ['s', B('int64', -1)], ['s', B('int64', 6)],
                                           ['S', SL([2, -1])], ['g', 2], ['S', SL([2, 1])], ['g', B('float64', 2.0)],
                                           ['g', B('int64', 2)], ['S', SA([-1, 2])], ['S', SA([1, 2])], ['g', 1]]),
        # far into the process
        small_cfg(rng, L=1, shape=None, ops=[['s', B('int64', (1 << 33) + 1)], ['g', B('int64', 3)], ['s', B('int64', (1 << 31) - 2)],
                                             ['g', B('int64', 5)], ['g', B('int64', 5)], ['g', None]]),
        # two buffers of different type used alternately, non-mutating calls and a shape change in between
        small_cfg(rng, shape=[2, 1], ops=[['g', B('int32', 4)], ['g', B('uint16', 4)], ['Q', 'copy'], ['g', B('int32', 6)],
                                          ['s', B('uint16', 6)], ['Q', 'get_samples'], ['S', SL([1, 2])], ['g', B('uint16', 2)],
                                          ['g', B('int32', 2)]]),
    ]
    return out


def close_params(rng, what, base_fd, base_ts, deltas, L=None, n_var=None):
    """a set of close-but-distinct (Fd, Ts) and a history that ends where the closest pair is ~0.13 cycles of
    Doppler apart (margin computed from the deltas; verified from the reference by `pair_margin`)"""
    L = L or rng.choice([1, 2, 4, 8])
    if what == 'Fd':
        vs = [{'Fd': base_fd * (1.0 + d), 'Ts': base_ts} for d in deltas]
    else:
        vs = [{'Fd': base_fd, 'Ts': base_ts * (1.0 + d)} for d in deltas]
    ds = sorted(deltas)
    dmin = min(b - a for a, b in zip(ds, ds[1:]))
    cycles = 0.13 / dmin                        # Fd * t at the end of the history
    k = int(cycles / (base_fd * base_ts))
    return L, vs, k


def close_sets(rng, quick):
    """R15: sets of generator configurations that differ by less than what np.isclose / a rounded key / an absolute
    threshold tells apart"""
    out = []

    def hist(k_end, n1=None):
        n1 = n1 or rng.choice([1, 2, 5, 16])
        n2 = rng.choice([1, 3, 7])
        return [['s', max(1, k_end - n1 - n2 - 4)], ['g', n1], ['g', None], ['s', 2], ['g', n2]]

    def add(kind, L, vs, ops, **kw):
        out.append(dict({'kind': kind, 'L': L, 'shape': rng.choice([None, 2, [2, 1]]), 'seed': rng.below(1 << 31),
                         'variants': vs, 'ops': ops, 'order': rng.choice(['interleaved', 'sequential'])}, **kw))

    # Doppler frequencies of size 1e-9 .. 1e-15 (and exactly 0): "all zero" for an absolute threshold
    for Ts, kend in ((1.0, 10 ** 10 - 7), (0.5, 10 ** 10 - 1000), (1.0, 3 * 10 ** 9)):
        tiny = [0.0, 1e-15, 1e-12, 4e-12, 4e-13, 1e-9, 2.5e-10]
        rng.shuffle(tiny)
        add('Fd-tiny', rng.choice([1, 2, 4]), [{'Fd': f, 'Ts': Ts} for f in tiny[:4]], hist(kend))
        if quick:
            break
    # relative differences 1e-9 .. 1e-5 of a large / ordinary Doppler frequency and of the sampling interval
    plans = [('Fd', 2.4e9, 1e-9, [0.0, 2e4 / 2.4e9, -3e-6]), ('Fd', 100.0, 1e-3, [0.0, 1e-9, 8e-6, -1e-6]),
             ('Ts', 37.25, 1e-3, [0.0, 1e-6, -2e-6]), ('Ts', 1000.0, 1e-9, [0.0, 0.5, 1.5, 1e-6]),
             ('Ts', 250.0, 2.5e-9, [0.0, 1e-5, 1e-9]), ('Fd', 5.0e3, 1e-6, [0.0, 1e-12 * 4, 1e-9])]
    for what, fd, ts, deltas in (plans[:4] if quick else plans):
        L, vs, k = close_params(rng, what, fd, ts, deltas)
        if k > 9 * 10 ** 9:
            k = 9 * 10 ** 9
        add(what + ('-tiny' if ts < 1e-8 and what == 'Ts' else '-relative'), L, vs, hist(max(k, 30)))
    # adjacent doubles: the values cannot be told apart by the samples, but each is stored and forwarded exactly
    for fd, ts in ((0.3, 1e-3), (100.0, 0.1)):
        vs = [{'Fd': fd, 'Ts': ts}, {'Fd': float(np.nextafter(fd, 1e9)), 'Ts': ts}, {'Fd': fd, 'Ts': float(np.nextafter(ts, 1.0))}]
        add('adjacent-doubles', 2, vs, [['g', 3], ['s', 1000], ['g', 2]])
    return out


def close_histories(sets):
    """every variant of the R15 sets as an ordinary history (closed-form oracle, canonical twin, correspondence
    with the model run at exactly these values)"""
    out = []
    for cs in sets:
        for v in cs['variants']:
            c = {k: x for k, x in cs.items() if k not in ('variants', 'kind', 'order')}
            c.update({'Fd': v['Fd'], 'Ts': v['Ts'], 'r15': cs['kind']})
            out.append(c)
    # the smallest sampling interval of the property with the smallest requests: every elapsed time n*Ts and the
    # first k*Ts are below any absolute threshold; far into the process consecutive times differ by a relative 1e-10
    for Ts in (1e-9, 2.5e-9):
        out.append({'Fd': 1000.0, 'Ts': Ts, 'L': 2, 'shape': None, 'seed': 777, 'r15': 'Ts-tiny',
                    'ops': [['s', 1], ['g', 1], ['s', 3], ['g', 2], ['s', 0], ['g', None], ['s', 9], ['g', 1], ['s', 1], ['g', 1],
                            ['s', 10 ** 9], ['g', 1], ['g', 1], ['s', 1], ['g', 2], ['s', 2], ['g', 2]]})
    return out


def function_close_cases(rng, quick):
    """R15 for the free function: consecutive calls with close-but-distinct arguments"""
    out = []

    def add(kind, calls, L=None, shape='?'):
        out.append({'kind': kind, 'L': L or rng.choice([1, 2, 4, 8]), 'shape': rng.choice([None, [2], [2, 1]]) if shape == '?' else shape,
                    'seed': rng.below(1 << 31), 'calls': calls})

    N = rng.choice([1, 4, 9])
    # Fd: tiny values next to 0, relative differences
    add('Fd-tiny', [{'Fd': f, 'Ts': 1.0, 'k0': 10 ** 10 - 50, 'N': N} for f in (0.0, 1e-15, 4e-12, 4e-13, 1e-9)])
    L, vs, k = close_params(rng, 'Fd', 2.4e9, 1e-9, [0.0, 2e4 / 2.4e9, -3e-6])
    add('Fd-relative', [dict(v, k0=k, N=N) for v in vs], L)
    L, vs, k = close_params(rng, 'Ts', 100.0, 1e-3, [0.0, 1e-9, 8e-6])
    add('Ts-relative', [dict(v, k0=k, N=N) for v in vs], L)
    L, vs, k = close_params(rng, 'Ts', 1000.0, 1e-9, [0.0, 0.5, 1e-6])
    add('Ts-tiny', [dict(v, k0=k, N=N) for v in vs], L)
    # current_time: far into the process consecutive start times differ by a relative 1e-7 .. 1e-10; near the origin
    # with the smallest Ts all of them are below 1e-8
    k0 = (1 << 33) + rng.randint(0, 1000)
    add('current_time-relative', [{'Fd': 37.25, 'Ts': 1e-3, 'k0': k0 + d, 'N': N} for d in (0, 1, 2, N + 2, 1000)])
    add('current_time-tiny', [{'Fd': 4.0e7, 'Ts': 1e-9, 'k0': d, 'N': N} for d in (0, 1, 3, 9, 10)])
    # phases: phi / psi perturbed by 1e-9 .. 1e-6 (np.allclose-equal), starting phases of size 1e-9 .. 1e-15
    add('psi-close', [{'Fd': 100.0, 'Ts': 1e-3, 'k0': 50, 'N': N, 'dpsi': d} for d in (0.0, 1e-9, 1e-6, 3e-8)], rng.choice([1, 2]))
    add('phi-close', [{'Fd': 1000.0, 'Ts': 1e-3, 'k0': 10 ** 6, 'N': N, 'dphi': d} for d in (0.0, 1e-9, 1e-6, 3e-8)])
    # (starting phases below ~1e-11 are below the binary64 resolution of a sample of size 1: not observable)
    add('psi-tiny', [{'Fd': 5.0, 'Ts': 1e-3, 'k0': 100, 'N': N, 'psi_scale': d} for d in (0.0, 1e-9, 4e-9, 2e-9)], rng.choice([1, 2]))
    if not quick:
        for _ in range(40):
            fd = float(10.0 ** rng.uniform(0, 4))
            d = float(10.0 ** rng.uniform(-9, -5.3))
            what = rng.choice(['Fd', 'Ts'])
            ts = float(10.0 ** rng.uniform(-9, -2))
            L, vs, k = close_params(rng, what, fd, ts, [0.0, d, -2 * d])
            if 10 <= k <= 9 * 10 ** 9:
                Nr = rng.randint(1, 20)
                add(what + ('-tiny' if ts < 1e-8 and what == 'Ts' else '-relative'), [dict(v, k0=k, N=Nr) for v in vs], L)
    return out


def function_reuse_cases(rng, n):
    """R16 for the free function: 2..4 calls with refilled buffers"""
    import itertools
    out = []
    for i in range(n):
        shape = [None, [2], [2, 3], [1, 2, 2], []][i % 5]
        perms = list(itertools.permutations(range(len(shape or []))))
        calls = []
        for j in range(rng.randint(2, 4)):
            calls.append({'N': rng.choice([1, 3, 8, 8]), 'k0': rng.choice([0, 5, 1000, (1 << 31) + 3]),
                          'same': (i % 3 == 1 and j % 2 == 1) or (i % 7 == 3), 'fresh': (i % 4 == 2 and j >= 1 and rng.chance(0.5)),
                          'perm': list(rng.choice(perms))})
        if i % 2 == 0:          # same size and shape throughout: only the CONTENT of the buffers changes
            for c in calls:
                c['N'], c['perm'] = calls[0]['N'], calls[0]['perm']
        out.append({'Fd': rng.choice([5.0, 37.25, 100.0]), 'Ts': rng.choice([1e-3, 0.37e-4, 1e-6]), 'L': rng.choice([1, 2, 4, 8]),
                    'shape': shape, 'seed': rng.below(1 << 31), 'calls': calls, 'wide': i % 3 == 0,
                    'N_buf': [None, 'int64', 'int32'][i % 3], 'shape_buf': i % 2 == 1})
    return out


def rs_reuse_cases(rng, n):
    out = []
    for i in range(n):
        steps = [{'how': 'ctor', 'seed': rng.below(1 << 31), 'shape': gen_shape(rng), 'n': rng.randint(1, 5)}]
        for j in range(rng.randint(1, 3)):
            steps.append({'how': rng.choice(['ctor', 'setter']), 'who': rng.below(4), 'seed': rng.below(1 << 31),
                          'shape': gen_shape(rng), 'n': rng.randint(1, 5)})
        if i % 2 == 0:          # the SAME seed again: equal draws for the next generator, by value not by history
            steps.append({'how': 'ctor', 'seed': steps[0]['seed'], 'shape': steps[0]['shape'], 'n': 2})
        out.append({'Fd': rng.choice([5.0, 100.0]), 'Ts': 1e-3, 'L': rng.choice([1, 3, 8]), 'steps': steps})
    return out


ROBUST3_BRANCHES = [w + b for w in ('corr', 'oracle') for b in (
    ':R15-close-values:Fd-tiny', ':R15-close-values:Fd-relative', ':R15-close-values:Ts-relative', ':R15-close-values:Ts-tiny',
    ':R15-close-values:adjacent-doubles', ':R16-size-buffer-refilled', ':R16-one-buffer-two-roles',
    ':R16-shape-buffer-refilled', ':R16-buffer-holds-rejected-content', ':R16-equal-content-fresh-object')] + [
    'oracle:R15-close-set', 'oracle:R15-close-set-separated', 'oracle:R15-function-close', 'oracle:R15-function-close-separated',
    'oracle:R16-function-buffers', 'oracle:R16-function-one-array-two-roles', 'oracle:R16-function-equal-content-fresh-object',
    'oracle:R16-rs-reseeded-in-place', 'oracle:R16-one-buffer-two-generators', 'corr:R16-one-buffer-two-generators']
MARGIN = 20.0       # variants count as told apart when their references differ by this many tolerances


def robustness3_cases(rng, quick):
    sets = close_sets(rng, quick) + ([] if quick else random_close_sets(rng, 40))
    hist = [('R15-close', c) for c in close_histories(sets)]
    hist += [('R16-buffers', c) for c in buffer_scenarios(rng)]
    for _ in range(25 if quick else 400):
        hist.append(('R16-buffers', buffer_case(rng, valid_int_history(rng, rng.randint(2, 8)))))
    for _ in range(6 if quick else 100):
        hist.append(('R16-buffers', buffer_case(rng, rejected_history(rng, valid_int_history(rng, rng.randint(2, 5))), p=0.6)))
    for how in ('copy', 'deepcopy', 'pickle'):
        for _ in range(2 if quick else 30):
            hist.append(('R16-buffers-fork', buffer_case(rng, fork_case(rng, how), p=0.9)))
    return sets, hist


def random_close_sets(rng, n):
    """R15, thorough tier: random base values and relative differences 1e-9 .. 5e-6"""
    out = []
    while len(out) < n:
        fd = float(10.0 ** rng.uniform(0, 4))
        ts = float(10.0 ** rng.uniform(-9, -2))
        d = float(10.0 ** rng.uniform(-9, -5.3))
        what = rng.choice(['Fd', 'Ts'])
        L, vs, k = close_params(rng, what, fd, ts, [0.0, d, -2 * d] if rng.chance(0.5) else [0.0, d])
        if not 30 <= k <= 9 * 10 ** 9:
            continue
        n1, n2 = rng.choice([1, 2, 5, 16]), rng.choice([1, 3, 7])
        out.append({'kind': what + ('-tiny' if ts < 1e-8 and what == 'Ts' else '-relative'), 'L': L,
                    'shape': rng.choice([None, 2, [2, 1]]), 'seed': rng.below(1 << 31), 'variants': vs,
                    'ops': [['s', max(1, k - n1 - n2 - 4)], ['g', n1], ['g', None], ['s', 2], ['g', n2]],
                    'order': rng.choice(['interleaved', 'sequential'])})
    return out


def robustness3_campaign(ctx, sets, hist, quick):
    for fam, case in hist:
        if case.get('fork'):
            continue                    # (forks: correspondence; the derived-object oracle follows)
        robustness_branches(ctx, case, 'oracle')
        run_oracle(ctx, 'generate_more_samples', case)
        run_oracle(ctx, 'generate_more_samples.twin', case)
    hows = ['copy', 'deepcopy', 'pickle', 'similar']
    for i in range(8 if quick else 120):
        run_oracle(ctx, 'generate_more_samples.derived', buffer_case(ctx.rng, derived_case(ctx.rng, hows[i % 4]), p=0.9))
        ctx.branch('oracle:R16-one-buffer-two-generators')
    for case in sets:
        r = run_oracle(ctx, 'generate_more_samples.close_values', case)
        ctx.branch('oracle:R15-close-set')
        if r is None and case['kind'] != 'adjacent-doubles':
            m = LAST.get('margin', 0.0)
            STATS['close_margin_min'] = min(STATS.get('close_margin_min', float('inf')), m)
            if m >= MARGIN:
                ctx.branch('oracle:R15-close-set-separated')
            else:
                ctx.branch('oracle:R15-close-set-NOT-separated')
    for case in function_close_cases(ctx.rng, quick):
        r = run_oracle(ctx, 'generate_jakes_samples.close_values', case)
        ctx.branch('oracle:R15-function-close')
        if r is None:
            m = LAST.get('margin', 0.0)
            STATS['function_close_margin_min'] = min(STATS.get('function_close_margin_min', float('inf')), m)
            ctx.branch('oracle:R15-function-close-separated' if m >= MARGIN else 'oracle:R15-function-close-NOT-separated')
    for case in function_reuse_cases(ctx.rng, 30 if quick else 600):
        run_oracle(ctx, 'generate_jakes_samples.buffer_reuse', case)
        ctx.branch('oracle:R16-function-buffers')
        if any(c.get('same') for c in case['calls']):
            ctx.branch('oracle:R16-function-one-array-two-roles')
        if any(c.get('fresh') for c in case['calls']):
            ctx.branch('oracle:R16-function-equal-content-fresh-object')
    for case in rs_reuse_cases(ctx.rng, 12 if quick else 200):
        run_oracle(ctx, 'JakesSampleGenerator.rs_reuse', case)
        ctx.branch('oracle:R16-rs-reseeded-in-place')


WITNESS = {'Fd': 5, 'Ts': 1e-3, 'L': 4, 'shape': None, 'seed': 1, 'ops': [['s', 2048002], ['g', 1]]}


def corpus_cases():
    import glob
    import json
    import os
    out = [('generate_more_samples', WITNESS)]
    for p in sorted(glob.glob(os.path.join(core.VERIF, 'corpus', 'c14', '*.json'))):
        with open(p) as f:
            rec = json.load(f)
        out.append((rec['call'], rec['case']))
    return out


# ------------------------------------------------------------------ correspondence
def ulps(a, b):
    if a == b:
        return 0.0
    return abs(a - b) / math.ulp(max(abs(a), abs(b)))


_PROBE_CLASS = None


def probe_class():
    """subclass of the real generator that records the time vector of every request (module level
    name, so that instances can be pickled)"""
    global _PROBE_CLASS
    if _PROBE_CLASS is not None:
        return _PROBE_CLASS
    fg = _impl()

    class Probe(fg.JakesSampleGenerator):
        def __init__(self, *a, **k):
            self.verif_times = []
            super().__init__(*a, **k)

        def _generate_time_samples(self, num_samples=None):
            t = super()._generate_time_samples(num_samples)
            self.verif_times.append(np.array(t, dtype=float).ravel().copy())
            return t

        def get_similar_fading_generator(self):
            return fg.JakesSampleGenerator.get_similar_fading_generator(self)

    Probe.__qualname__ = '_PROBE_CLASS'
    Probe.__name__ = '_PROBE_CLASS'
    Probe.__module__ = __name__
    _PROBE_CLASS = Probe
    return Probe


def block_str(dims, first, count, epoch):
    return '%s/%s/%d/%d' % (';'.join(str(int(d)) for d in dims), first, count, epoch)


def fmt_shape(sh):
    if sh is None:
        return 'n'
    try:
        return 't' + ';'.join(str(int(d)) for d in sh)
    except Exception:
        return 'bad(%.20r)' % (sh,)


class Runner:
    """drives one real generator and writes one canonical state string per call (the model's format)"""

    def __init__(self, g, Ts, epoch=0, known=None):
        self.g, self.Ts = g, Ts
        self.states, self.blocks = [], []
        self.known = dict(known or {})    # id(array) -> block string (arrays are kept alive in `blocks`)
        self.cur = {'phi': g._phi_l, 'psi': g._psi_l, 'phi_v': g._phi_l.copy(), 'psi_v': g._psi_l.copy(),
                    'epoch': epoch}
        self.have_hook = hasattr(_impl().JakesSampleGenerator, '_generate_time_samples')

    def track_epoch(self):
        """a new draw of phi/psi = new array objects or changed contents"""
        g, cur = self.g, self.cur
        if (g._phi_l is not cur['phi'] or g._psi_l is not cur['psi']
                or not np.array_equal(g._phi_l, cur['phi_v']) or not np.array_equal(g._psi_l, cur['psi_v'])):
            cur.update({'phi': g._phi_l, 'psi': g._psi_l, 'phi_v': g._phi_l.copy(), 'psi_v': g._psi_l.copy(),
                        'epoch': cur['epoch'] + 1})

    def counter(self):
        """number of the next sample: the integer attribute when the code has one (read as is, so a
        fixed-width / wrapped value shows), else the float time of the next sample over Ts"""
        g = self.g
        try:
            if hasattr(g, '_sample_index'):
                v = g._sample_index
                return str(int(v)) if int(v) == v else repr(v)
            return str(int(round(float(g._current_time) / float(self.Ts))))
        except Exception:
            return 'x'

    def snapshot(self, prod, err='-'):
        last = self.g.get_samples()
        self.states.append('k=%s e=%d shape=%s prod=%s last=%s err=%s'
                           % (self.counter(), self.cur['epoch'], fmt_shape(self.g.shape), prod or '-',
                              '-' if last is None else self.known.get(id(last), 'unknown'), err))

    def record_block(self, k_before):
        g, cur = self.g, self.cur
        h = g.get_samples()
        t = g.verif_times[-1] if (self.have_hook and g.verif_times) else None
        first = '?' if t is None else k_before if t.size == 0 else str(int(round(float(t[0]) / self.Ts)))
        s = block_str(h.shape, first, h.shape[-1] if h.ndim else -1, cur['epoch'])
        self.known[id(h)] = s
        self.blocks.append({'h': h, 'copy': h.copy(), 't': t, 'first': first, 'epoch': cur['epoch'],
                            'phi': cur['phi_v'], 'psi': cur['psi_v'], 'str': s})
        return s

    def apply(self, kind, arg):
        g = self.g
        kb = self.counter()
        nt = len(g.verif_times)
        nb = None
        try:
            if kind == 'g':
                call_size_op(g, 'g', arg)
                nb = True
            elif kind == 's':
                call_size_op(g, 's', arg)
            elif kind == 'Q':
                do_query(g, arg)
            else:
                obj = mk_shape(arg)
                try:
                    g.shape = obj
                finally:
                    scribble(obj)       # the caller goes on using its own list / array
            err = '-'
        except Exception as e:
            err = type(e).__name__
        if nb and err == '-' and self.have_hook and len(g.verif_times) != nt + 1:
            self.have_hook = False
        self.track_epoch()
        self.snapshot(self.record_block(kb) if (nb and err == '-') else None, err)

    def fork(self, how):
        """a derived object (copy / deepcopy / pickle round trip) and the runner that follows it: what it
        holds as get_samples() is the parent's last block"""
        child = derive(self.g, how)
        known = {}
        last_p, last_c = self.g.get_samples(), child.get_samples()
        if last_c is not None and last_p is not None:
            known[id(last_c)] = self.known.get(id(last_p), 'unknown')
        r = Runner(child, self.Ts, self.cur['epoch'], known)
        r.keep = last_c
        if not (np.array_equal(child._phi_l, self.g._phi_l) and np.array_equal(child._psi_l, self.g._psi_l)):
            r.cur['epoch'] = -1         # a copy with other phases: shows up in every state string
        return r

    def intact(self):
        return all(np.array_equal(b['h'], b['copy']) for b in self.blocks)


def impl_history(case, Probe):
    """run a raw history (typed arguments and argument forms, rejected calls and non-mutating calls
    included) on the real generator; one canonical state string per state (constructor first) + the
    numeric material for the value / time comparison + whether every array handed out is still what it
    was (R3).  case['fork'] = {'at': i, 'how': .., 'child': ops}: after i calls an object is derived from
    the generator (R13); half of its calls are made at once, the other half after the parent's remaining
    calls; its states are returned as a second list."""
    Ts = scaled(case)[1]
    reset_buffers()
    ctor_shape = mk_shape(case['shape'])
    g = make_gen(case, Probe, shape_obj=ctor_shape)
    scribble(ctor_shape)                # the caller goes on using its own list / array
    r = Runner(g, Ts)
    r.snapshot(r.record_block('0'))
    fork = case.get('fork')
    child, later = None, []
    for i, (kind, arg) in enumerate(case['ops']):
        if fork and i == fork['at']:
            child = r.fork(fork['how'])
            half = len(fork['child']) // 2
            for k2, a2 in fork['child'][:half]:
                child.apply(k2, a2)
            later = fork['child'][half:]
        r.apply(kind, arg)
    if fork and child is None:
        child = r.fork(fork['how'])
        later = fork['child']
    for k2, a2 in later:
        child.apply(k2, a2)
    intact = r.intact() and (child is None or child.intact())
    if child is not None:
        r.child_states = child.states
        r.blocks += child.blocks
    return r.states, r.blocks, r.have_hook and (child is None or child.have_hook), intact, \
        (child.states if child is not None else None)


def ctor_shape_tok(spec):
    """the constructor's (valid) shape as the model's ShapeArg token"""
    if spec is None or isinstance(spec, int):
        return shape_tok(spec)
    val = norm_shape(spec)
    return 't' + ';'.join(str(d) for d in val)


def caller_tokens(ops):
    """R16: the history as the caller's program for the model (`histb`): B<n> / C<shape> refill the size / shape buffer in
    place, gb / sb / Sb pass the buffer object, and the buffer is overwritten right after every call"""
    toks = []
    for o in ops:
        kind = o[0]
        a = unform(o[1])[1] if kind in 'gs' else o[1]
        if kind in 'gs' and is_buf(a):
            toks += ['B' + size_tok(a), kind + 'b', 'B%d' % SCRIBBLE]
        elif kind == 'S' and is_buf(a):
            junk = [int(d) for d in a['v']] + [5] if a['t'] == 'buf:list' else [SCRIBBLE] * len(a['v'])
            toks += ['C' + shape_tok(a), 'Sb', 'Ct' + ';'.join(str(d) for d in junk)]
        else:
            toks.append(op_tok(o))
    return toks


def model_line(c, ops):
    if any(is_buf(unform(o[1])[1] if o[0] in 'gs' else o[1]) for o in ops):
        return 'histb shape=%s ops=%s' % (ctor_shape_tok(c['shape']), ','.join(caller_tokens(ops)))
    return 'histx shape=%s ops=%s' % (ctor_shape_tok(c['shape']), ','.join(op_tok(o) for o in ops))


def robustness_branches(ctx, c, where):
    """which robustness classes a case exercises (own required branch per class)"""
    import json
    ops = c.get('ops', [])
    sizes = [o[1] for o in ops if o[0] in 'gs']
    if any(size_dtype(a) in INT_TYPES or (size_dtype(a) or '').startswith('arr0:') for a in sizes):
        ctx.branch(where + ':R1-typed-sizes')
        pos = 1
        for o in ops:
            if o[0] in 'gs':
                st, v = size_value(o[1])
                dt = size_dtype(o[1])
                if st == 'ok':
                    if dt in INT_TYPES and pos <= np.iinfo(dt).max < pos + v:
                        ctx.branch(where + ':R1-size-type-range-crossed')
                        ctx.branch(where + ':R1-range-crossed:' + dt)
                    pos += v
    if c.get('types'):
        ctx.branch(where + ':R1-typed-params')
    if any(o[0] == 'S' and isinstance(o[1], dict) and shape_value(o[1])[0] == 'ok' for o in ops) \
            or isinstance(c.get('shape'), dict):
        ctx.branch(where + ':R1-typed-shape')
    if has_caller_list(c):
        ctx.branch(where + ':R3-caller-keeps-using-its-list')
    if isinstance(c.get('seed'), dict) and 'layout' in c['seed']:
        ctx.branch(where + ':R2-layout')
    shapes = [c.get('shape')] + [o[1] for o in ops if o[0] == 'S']
    if any(shape_value(sp)[0] == 'ok' and shape_value(sp)[1] is not None and 0 in shape_value(sp)[1] for sp in shapes):
        ctx.branch(where + ':R2-zero-length-axis')
    if any(size_dtype(a) and size_dtype(a).startswith('arr0:') for a in sizes):
        ctx.branch(where + ':R2-0d-array-size')
    if any(size_value(a)[0] != 'ok' for a in sizes) or any(shape_value(o[1])[0] != 'ok' for o in ops if o[0] == 'S'):
        ctx.branch(where + ':R4-rejected-call')
    if any(size_value(a) == ('ok', 0) for a in sizes):
        ctx.branch(where + ':R5-zero-size-request')
    if c.get('Fd') == 0 or c.get('L') == 1 or c.get('Ts') == 0:
        ctx.branch(where + ':R5-degenerate-parameter')
    if c.get('scale_exp10'):
        ctx.branch(where + ':R6-scale')
    if any(o[0] in 'gs' and unform(o[1])[0] for o in ops):
        ctx.branch(where + ':R8-call-forms')
    if c.get('ctor'):
        ctx.branch(where + ':R8-ctor-form:' + c['ctor'])
    if ops and ops[0][0] == 'S' and shape_value(ops[0][1])[0] == 'ok':
        ctx.branch(where + ':R8-setter-path-first')
    for a in sizes:
        dt = size_dtype(a)
        if dt in EXTRA_INT:
            ctx.branch(where + ':R9-count-type:' + dt)
        if dt and size_value(a)[0] == 'ok' and size_value(a)[1] > 256:
            ctx.branch(where + ':R9-typed-count>256')
    if any(isinstance(sp, dict) and sp['t'] in ('mixed', 'mixedlist') for sp in [c.get('shape')] + [o[1] for o in ops if o[0] == 'S']):
        ctx.branch(where + ':R10-mixed-shape')
    for o in ops:
        if o[0] == 'Q':
            ctx.branch(where + ':R11-queries')
            ctx.branch(where + ':R11-query:' + o[1])
    if int(c.get('L', 0)) >= 257 or any(shape_value(sp)[0] == 'ok' and shape_value(sp)[1] and max(shape_value(sp)[1]) >= 257
                                       for sp in [c.get('shape')]):
        ctx.branch(where + ':R14-count-scale')
    if sum(1 for o in ops if o[0] == 'S') >= 2:
        ctx.branch(where + ':R7-repeated-shape-assignment')
    if c.get('r15'):
        ctx.branch(where + ':R15-close-values:' + c['r15'])
    bsz = {}
    for o in ops:
        a = unform(o[1])[1] if o[0] in 'gs' else None
        if is_buf(a):
            bsz.setdefault(a['t'], []).append((o[0], a['v']))
    for t, uses in bsz.items():
        if len({v for _, v in uses}) >= 2:
            ctx.branch(where + ':R16-size-buffer-refilled')
        if {kd for kd, _ in uses} == {'g', 's'}:
            ctx.branch(where + ':R16-one-buffer-two-roles')
    if bsz and any(o[0] in 'gs' and isinstance(unform(o[1])[1], int) and any(unform(o[1])[1] == v for u in bsz.values() for _, v in u)
                   for o in ops):
        ctx.branch(where + ':R16-equal-content-fresh-object')
    bsh = {}
    for sp in [c.get('shape')] + [o[1] for o in ops if o[0] == 'S']:
        if is_buf(sp):
            bsh.setdefault((sp['t'], len(sp['v']) if sp['t'] != 'buf:list' else 0), []).append(tuple(sp['v']))
    if any(len(set(u)) >= 2 for u in bsh.values()):
        ctx.branch(where + ':R16-shape-buffer-refilled')
    if any(is_buf(unform(o[1])[1]) and size_value(o[1])[0] != 'ok' for o in ops if o[0] in 'gs') \
            or any(is_buf(o[1]) and shape_value(o[1])[0] != 'ok' for o in ops if o[0] == 'S'):
        ctx.branch(where + ':R16-buffer-holds-rejected-content')
    return json.dumps([c.get('shape'), ops, c.get('types'), c.get('scale_exp10')], sort_keys=True, default=str)


def correspondence(ctx, cases):
    drv = core.Driver(DRIVER)
    Probe = probe_class()
    lines = [model_line(c, c['ops']) for c in cases]
    replies = drv.ask(lines)
    forked = [c for c in cases if c.get('fork')]
    child_replies = dict(zip([id(c) for c in forked], drv.ask(
        [model_line(c, c['ops'][:c['fork']['at']] + c['fork']['child']) for c in forked])))
    vlines, vmeta = [], []
    tlines, tmeta = [], []
    for c, rep in zip(cases, replies):
        try:
            states, blocks, have_hook, intact, child_states = impl_history(c, Probe)
            impl = ' | '.join(states)
        except Exception as e:
            impl, blocks, have_hook, intact, child_states = 'exception:%s' % type(e).__name__, [], False, True, None
        model = rep
        if c.get('fork'):
            # R13: the derived object continues like an object that ran the parent's history up to the
            # fork (model: the same state value), whatever the parent is asked meanwhile
            at = min(c['fork']['at'], len(c['ops']))
            cm = ' | '.join(child_replies[id(c)].split(' | ')[at + 1:])
            ci = 'exception' if child_states is None else ' | '.join(child_states)
            if not have_hook:
                import re
                cm = re.sub(r'(\d)/\d+/(\d+)/(\d+)', r'\1/?/\2/\3', cm)
            ctx.corr('history.derived-object', c, ci, cm, key=('fork', repr(c['fork']), repr(c['ops'])))
            ctx.branch('corr:R13-derived-' + c['fork']['how'])
            if any(is_buf(unform(o[1])[1] if o[0] in 'gs' else o[1]) for o in c['fork']['child']) and \
                    any(is_buf(unform(o[1])[1] if o[0] in 'gs' else o[1]) for o in c['ops']):
                ctx.branch('corr:R16-one-buffer-two-generators')
            if c.get('ctor') == 'global-rs':
                ctx.branch('corr:R13-derived-from-default-RS-generator')
        if not have_hook:
            # no time hook: the first-sample number is not observable; compare the rest
            ctx.branch('time-hook-missing')
            import re
            model = re.sub(r'(\d)/\d+/(\d+)/(\d+)', r'\1/?/\2/\3', model)
        nontriv = len(c['ops']) >= 2
        hkey = robustness_branches(ctx, c, 'corr')
        ctx.corr('history.bookkeeping', c, impl, model, nontrivial=nontriv, key=('hist', hkey))
        ctx.corr('history.outputs-intact', c, 'intact' if intact else 'an array handed out earlier changed', 'intact',
                 nontrivial=nontriv, key=('intact', hkey))
        ctx.branch('corr:R3-outputs-intact-after-later-calls')
        for o in c['ops']:
            ctx.branch('op:' + ('gen-default' if (o[0] == 'g' and o[1] is None) else
                                {'g': 'gen', 's': 'skip', 'S': 'set-shape', 'Q': 'query'}[o[0]]))
        ctx.branch('shape:' + ('none' if c['shape'] is None else 'int' if isinstance(c['shape'], int) else
                               'typed' if isinstance(c['shape'], dict) else 'tuple%d' % len(c['shape'])))
        if impl != model:
            continue
        # numeric part: model blocks parsed from the model reply (first / count are the model's)
        mblocks = [f.split(' prod=')[1].split(' ')[0] for f in rep.split(' | ')]
        mblocks = [b for b in mblocks if b != '-']
        for b, mb in zip(blocks, mblocks):
            first, count = int(mb.split('/')[1]), int(mb.split('/')[2])
            if first + count >= (1 << 21):
                ctx.branch('long-run-request(k>=2^21)')
            if first + count >= 10 ** 9:
                ctx.branch('position>=1e9')
            h = b['h']
            L = b['phi'].shape[0]
            ent = int(np.prod(h.shape[:-1], dtype=np.int64))
            if count == 0 or ent == 0:
                ctx.branch('corr:empty-block')
                continue
            Fd_p, Ts_p = scaled(c)
            hh = h.reshape(ent, count)
            phi = b['phi'].reshape(L, ent)
            psi = b['psi'].reshape(L, ent)
            js = sorted({0, count - 1, count // 2} | {ctx.rng.below(count) for _ in range(3)})
            idxs = range(ent) if ent <= 4 else sorted({0, ent - 1, ctx.rng.below(ent)})
            tol = case_tol(c, L, (first + count) * c['Ts'])
            if tol < 1e-6:
                ctx.branch('value-tol<1e-6')
            for i in idxs:
                for j in js:
                    vlines.append('val Fd=%s Ts=%s first=%d j=%d phi=%s psi=%s'
                                  % (core.f2s(Fd_p), core.f2s(Ts_p), first, j,
                                     ','.join(core.f2s(x) for x in phi[:, i]),
                                     ','.join(core.f2s(x) for x in psi[:, i])))
                    vmeta.append((c, first, i, j, complex(hh[i, j]), tol,
                                  None if b['t'] is None else float(b['t'][j])))
            if b['t'] is not None and count <= 2048:
                tlines.append('time Ts=%s k=%d n=%d' % (core.f2s(Ts_p), first, count))
                tmeta.append((c, first, count, b['t']))
    # values and probe times
    for (c, first, i, j, hv, tol, tv), rep in zip(vmeta, drv.ask(vlines)):
        f = dict(x.split('=') for x in rep.split(' ')) if rep.startswith('t=') else None
        if f is None:
            ctx.corr('history.value', [c, first, i, j], repr(hv), rep)
            continue
        mv = complex(core.s2f(f['re']), core.s2f(f['im']))
        ok = abs(hv - mv) <= tol
        STATS['corr_value'] = max(STATS['corr_value'], abs(hv - mv) / tol)
        ctx.corr('history.value', {'case': c, 'first': first, 'entry': i, 'j': j},
                 'close' if ok else 'impl=%r model=%r tol=%.3g' % (hv, mv, tol), 'close',
                 nontrivial=tol < 1e-6, key=('val', repr(c['seed']), first, i, j))
        if tv is not None:
            mt = core.s2f(f['t'])
            ok = ulps(tv, mt) <= 2
            ctx.corr('history.time', {'case': c, 'first': first, 'j': j},
                     'close' if ok else 'impl=%r model=%r' % (tv, mt), 'close', key=('time', repr(c['seed']), first, j))
            ctx.branch('time-bit-exact' if tv == mt else 'time-within-2ulp' if ok else 'time-differs')
    # whole time vectors of the smaller requests
    for (c, first, count, t), rep in zip(tmeta, drv.ask(tlines)):
        mt = np.array([core.s2f(x) for x in rep.split(',')]) if rep else np.zeros(0)
        ok = mt.shape == t.shape and all(ulps(float(a), float(b)) <= 2 for a, b in zip(t, mt))
        ctx.corr('history.time-vector', {'case': c, 'first': first, 'n': count},
                 'close' if ok else 'impl=%s model=%s' % (t[:4].tolist(), mt[:4].tolist()), 'close',
                 key=('tvec', repr(c['seed']), first, count))


def rejection_correspondence(ctx):
    """L = 0: the code raises ZeroDivisionError, the model says error:ZeroDivisionError"""
    drv = core.Driver(DRIVER)
    rep = drv.ask(['val Fd=%s Ts=%s first=0 j=0 phi= psi=' % (core.f2s(5.0), core.f2s(1e-3))])[0]
    try:
        make_gen({'Fd': 5.0, 'Ts': 1e-3, 'L': 0, 'shape': None, 'seed': 0})
        impl = 'ok'
    except ZeroDivisionError:
        impl = 'error:ZeroDivisionError'
    except Exception as e:
        impl = 'error:' + type(e).__name__
    ctx.corr('jakes.no-rays', {'L': 0}, impl, rep, nontrivial=False)


def old_model_check(ctx, n_cases):
    """the pre-fix stepping model (historical witness): its element count must be
    what numpy's float arange returns — validates the model the negative witness
    is stated about (numpy only; the repaired code no longer calls it)"""
    drv = core.Driver(DRIVER)
    infl = 1.0000000001
    cases = [(1e-3, 0.001 + 2048002 * 0.001, 1)]
    for _ in range(n_cases):
        Ts = float(10.0 ** ctx.rng.uniform(-9, 0))
        ct = Ts * ctx.rng.randint(0, 1 << ctx.rng.randint(1, 33))
        cases.append((Ts, ct, ctx.rng.choice([1, 2, 3, 10, 100])))
    out = drv.ask(['old infl=%s Ts=%s ct=%s n=%d' % (core.f2s(infl), core.f2s(Ts), core.f2s(ct), n)
                   for Ts, ct, n in cases])
    for (Ts, ct, n), rep in zip(cases, out):
        ln = len(np.arange(ct, n * Ts + ct, Ts * infl))
        ctx.corr('old-stepping.arange-length', {'Ts': Ts, 'ct': ct, 'n': n}, 'len=%d' % ln, rep.split(' ')[0],
                 nontrivial=False)
        ctx.branch('old-model:len==n' if ln == n else 'old-model:len!=n')
    if out[0].split(' ')[0] != 'len=2':
        ctx.tie_broken('correspondence', 'old-stepping.witness', 'witness no longer yields 2 elements: ' + out[0])


# ------------------------------------------------------------------ oracle campaigns
def oracle_campaign(ctx, n_hist, n_chunk, n_zero, n_mag, n_fun, long_cases, n_tiny=2, tiny_len=3000):
    for call, case in corpus_cases():
        run_oracle(ctx, call, case, nontrivial=True)
        ctx.branch('corpus')
    for case in long_cases:
        r = run_oracle(ctx, 'generate_more_samples', case)
        ctx.branch('oracle:long-run')
    for _ in range(n_tiny):
        run_oracle(ctx, 'generate_more_samples', tiny_request_history(ctx.rng, tiny_len))
        ctx.branch('oracle:tiny-request-history')
    for _ in range(n_hist):
        run_oracle(ctx, 'generate_more_samples', gen_history(ctx.rng))
    for _ in range(n_chunk):
        cfg = gen_config(ctx.rng)
        cap = max(4, min(60000, BUDGET // (cfg['L'] * entry_count(cfg['shape']))))
        total = ctx.rng.randint(2, cap)
        chunks, left = [], total
        while left > 0:
            n = min(left, ctx.rng.randint(1, max(1, total // ctx.rng.randint(1, 6))))
            chunks.append(['s' if ctx.rng.chance(0.25) else 'g', n])
            left -= n
        if not any(c[0] == 'g' for c in chunks):
            chunks[0][0] = 'g'
        r = ctx.rng.uniform()
        k0 = 0 if r < 0.3 else gen_skip(ctx.rng)
        cfg.update({'k0': min(k0, 10 ** 10 - total - 2), 'chunks': chunks})
        run_oracle(ctx, 'generate_more_samples.chunking', cfg)
    # R14 (scale in the WORK of one call): single requests whose L x entries x samples exceeds 2^21, 2^22 terms
    # (a generator that evaluates big requests block by block must number the samples of every block correctly)
    for L, shape, total, k0 in ((16, [4, 4], 8200, 0), (8, [2, 2], 131100, 12345), (4, None, 1050000, 7)) \
            if ctx.tier == 'quick' else ((16, [4, 4], 8200, 0), (16, [4, 4], 33000, 5), (8, [2, 2], 131100, 12345),
                                         (4, None, 1050000, 7), (1, None, 4200000, 0), (20, [3], 70000, 99)):
        third = total // 3
        cfg = {'Fd': 37.5, 'Ts': 1e-4, 'L': L, 'shape': shape, 'seed': 20260930 + total, 'k0': k0,
               'chunks': [['g', third], ['s', 5], ['g', total - 2 * third - 5], ['g', third]]}
        run_oracle(ctx, 'generate_more_samples.chunking', cfg)
        ctx.branch('oracle:R14:single-request-above-2^21-terms')
    for _ in range(n_zero):
        cfg = gen_config(ctx.rng, zero_fd=True)
        cfg['ops'] = [o for o in gen_ops(ctx.rng, cfg, ctx.rng.randint(2, 8), with_shape=False)]
        run_oracle(ctx, 'generate_more_samples.zero_doppler', cfg)
        ctx.branch('Fd=0')
    for i in range(n_mag):
        cfg = gen_config(ctx.rng)
        if i % 3 == 0:
            # all rays in phase and no Doppler spread: |h| = sqrt(L), the bound itself
            cfg['seed'] = {'const': ctx.rng.choice([0.0, 0.25, 0.5])}
            ctx.branch('magnitude:at-bound')
        cfg['ops'] = gen_ops(ctx.rng, cfg, ctx.rng.randint(1, 5), with_shape=False)
        run_oracle(ctx, 'generate_more_samples.magnitude', cfg)
    for _ in range(n_fun):
        cfg = gen_config(ctx.rng)
        cap = max(1, min(20000, BUDGET // (cfg['L'] * entry_count(cfg['shape']))))
        cfg.update({'N': ctx.rng.randint(1, cap), 'k0': ctx.rng.choice([0, 0, gen_skip(ctx.rng)])})
        cfg['k0'] = min(cfg['k0'], 10 ** 10 - cfg['N'])
        run_oracle(ctx, 'generate_jakes_samples', cfg)


ROBUST_BRANCHES = [w + b for w in ('corr', 'oracle') for b in (
    ':R1-typed-sizes', ':R1-size-type-range-crossed', ':R1-range-crossed:int8', ':R1-range-crossed:uint8',
    ':R1-range-crossed:int16', ':R1-range-crossed:uint16', ':R1-range-crossed:int32', ':R1-range-crossed:uint32',
    ':R1-typed-params', ':R1-typed-shape', ':R3-caller-keeps-using-its-list', ':R2-layout', ':R2-zero-length-axis', ':R2-0d-array-size',
    ':R4-rejected-call', ':R5-zero-size-request', ':R5-degenerate-parameter', ':R6-scale',
    ':R7-repeated-shape-assignment')] + [
    'corr:R3-outputs-intact-after-later-calls', 'oracle:R3-outputs-and-inputs-intact', 'oracle:R7-lifecycle',
    'oracle:R1R2R3-function-inputs', 'oracle:R5-Ts=0', 'oracle:R1-typed-chunks']


ROBUST2_BRANCHES = [w + b for w in ('corr', 'oracle') for b in (
    [':R8-call-forms', ':R8-setter-path-first', ':R9-typed-count>256', ':R10-mixed-shape', ':R11-queries',
     ':R14-count-scale']
    + [':R8-ctor-form:' + f for f in ('kw', 'kw-shuffled', 'mixed', 'omit-defaults', 'global-rs')]
    + [':R9-count-type:' + t for t in EXTRA_INT] + [':R11-query:' + q for q in QUERIES])] + [
    'corr:R13-derived-copy', 'corr:R13-derived-deepcopy', 'corr:R13-derived-pickle',
    'oracle:R13-derived:copy', 'oracle:R13-derived:deepcopy', 'oracle:R13-derived:pickle', 'oracle:R13-derived:similar',
    'oracle:R13-derived-from-default-RS-generator', 'corr:R13-derived-from-default-RS-generator',
    'oracle:R8-ctor-vs-setter', 'oracle:R8-wrapper-equivalence', 'oracle:R8-function-call-forms',
    'oracle:R10-function-heterogeneous-inputs']


def robustness2_campaign(ctx, robust2, n):
    """first-principles oracles of the second robustness round"""
    for fam, case in robust2:
        robustness_branches(ctx, case, 'oracle')
        run_oracle(ctx, 'generate_more_samples', case)
        run_oracle(ctx, 'generate_more_samples.twin', case)
    shapes = [None, 2, [2, 1], [], [3], {'t': 'np:int64', 'v': 3}, {'t': 'list', 'v': [2, 2]}, {'t': 'mixed', 'v': [2, 1]}]
    for i in range(n):
        cfg = small_cfg(ctx.rng, L=ctx.rng.choice([1, 3, 8]), shape=shapes[i % len(shapes)],
                        shape0=ctx.rng.choice([None, 4, [1, 2], []]),
                        ops=[['g', ctx.rng.choice([None, 1, 7, {'form': 'kw', 'a': 3}])]
                             for _ in range(ctx.rng.randint(1, 4))] + [['s', 5], ['g', 2]])
        run_oracle(ctx, 'JakesSampleGenerator.ctor_vs_setter', cfg)
        ctx.branch('oracle:R8-ctor-vs-setter')
    for i in range(n):
        cfg = valid_int_history(ctx.rng, ctx.rng.randint(0, 5))
        if isinstance(cfg['seed'], dict):
            cfg['seed'] = ctx.rng.below(1 << 31)
        cfg['L'] = min(cfg['L'], 8)
        cfg.update({'tail': ctx.rng.randint(1, 40), 'call': [None, 'kw', 'mixed'][i % 3]})
        run_oracle(ctx, 'generate_jakes_samples.vs_generator', cfg)
        ctx.branch('oracle:R8-wrapper-equivalence')
    hows = ['copy', 'deepcopy', 'pickle', 'similar']
    for i in range(max(n, 4)):
        run_oracle(ctx, 'generate_more_samples.derived', derived_case(ctx.rng, hows[i % 4]))
        ctx.branch('oracle:R13-derived:' + hows[i % 4])
    for i in range(max(n // 4, 6)):
        run_oracle(ctx, 'generate_more_samples.derived', derived_case(ctx.rng, hows[i % 3], default_rs=True))
        ctx.branch('oracle:R13-derived-from-default-RS-generator')
    combos = [('float32', 'C'), ('C', 'float32'), ('list', 'F'), ('strided', 'list'), ('int', 'C'), ('C', 'int'),
              ('nested', 'float32'), ('float32', 'nested'), ('int', 'list'), ('readonly', 'nested')]
    for i in range(max(n, len(combos))):
        cfg = gen_config(ctx.rng)
        cfg['L'] = min(cfg['L'], 8)
        cap = max(1, min(2000, BUDGET // (cfg['L'] * entry_count(cfg['shape']))))
        N = ctx.rng.choice([0, 1, 100, ctx.rng.randint(1, cap)])
        k0 = ctx.rng.choice([0, 0, gen_skip(ctx.rng)])
        cfg.update({'N': N, 'k0': min(k0, 10 ** 10 - N), 'arr': combos[i % len(combos)][0],
                    'arr_psi': combos[i % len(combos)][1], 'call': [None, 'kw', 'mixed', 'omit-defaults'][i % 4]})
        if cfg['call'] == 'omit-defaults' and i % 8 == 3:
            cfg.update({'Ts': 1e-3, 'L': 8, 'shape': None, 'k0': 0, 'N': 100})
        run_oracle(ctx, 'generate_jakes_samples', cfg)
        ctx.branch('oracle:R10-function-heterogeneous-inputs')
        ctx.branch('oracle:R8-function-call-forms')


def robustness_campaign(ctx, robust, n_life):
    """first-principles oracles on the robustness families: closed form (o_history, includes the R3 / R4
    checks) and canonical twin (o_twin) on every case, life-cycle oracle (R7), free function inputs"""
    for fam, case in robust:
        robustness_branches(ctx, case, 'oracle')
        run_oracle(ctx, 'generate_more_samples', case)
        run_oracle(ctx, 'generate_more_samples.twin', case)
        ctx.branch('oracle:R3-outputs-and-inputs-intact')
    # Ts = 0.0: every sample is the value at time 0 (oracles only: the counter is not observable from the time)
    for Fd in (0.0, 5.0):
        run_oracle(ctx, 'generate_more_samples', small_cfg(ctx.rng, Fd=Fd, Ts=0.0, ops=[['g', 3], ['s', 5], ['g', None], ['g', 2]]))
        ctx.branch('oracle:R5-Ts=0')
    # typed chunk sizes against one Python-int request
    for dt, sizes in (('uint8', [200, 200, 100]), ('int8', [100, 100, 27]), ('uint16', [40000, 30000, 5]),
                      ('int16', [30000, 30000, 9000]), ('arr0:int16', [20000, 20000, 3]), ('int64', [5, 7, 11])):
        for kinds in ('ggg', 'gsg', 'sgg'):
            cfg = small_cfg(ctx.rng, k0=ctx.rng.choice([0, 17]),
                            chunks=[[kd, {'t': dt, 'v': v}] for kd, v in zip(kinds, sizes)])
            run_oracle(ctx, 'generate_more_samples.chunking', cfg)
            ctx.branch('oracle:R1-typed-chunks')
    for _ in range(n_life):
        cfg = valid_int_history(ctx.rng, ctx.rng.randint(0, 6))
        if isinstance(cfg['seed'], dict):
            continue
        cfg['tail'] = ctx.rng.randint(1, 50)
        run_oracle(ctx, 'generate_more_samples.lifecycle', cfg)
        ctx.branch('oracle:R7-lifecycle')
    for _ in range(n_life):
        cfg = gen_config(ctx.rng)
        cap = max(1, min(5000, BUDGET // (cfg['L'] * entry_count(cfg['shape']))))
        N = ctx.rng.choice([0, 1, ctx.rng.randint(1, cap)])
        fits = [t for t in INT_TYPES if N <= np.iinfo(t).max]
        cfg.update({'N': ctx.rng.choice([N, {'t': ctx.rng.choice(fits), 'v': N}]),
                    'k0': ctx.rng.choice([0, 0, gen_skip(ctx.rng)]),
                    'arr': ctx.rng.choice(['F', 'transposed', 'strided', 'reversed', 'readonly', 'list', 'float32', 'C'])})
        cfg['k0'] = min(cfg['k0'], 10 ** 10 - N)
        run_oracle(ctx, 'generate_jakes_samples', cfg)
        ctx.branch('oracle:R1R2R3-function-inputs')


def reference_selfcheck(ctx, n):
    """the extended-precision reference against exact-rational phase reduction"""
    for _ in range(n):
        L = ctx.rng.randint(1, 8)
        Fd = float(10.0 ** ctx.rng.uniform(-1, 3))
        Ts = float(10.0 ** ctx.rng.uniform(-9, 0))
        k = ctx.rng.randint(0, 10 ** 10)
        rs = np.random.RandomState(ctx.rng.below(1 << 31))
        phi = TWO_PI * rs.rand(L, 1)
        psi = TWO_PI * rs.rand(L, 1)
        a = complex(ref_values(Fd, Ts, phi, psi, np.array([k]))[0])
        b = ref_exact_point(Fd, Ts, phi[:, 0], psi[:, 0], k)
        tol = tol_for(L, Fd, k * Ts) / 4
        if not abs(a - b) <= tol:
            raise core.Infra('reference self-check failed: %r vs %r (tol %.3g) Fd=%r Ts=%r k=%d'
                             % (a, b, tol, Fd, Ts, k))
        ctx.branch('reference-selfcheck')


# ------------------------------------------------------------------ entry points
def check(ctx):
    quick = ctx.tier == 'quick'
    ctx.rule = ('histories: constructor + 1..12 seeded requests generate(None|1..1e5) / skip(1..~8e9, incl. 2^e+-3) / '
                'shape reassignment, Fd in {0} u [0.01,1000], Ts in 1e-9..1 (log-uniform + fixed values), L 1..20, '
                'shape None/int/tuples of 0..3 dims, numpy RandomState(seed) phases; long-run sweep: skip to 2^e+d '
                'then small requests; robustness families R15 (close-but-distinct Fd / Ts sets, margins from the reference) and R16 (argument buffers refilled in place); robustness families R1..R7 (typed sizes crossing the range of each integer type, typed parameters and shapes, phase layouts, rejected calls, boundary sizes/shapes, rescaled time axis, life cycle); histories of 1e3..3e4 requests of 1..4 samples; every history of <= 3 (quick) / 4 (thorough) requests over a 9-letter alphabet; non-trivial = distinct history with >= 2 requests / distinct value probe '
                'whose tolerance is < 1e-6 / distinct oracle case')
    core.prove(ctx, MODULE, generated=['C14Jakes'], drivers=[DRIVER], scratch=ctx.scratch)
    ctx.required_branches = ['oracle:R14:single-request-above-2^21-terms', 'op:gen', 'op:gen-default', 'op:skip', 'op:set-shape', 'shape:none', 'shape:int',
                             'long-run-request(k>=2^21)', 'position>=1e9', 'value-tol<1e-6', 'Fd=0',
                             'magnitude:at-bound', 'oracle:long-run', 'corpus', 'tiny-request-history',
                             'oracle:tiny-request-history'] + ROBUST_BRANCHES + ROBUST2_BRANCHES + ROBUST3_BRANCHES
    n_hist = 600 if quick else 6000
    cases = [dict(WITNESS)]
    cases += [gen_history(ctx.rng) for _ in range(n_hist)]
    if quick:
        longs = long_run_cases(ctx.rng, range(17, 34, 2), (-1, 0, 1), (1, 3), [1e-3, 1.0, 1e-6, 2.0 ** -10, 0.37e-4])
    else:
        longs = long_run_cases(ctx.rng, range(10, 34), (-2, -1, 0, 1, 2, 1000003), (1, 2, 3, 10, 100, 1000),
                               [1e-3, 1.0, 1e-6, 1e-9, 2.0 ** -10, 0.37e-4, 0.1, 7e-3])
    cases += longs[:60] if quick else longs[::3]
    cases += [tiny_request_history(ctx.rng, 1000 if quick else 10000) for _ in range(1 if quick else 3)]
    ctx.branch('tiny-request-history')
    small = small_scope_histories(3 if quick else 4)
    ctx.branch('small-scope-histories', len(small))
    cases += small
    robust = robustness_cases(ctx.rng, 40 if quick else 600)
    cases += [c for _, c in robust if c.get('Ts') != 0]
    robust2 = robustness2_cases(ctx.rng, 25 if quick else 400, quick)
    cases += [c for _, c in robust2]
    close, robust3 = robustness3_cases(ctx.rng, quick)
    cases += [c for _, c in robust3]
    cases += [fork_case(ctx.rng, how) for how in ('copy', 'deepcopy', 'pickle') for _ in range(6 if quick else 100)]
    cases += [fork_case(ctx.rng, how, default_rs=True) for how in ('copy', 'deepcopy', 'pickle')
              for _ in range(2 if quick else 30)]
    try:
        correspondence(ctx, cases)
        rejection_correspondence(ctx)
        old_model_check(ctx, 200 if quick else 5000)
    except core.Infra as e:
        if not ctx.broken:
            raise
        ctx.notes.append('correspondence skipped: %s' % e)
        ctx.required_branches = []
    except Exception:
        # the harness tripped over something the library returned: the tie is broken (exit 1 after the
        # failing-input search), never exit 2
        import traceback
        ctx.tie_broken('correspondence', 'history.harness-exception', traceback.format_exc()[-1500:])
        ctx.required_branches = []
    reference_selfcheck(ctx, 20 if quick else 500)
    if quick:
        oracle_campaign(ctx, 400, 200, 100, 100, 100, longs)
    else:
        oracle_campaign(ctx, 6000, 3000, 1000, 1000, 1000, longs, n_tiny=10, tiny_len=30000)
    robustness_campaign(ctx, robust, 60 if quick else 800)
    robustness2_campaign(ctx, robust2, 40 if quick else 600)
    robustness3_campaign(ctx, close, robust3, quick)
    ctx.extra['max_error_over_tolerance'] = {k: (round(v, 4) if isinstance(v, float) else v) for k, v in STATS.items()}
    ctx.sample({'call': 'generate_more_samples', 'case': WITNESS,
                'check': 'skip 2048002 then request 1 sample: 1 sample, value = Jakes sum at 2048003*Ts'})
    ctx.sample({'call': 'history.bookkeeping', 'line': 'hist shape=t2;3 ops=g5,g,s7,Si4,g2',
                'compare': 'k / epoch / shape / produced block dims/first/count/epoch / get_samples() block'})
    ctx.sample({'call': 'generate_more_samples.chunking', 'compare': 'one request vs chunks with skips, same phases'})


def search(ctx):
    """deeper failing-input search, used when a proof / correspondence broke"""
    sets, hist = robustness3_cases(ctx.rng, True)
    robustness3_campaign(ctx, sets, hist, True)
    if len(ctx.failures) >= 20:
        return
    for fam, case in robustness_cases(ctx.rng, 150):
        run_oracle(ctx, 'generate_more_samples', case)
        run_oracle(ctx, 'generate_more_samples.twin', case)
        if len(ctx.failures) >= 20:
            return
    longs = long_run_cases(ctx.rng, range(8, 34), (-3, -1, 0, 1, 2, 7, 12345), (1, 2, 3, 7, 10, 100, 1000),
                           [1e-3, 1.0, 1e-6, 1e-9, 2.0 ** -10, 0.37e-4, 0.1])
    for case in longs[::2]:
        run_oracle(ctx, 'generate_more_samples', case)
        if len(ctx.failures) >= 20:
            return
    # very many tiny requests far into the process: accumulated rounding of a stepped time shows up here
    for e in (21, 24, 28, 31):
        run_oracle(ctx, 'generate_more_samples', tiny_request_history(ctx.rng, 20000, start=(1 << e) + 3))
        if len(ctx.failures) >= 20:
            return
    for _ in range(400):
        run_oracle(ctx, 'generate_more_samples', gen_history(ctx.rng, n_ops=ctx.rng.randint(4, 20)))
        cfg = gen_config(ctx.rng)
        total = ctx.rng.randint(2, max(4, min(20000, BUDGET // (cfg['L'] * entry_count(cfg['shape'])))))
        a = ctx.rng.randint(1, total - 1)
        cfg.update({'k0': ctx.rng.choice([0, gen_skip(ctx.rng)]), 'chunks': [['g', a], ['g', total - a]]})
        run_oracle(ctx, 'generate_more_samples.chunking', cfg)
        if len(ctx.failures) >= 20:
            return
